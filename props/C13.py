from vdriver import U

PROPERTY = {
    "level": "proof",
    "explanation": "piecewise structure of the membership functions (exact 0 / exact 1 / flank formula / no NaN incl. degenerate shoulders) for all finite inputs up to 2^500; min/max and bounded operators; dispatcher call protocol; table walk and scratch-buffer bound of the fuzzy gain scheduler for small rule bases",
    "trusted_base": ["cbmc 6.11.0 float encoding + cvc5", "libm exp/pow/sqrt by assumed contracts (stubs in harness/mf.c): exp >= 0, exp(t<=0) <= 1, pow(t,2) >= 0 and <= 1 iff |t| <= 1, sqrt sign/zero"],
    "assumptions": [
        "flank RANGE 0 <= y <= 1, continuity and monotonicity on the flanks: not applicable (IEEE division range facts are outside the solver's reach: no answer in 25 min in the probes); the flank FORMULA is pinned instead",
        "|inputs| <= 2^500 so that differences of two inputs do not overflow (machine range in requires)",
        "class bounds of the bounded/algebraic operators only on the exact domain (multiples of 2^-10): in floating point they are false by an ulp in general",
        "'gains between the smallest and largest consequent' not applicable (weighted mean in floating point)",
    ],
    "not_applicable_clauses": ["flank range/continuity/monotonicity", "derived gains between smallest and largest consequent"],
}
RP = {"native": True, "sources": ["a.c", "math.c"]}
def M(name, fns, **kw):
    kw.setdefault("solver", "cvc5"); kw.setdefault("timeout", 300); kw.setdefault("split", 4)
    return U(name, "mf.c", "h_" + name, functions=fns, replay=RP, min_obl=2, **kw)
UNITS = [
    M("mf_tri", ["a_mf_tri"], key=["exactly one at the peak", "never NaN"]),
    M("lemma_qq", []),
    M("mf_trap", ["a_mf_trap"], key=["exactly one on the core", "never NaN"]),
    M("mf_lin", ["a_mf_lins", "a_mf_linz"], key=["never NaN"]),
    M("mf_sz", ["a_mf_s", "a_mf_z"], level="B", bound="exact domain: integer x, a < b of magnitude <= 2^10"),
    M("mf_pi", ["a_mf_pi"], level="B", bound="exact domain: integer x, a < b <= c < d of magnitude <= 2^10"),
    M("mf_gauss2", ["a_mf_gauss2", "a_mf_gauss"]),
    M("mf_smooth", ["a_mf_gauss", "a_mf_sig", "a_mf_gbell"]),
    M("fuzzy_minmax", ["a_fuzzy_cap", "a_fuzzy_cup", "a_fuzzy_not"]),
    M("fuzzy_bounded", ["a_fuzzy_cap_bounded", "a_fuzzy_cup_bounded"]),
    M("fuzzy_algebra", ["a_fuzzy_cap_algebra", "a_fuzzy_cup_algebra"]),
    M("fuzzy_exact", ["a_fuzzy_cap_bounded", "a_fuzzy_cup_bounded", "a_fuzzy_cap_algebra", "a_fuzzy_cup_algebra"], level="B", bound="exact domain: membership degrees k/1024"),
    ]
MFS = ["gauss", "gauss2", "gbell", "sig", "dsig", "psig", "trap", "tri", "lins", "linz", "s", "z", "pi"]
REPL = ["a_mf_%s/contract_a_mf_%s" % (m, m) for m in MFS]
RP2 = {"native": True, "sources": ["a.c", "math.c"]}
UNITS += [
    U("mf_dispatch", "mf2.c", "h_mf_dispatch", functions=["a_mf"], replace=REPL, cbmc=["--object-bits", "12"], timeout=300, min_obl=5,
      key=["exactly the specific function"]),
    U("fuzzy_mf_walk2", "mf3.c", "h_fuzzy_mf_walk", functions=["a_pid_fuzzy_mf"], cbmc=["--object-bits", "12"], timeout=600, min_obl=5, replay=RP2,
      level="B", bound="tables of n <= 2 entries (loop unwound completely)", unwind=5, defines=["NW=2"],
      key=["count is the number of entries whose degree exceeds epsilon"]),
    U("fuzzy_mf_walk3", "mf3.c", "h_fuzzy_mf_walk", functions=["a_pid_fuzzy_mf"], cbmc=["--object-bits", "12"], timeout=1800, min_obl=5, tiers=("thorough",), replay=RP2,
      level="B", bound="tables of n <= 3 entries (loop unwound completely)", unwind=6, defines=["NW=3"],
      key=["count is the number of entries whose degree exceeds epsilon"]),
    U("fuzzy_out_buffer2", "mf2.c", "h_fuzzy_out_buffer", functions=["a_pid_fuzzy_out_", "a_pid_fuzzy_set_bfuzz", "a_pid_fuzzy_set_rule", "a_pid_fuzzy_set_opr"],
      replace=["a_pid_fuzzy_mf/contract_a_pid_fuzzy_mf"], cbmc=["--object-bits", "12", "--slice-formula"], timeout=600, min_obl=5,
      level="B", bound="buffer for nfuzz = 2 active sets, rule base order <= 7 (loops unwound completely)", unwind=4, defines=["NF=2"],
      key=["set_bfuzz"]),
    U("fuzzy_out_buffer1", "mf2.c", "h_fuzzy_out_buffer", functions=["a_pid_fuzzy_out_"],
      replace=["a_pid_fuzzy_mf/contract_a_pid_fuzzy_mf"], cbmc=["--object-bits", "12", "--slice-formula"], timeout=120, min_obl=5,
      level="B", bound="buffer for nfuzz = 1 active set, rule base order <= 7", unwind=3, defines=["NF=1"]),
    U("fuzzy_out_buffer3", "mf2.c", "h_fuzzy_out_buffer", functions=["a_pid_fuzzy_out_"], tiers=("thorough",),
      replace=["a_pid_fuzzy_mf/contract_a_pid_fuzzy_mf"], cbmc=["--object-bits", "12", "--slice-formula"], timeout=1800, min_obl=5, solver="cadical",
      level="B", bound="buffer for nfuzz = 3 active sets, rule base order <= 7", unwind=5, defines=["NF=3"]),
    U("fuzzy_out_gain", "mf2.c", "h_fuzzy_out_gain", functions=["a_pid_fuzzy_out_"], replace=["a_pid_fuzzy_mf/contract_a_pid_fuzzy_mf_one"], min_obl=5,
      cbmc=["--object-bits", "12", "--slice-formula"], solver="cadical", timeout=600, unwind=18,
      level="B", bound="one active set per input (degree 1), min operator, rule base order <= 4, integer consequents", key=["consequent of the active rule"]),
]
UNITS += [
    U("fuzzy_out_none%d" % k, "mf2.c", "h_fuzzy_out_gain", functions=["a_pid_fuzzy_out_"], replace=["a_pid_fuzzy_mf/contract_a_pid_fuzzy_mf_one"], min_obl=5,
      cbmc=["--object-bits", "12", "--slice-formula"], solver="cadical", timeout=600, unwind=18, defines=["NONE=%d" % k],
      level="B", bound="fuzzifier reports %s; rule base order <= 4, integer consequents" % ("no active e-set" if k == 0 else "one active e-set and no active ec-set"),
      key=["no rule fires and the controller runs on its base gains"]) for k in (0, 1)
]
