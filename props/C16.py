from vdriver import U

PROPERTY = {
    "level": "proof",
    "explanation": "a_tf_set_num/set_den/init/zero for every unsigned order (pointers stored, delay lines all-bits-zero by witness entry, other half untouched, zero == state after init); "
                   "a_tf_iter on exactly sized heap blocks for every pair of orders 0..4 (bounded units): input line = new sample followed by the old entries, output line = returned value followed by the old entries (bit patterns, witness index), coefficients and instance untouched, no access outside the blocks; "
                   "difference equation y = sum num[i]*input'[i] - sum den[i]*output[i] against an independently written reference on the exact integer domain, 2 (thorough: 3) steps from zero state against the reference recurrence and replay after a_tf_zero; "
                   "a_real_push_fore/push_back shift semantics for n = 0..8; low-pass / high-pass one-step update for ALL doubles (IEEE evaluation of the documented formula), zero and init",
    "trusted_base": [
        "cbmc 6.11.0 (IEEE-754 bit-precise float encoding, round-to-nearest; built-in byte-level models of memset/memmove; malloc model)",
        "cvc5 for the floating-point equalities (lpf, hpf, tf_iter_equation_*, tf_steps_*)",
        "a_real = double, LP64",
        "tf_iter_equation_* and tf_steps_* only: memmove on whole a_real elements is a harness stub (element-wise copy in the non-clobbering order, asserts that only whole elements are moved) instead of cbmc's byte-level model, "
        "so that the shifted samples are the same solver terms as the old samples; the shift itself is decided with cbmc's own model, bit for bit, in push_fore/push_back/tf_iter_shift_*",
    ],
    "assumptions": [
        "orders of a_tf_iter bounded by 4 x 4 (one unit per denominator order, numerator order by case split so that every memmove length is a constant on its path): units of level B; "
        "orders are not bounded in tf_set / tf_init_zero (any unsigned int; the memset model needs no unwinding)",
        "difference equation decided on the exact domain only (integer samples and coefficients |v| <= 2^10; |v| <= 16 for the multi-step units): every product and partial sum is exact, "
        "so the verdict does not depend on the accumulation order; the reference is a left fold in the order of the definition",
        "'for every input sequence, starting from zero state': a_tf_iter is verified from an ARBITRARY state of both delay lines (shift: any bit pattern; equation: exact domain); induction over the sequence is a paper step, backed by the multi-step units",
        "ghost witness index stands for the universal quantifier over delay-line entries",
        "low-pass: the obligation 'output = (1-alpha)*output + alpha*x' pins the IEEE evaluation of the documented convex combination (one multiplication per term, then the sum) for all doubles; "
        "an algebraically equal but differently associated update is reported by it, because its rounding and overflow behaviour differ",
        "linearity and time invariance of the transfer function: not applicable (statements about real arithmetic over whole histories; in floating point they are false by rounding)",
        "'low-pass output stays within the range of the values fed so far': false by an ulp in general (rounding of the two products); decided only where no rounding occurs: alpha = 1 (output == input for all finite values, no overflow of intermediates), alpha = 0 (output held), and a settled filter with dyadic alpha stays settled",
        "'settles to a constant input' / 'high-pass output decays to zero': not applicable (limits over histories of rounded arithmetic); decided: the fixed point (lpf: output == x stays for dyadic alpha; hpf: zero output and constant input stay zero)",
        "a_lpf_gen / a_hpf_gen in [0,1] (strictly inside for 1e-12 <= fc*ts <= 1e12): not applicable (range facts about IEEE quotients are outside the solver's reach: no answer within 25 min in the probes)",
        "C++ member wrappers (operator() etc.) are outside (C only)",
    ],
    "not_applicable_clauses": [
        "linear and time-invariant",
        "low-pass stays within the range of the values fed so far (general alpha)",
        "low-pass settles to a constant input / high-pass decays to zero (limits)",
        "coefficient generators map positive fc, ts into [0,1]",
    ],
    "parameters_concretised": ["a_tf_iter orders: denominator order per unit (0..4), numerator order per path (0..4)", "a_real_push_fore/back length per path (0..8)"],
}
RP = {"native": True, "sources": []}   # harness/tf.c includes src/a.c, src/math.c, src/tf.c itself
def T(name, fns, **kw):
    kw.setdefault("timeout", 600)
    kw.setdefault("min_obl", 3)
    return U(name, "tf.c", kw.pop("entry", "h_" + name), functions=fns, replay=RP, **kw)
BD = "orders num_n <= 4, den_n <= 4 (every loop unwound completely for these orders)"
EX = BD + "; exact domain: integer samples and coefficients |v| <= 2^10"
UNITS = [
    T("tf_set", ["a_tf_set_num", "a_tf_set_den"], cbmc=["--slice-formula"], key=["order are stored", "delay line is \\+0"], min_obl=20),
    T("tf_init_zero", ["a_tf_init", "a_tf_zero", "a_tf_set_num", "a_tf_set_den"], key=["back to the initial state", "init: pointers"], min_obl=20),
    T("push_fore", ["a_real_push_fore"], unwind=10, level="B", bound="n <= 8 (length concrete on every path)", key=["entry w is the old entry w-1", "also for n == 1"], min_obl=10),
    T("push_back", ["a_real_push_back"], unwind=10, level="B", bound="n <= 8 (length concrete on every path)", key=["entry w is the old entry w\\+1", "also for n == 1"], min_obl=10),
    T("tf_iter_spot", ["a_tf_iter"], unwind=6, level="B", bound=BD + "; two concrete integer vectors (a test backing tf_iter_equation_*: for a wrong formula the solver may not produce a counterexample in time)",
      key=["concrete vectors"], min_obl=50, cbmc=["--object-bits", "12"]),
    T("lpf", ["a_lpf_iter", "a_lpf_zero", "a_lpf_init"], solver="cvc5", split=4, key=["documented convex combination", "alpha = 1 passes"], cost=60),
    T("hpf", ["a_hpf_iter", "a_hpf_zero", "a_hpf_init"], solver="cvc5", split=4, key=["output = alpha\\*\\(output \\+ x - previous input\\)"], cost=30),
] + [
    T("tf_iter_shift_m%d" % m, ["a_tf_iter", "a_real_push_fore"], entry="h_tf_iter_shift", defines=["MD=%d" % m], unwind=6, level="B", bound=BD,
      cbmc=["--slice-formula"], key=["input line entry w is the old entry w-1", "output line starts with the returned value"], min_obl=50, cost=10 * m + 5) for m in range(5)
] + [
    T("tf_iter_equation_m%d" % m, ["a_tf_iter"], entry="h_tf_iter_equation", defines=["MD=%d" % m, "VERIF_TYPED_MOVE"], unwind=6, level="B", bound=EX,
      solver="cvc5", key=["y = sum num"], min_obl=50, cost=15 * m + 5) for m in range(5)
] + [
    T("tf_steps_m%d" % m, ["a_tf_iter", "a_tf_init", "a_tf_zero"], entry="h_tf_steps", defines=["MD=%d" % m, "VERIF_TYPED_MOVE"], unwind=6, level="B",
      bound=BD + "; two steps; exact domain |v| <= 16", solver="cvc5", key=["second output equals the reference recurrence", "zeroing restores"], min_obl=50, cost=15 * m + 5) for m in range(5)
] + [
    T("tf_steps3_m%d" % m, ["a_tf_iter", "a_tf_init", "a_tf_zero"], entry="h_tf_steps", defines=["MD=%d" % m, "VERIF_TYPED_MOVE", "STEPS=3"], unwind=6, level="B",
      bound=BD + "; three steps; exact domain |v| <= 16", solver="cvc5", key=["third output equals the reference recurrence"], min_obl=50, timeout=1800, tiers=("thorough",)) for m in range(5)
]

UNITS.append(U("gen_nan", "gen.c", "h_gen", level="P", functions=["a_lpf_gen", "a_hpf_gen"], min_obl=3, solver="cvc5", split=4, timeout=300,
               replay={"native": True}, key=["lpf_gen"]))
