from vdriver import U

PROPERTY = {
    "level": "proof",
    "explanation": "loop-free Hoare triples over IEEE doubles: output clamp for ARBITRARY prior state (so after every history) incl. NaN intermediates, integrator one-sidedness, bookkeeping, zero == init; difference equations and the pos/inc coupling step on the exact integer domain (bounded-domain units)",
    "trusted_base": ["cbmc 6.11.0 (IEEE-754 bit-precise float encoding, round-to-nearest)", "a_real = double"],
    "assumptions": [
        "induction over the history (every step function is verified from an arbitrary prior state / from the coupling invariant) is a paper step",
        "difference equations and the positional/incremental coupling are decided on the exact domain only (integers |x| <= 2^10, gains <= 2^4: every intermediate is exact, so the verdict does not depend on evaluation order); units of level B",
        "'positional and incremental outputs coincide while no limit is active' follows from the two verified difference equations by exact algebra (out_pos[k] - out_pos[k-1] = kp*(e-e[k-1]) + ki*e + kd*(var-var[k-1]) when the integrator advances by ki*e): paper lemma; a mechanical product-harness proof needs exact reasoning about IEEE products and did not finish (cvc5, 300 s)",
        "inside a_pid_fuzzy_run/pos/inc the call a_pid_fuzzy_out_ is replaced by its contract 'assigns only pid.kp, pid.ki, pid.kd' (its scratch-buffer frame is decided in C13; its exit paths - no active e-set / no active ec-set give exactly the base gains - and the selection of the active rule are the C13 units fuzzy_out_none0/1 and fuzzy_out_gain, run here as well)",
        "'all controller state stays finite' and the neuron's normalised weights beyond clamping: not applicable (needs magnitude reasoning over products; no contract within the solver's reach)",
    ],
    "not_applicable_clauses": ["all controller state stays finite", "neuron weight normalisation"],
}
RP = {"native": True, "sources": ["a.c", "mf.c", "fuzzy.c", "math.c"]}
def P(name, fns, **kw):
    kw.setdefault("solver", "cvc5"); kw.setdefault("timeout", 300)
    return U(name, "pid.c", "h_" + name, functions=fns, replay=RP, min_obl=3, **kw)
UNITS = [
    P("pid_run", ["a_pid_run", "a_pid_run_"], key=["within the output limits"]),
    P("pid_pos_clamp", ["a_pid_pos", "a_pid_pos_"], key=["within the output limits"]),
    P("pid_pos_integrator", ["a_pid_pos_"], key=["does not grow", "does not shrink"], timeout=300),
    P("pid_inc_clamp", ["a_pid_inc", "a_pid_inc_"], key=["within the output limits"]),
    P("pid_zero", ["a_pid_zero"], key=["freshly initialised"]),
    P("neuro_inc", ["a_pid_neuro_inc", "a_pid_neuro_inc_"], key=["within the output limits"]),
    P("neuro_run", ["a_pid_neuro_run", "a_pid_neuro_run_"], key=["within the output limits"]),
    P("neuro_zero", ["a_pid_neuro_zero"]),
    P("fuzzy_run", ["a_pid_fuzzy_run"], replace=["a_pid_fuzzy_out_/contract_a_pid_fuzzy_out_"], key=["within the output limits"]),
    P("fuzzy_pos", ["a_pid_fuzzy_pos"], replace=["a_pid_fuzzy_out_/contract_a_pid_fuzzy_out_"], key=["within the output limits"]),
    P("fuzzy_inc", ["a_pid_fuzzy_inc"], replace=["a_pid_fuzzy_out_/contract_a_pid_fuzzy_out_"], key=["within the output limits"]),
    P("fuzzy_zero", ["a_pid_fuzzy_zero"]),
    P("pid_pos_equation", ["a_pid_pos_"], level="B", bound="exact domain: integer data |x| <= 2^10, gains <= 2^4", timeout=300, cost=60),
    P("pid_inc_equation", ["a_pid_inc_"], level="B", bound="exact domain: integer data |x| <= 2^10, gains <= 2^4", timeout=300, cost=60),
]

# the gain scheduler called by the fuzzy step functions (replaced by its frame contract above): its exit paths and the
# selection of the active rule are C13 units; they are run here too because a scheduler that produces non-finite gains when no
# rule fires breaks C12's "state stays finite / output follows the equations with the base gains" (round-3 seed C12-4)
import importlib.util, os
def _load(name):
    spec = importlib.util.spec_from_file_location("prop_" + name, os.path.join(os.path.dirname(os.path.abspath(__file__)), name + ".py"))
    m = importlib.util.module_from_spec(spec)
    spec.loader.exec_module(m)
    return m
UNITS += [u for u in _load("C13").UNITS if u.name in ("fuzzy_out_none0", "fuzzy_out_none1", "fuzzy_out_gain")]
