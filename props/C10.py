from vdriver import U

PROPERTY = {
    "level": "proof",
    "explanation": "build configuration a.verif.h (every A_HAVE_* switch off): the library's own fallback bodies of the complex functions are the verified text. Decided: field formulas of the arithmetic (IEEE expression equality for all finite operands; exact domain of small integers / powers of two against independent arithmetic, including reciprocals of magnitude 2^-1000 .. 2^1000), principal ranges and quadrant signs of sqrt/asin/acos/atan/acosh/log off the cuts, |Re atan z| vs pi/4 inside/outside the unit circle, branch constants and callees of the real-argument variants, addition-theorem / polar formulas of exp/log/pow/sin/cos/tan/sinh/cosh/tanh/atan with the right real callee, the twin identity Im asin z = -Im acos z, composition skeletons (asinh, acosh, atanh, reciprocal and arc-reciprocal families, log2/log10/logb, by-value wrappers), the constants pi, pi/2, pi/4, 1/sqrt2, 1/ln2, 1/ln10 bit for bit",
    "trusted_base": [
        "cbmc 6.11.0 (IEEE-754 bit-precise float encoding, round-to-nearest); cvc5 (FP theory + uninterpreted functions) for expression equalities, MiniSat for range/sign obligations and for model finding (vacuity guards)", "a_real = double",
        "libm by assumed contracts (stubs in harness/complex.c; each is an uninterpreted function of its argument = deterministic, plus ISO C / IEEE facts): sqrt(x>=0) >= 0, sqrt(+-0) = +-0, between 1 and x, >= 2^-537 for x > 0; exp >= 0, exp(0) = 1, >= 1 right / <= 1 left of 0, > 0 above -700, finite below 700; log sign follows x-1, finite on finite x > 0; sin, cos in [-1,1], sin 0 = 0, cos 0 = 1; sinh, tanh have the sign of the argument, |tanh| <= 1; cosh >= 1, cosh 0 = 1; asin in [-pi/2,pi/2] with the sign of the argument; acos in [0,pi], <= pi/2 for x >= 0, >= pi/2 for x <= 0, acos 1 = 0; atan in [-pi/2,pi/2] with the sign of the argument; pow(x,2) >= 0",
        "the helpers of src/math.c that complex.c calls in this configuration are STUBBED by assumed contracts, src/math.c is NOT included (they are C11's subject; this keeps every unit loop-free and fast): a_real_hypot = a_real_norm2 (even, hypot(x,+-0) = |x|, max(|x|,|y|) <= r <= 2 max), a_real_atan2 (in [-pi,pi], half plane of y, |r| <= pi/2 for x > 0, >= pi/2 for x < 0, 0 for y = 0 <= x), a_real_log1p (sign of the argument on (-1,inf), finite), a_real_acosh (>= 0, 0 only at 1), a_real_atanh (sign of the argument, infinite exactly at +-1). The native replay of a counterexample links the real src/math.c and libm",
        "composition and wrapper units (asinh, acosh, atanh, asec, acsc, acot, asech, acsch, acoth, wrappers_*) replace the inner in-place function by the contract 'writes only *ctx; result is a deterministic function of *ctx (and of the second operand)' (goto-instrument --dfcc --replace-call-with-contract, not enforced); the inner functions' own behaviour is decided in their primary units on the real bodies",
    ],
    "assumptions": [
        "accuracy 'to within a small multiple of machine precision' against a high-precision oracle is NOT decided (libm is opaque, IEEE product/quotient range facts are out of the solver's reach): not applicable; decided is what the fallback bodies decide by themselves: sign, branch, constant, callee, field formula",
        "only the fallback configuration (all A_HAVE_C* off) and a_real = double are verified; with a switch on, the body is a one-line binding to libm and nothing is claimed",
        "arguments: finite, |Re|,|Im| <= 2^500 (sums and squares of inputs do not overflow) unless a unit says otherwise; off the branch cuts and poles for the range/sign clauses; divisors / arguments of inv_ with max(|Re|,|Im|) >= 2^-500 (below ~2^-1022 the scaling factor 1/|z| overflows and inv_/div_ return NaN parts although 1/z is not representable anyway)",
        "quadrant signs are stated weakly (>= 0 / <= 0): strict signs are false at underflow (Im sqrt(2^1000 + 2^-1074 i) rounds to 0)",
        "arith_mul_exact, arith_div_exact, arith_inv_pow2 are exact-domain units (level B): integers |n| <= 8; divisors and arguments +-2^e on an axis with numerators of moderate magnitude",
        "asin_acos_twin states Im asin z == -Im acos z bit for bit (asin z + acos z = pi/2; both fallbacks evaluate |Im| by the same formula); a deliberate rewrite of one side to another accurate formula would require restating it with a tolerance, which is not decidable here. asin_acos_twin_p1..p3 restate it at one named point per formula region because a counterexample of the symbolic form is not found within 5 min; their vacuity guard is not run (single-point precondition; asin_acos_twin_reach shows the end of the same two bodies reachable)",
        "the real parts of asin_/acos_ off the real axis are decided as range + quadrant only: a change inside the Hull-Fairgrieve-Tang expressions that keeps sign and range is NOT detected (accuracy clause)",
        "sign of Im atan z in the log(|z+i|/|z-i|) branch needs monotonicity of hypot: not applicable (the formula itself is pinned)",
        "OBSERVED, NOT ASSERTED (kept out on the lead's instruction): fallback a_complex_acosh_ picks +i acos z when Im acos z == +0, which happens for |Re z| < 1, Im z < 0 with (Im z)^2 underflowing: acosh(0.5 - 1e-200 i) = -0 + 1.0472i (C99: 1.15e-200 - 1.0472i). The lower-half-plane sign clause (unit acosh_lower, thorough tier) is therefore restricted to 2^-400 <= -Im z, |z| <= 2^20",
        "OBSERVED, outside the property's quantifier (on the cut, not asserted): fallback a_complex_atan_(iy), |y| > 1 returns Re = +-pi instead of +-pi/2; asin_real/acos_real/atanh_real take the value on the lower side of the cut for x > 1 (C99 with +0 imaginary part takes the upper side)",
    ],
    "not_applicable_clauses": ["accuracy within a small multiple of machine precision scaled by the conditioning (all functions)", "operations documented as inverse of each other compose to the identity to the same accuracy (exp/log; multiply/divide by the same scalar beyond the exact domain)", "libm-bound configurations (A_HAVE_C* on)", "a_real = float / long double"],
}
RP = {"native": True, "sources": ["a.c", "math.c"]}
def C(name, fns, **kw):
    kw.setdefault("solver", "cvc5"); kw.setdefault("timeout", 300); kw.setdefault("split", 4); kw.setdefault("min_obl", 2); kw.setdefault("cbmc", ["--slice-formula"])
    entry = kw.pop("entry_", "h_" + name)
    return U(name, "complex.c", entry, functions=fns, replay=RP, **kw)
DROP = ["--bounds-check", "--pointer-check", "--div-by-zero-check", "--pointer-primitive-check"]  # secondary units: memory-safety obligations of the same functions are decided in their primary unit
EXACT = "exact domain: integer parts |n| <= 8"
UNITS = [
    C("const_pi", [], key=["A_REAL_PI is pi"]),
    C("const_log", ["a_complex_log2_", "a_complex_log10_"], key=["1/ln\\(2\\)", "1/ln\\(10\\)"]),
    C("arith_addsub", ["a_complex_add", "a_complex_add_", "a_complex_sub", "a_complex_sub_", "a_complex_add_real", "a_complex_add_real_", "a_complex_add_imag", "a_complex_add_imag_",
                       "a_complex_sub_real", "a_complex_sub_real_", "a_complex_sub_imag", "a_complex_sub_imag_", "a_complex_conj", "a_complex_conj_", "a_complex_neg", "a_complex_neg_",
                       "a_complex_rect", "a_complex_eq", "a_complex_ne"], key=["add_:", "neg_:"], min_obl=18),
    C("arith_mul", ["a_complex_mul_", "a_complex_mul"], key=["Re = ac - bd"]),
    C("arith_mul_exact", ["a_complex_mul_"], level="B", bound=EXACT, key=["integers"], solver=None),
    C("arith_scalar", ["a_complex_mul_real", "a_complex_mul_real_", "a_complex_mul_imag", "a_complex_mul_imag_", "a_complex_div_real", "a_complex_div_real_"], key=["mul_imag_:", "div_real_:"]),
    C("arith_div_imag", ["a_complex_div_imag", "a_complex_div_imag_"], key=["div_imag_:"]),
    C("arith_inv", ["a_complex_inv_", "a_complex_inv"], key=["sign of Re z", "factor by factor"]),
    C("arith_inv_pow2", ["a_complex_inv_"], level="B", bound="exact domain: z = +-2^e or +-2^e i, -1000 <= e <= 1000", key=["finite and not zero"], solver=None),
    C("arith_div", ["a_complex_div_", "a_complex_div"], key=["div_: Re"]),
    C("arith_div_exact", ["a_complex_div_"], level="B", bound="exact domain: divisor +-2^e or +-2^e i, |e| <= 900, numerator parts 0 or of magnitude in [2^-100, 2^100]", key=["exactly"], solver=None),
    C("abs_arg", ["a_complex_abs", "a_complex_abs2", "a_complex_arg", "a_complex_logabs", "a_complex_proj_", "a_complex_proj"], key=["arg: atan2", "logabs:"]),
    C("polar", ["a_complex_polar"], key=["polar:"]),
    C("sqrt", ["a_complex_sqrt_"], key=["Re sqrt\\(z\\) >= 0"]),
    C("sqrt_real", ["a_complex_sqrt_real"], key=["sqrt_real:"]),
    C("exp", ["a_complex_exp_", "a_complex_exp"], key=["exp_:"]),
    C("log", ["a_complex_log_", "a_complex_log"], key=["log_: log.z. \\+ i arg z"]),
    C("log2_10", ["a_complex_log2_", "a_complex_log10_"], key=["log2_:", "log10_:"]),
    C("logb", ["a_complex_logb_"], key=["logb_:"], min_obl=1),
    C("pow", ["a_complex_pow_"], key=["0\\^0 = 1", "polar form"]),
    C("pow_real", ["a_complex_pow_real_"], key=["0\\^0 = 1", "pow_real_: modulus"]),
    C("sin", ["a_complex_sin_"], key=["sin_:"]),
    C("cos", ["a_complex_cos_"], key=["cos_:"]),
    C("tan", ["a_complex_tan_"], key=["tan_: Re", "tan_: Im"]),
    C("sinh", ["a_complex_sinh_"], key=["sinh_:"], min_obl=1),
    C("cosh", ["a_complex_cosh_"], key=["cosh_:"], min_obl=1),
    C("tanh", ["a_complex_tanh_"], key=["tanh_: Re", "tanh_: Im"]),
] + [C(n, ["a_complex_%s_" % n], key=[n + "_:"], min_obl=1) for n in ("sec", "csc", "cot", "sech", "csch", "coth")] + [
    C("asin", ["a_complex_asin_"], key=["Re asin z in"], solver=None, timeout=400, cost=100, split=8),
    C("acos", ["a_complex_acos_"], key=["Re acos z in"], solver=None, timeout=400, cost=90, split=8),
    # equality of the two evaluations: cvc5 (congruence); its vacuity guard needs a model of both bodies: SAT back end, sibling unit
    C("asin_acos_twin", ["a_complex_asin_", "a_complex_acos_"], key=["Im asin z == -Im acos z"], min_obl=1, only=["^(?!.*VERIF_CANARY)"], no_canary=True, split=None, drop_checks=DROP),
    C("asin_acos_twin_reach", [], solver=None, only=["VERIF_CANARY"], min_obl=0, entry_="h_asin_acos_twin", drop_checks=DROP),
] + [
    # the same identity at a named point of each region of the |Im| formula (counterexample search of the symbolic obligation takes > 5 min, at a point < 1 min);
    # vacuity guard not run for these three (single-point precondition; reachability through the same two bodies: asin_acos_twin_reach)
    C("asin_acos_twin_" + n, ["a_complex_asin_", "a_complex_acos_"], key=["at z ="], min_obl=1, drop_checks=DROP, only=["^(?!.*VERIF_CANARY)"], no_canary=True, split=None) for n in ("p1", "p2", "p3")] + [
    C("atan", ["a_complex_atan_"], key=["Re atan z in"], timeout=300, cost=50),
    C("inv_real", ["a_complex_asin_real", "a_complex_acos_real", "a_complex_acosh_real", "a_complex_atanh_real", "a_complex_asec_real", "a_complex_acsc_real"], key=["asin_real:", "acsc_real:"]),
    C("inv_real_delegation", ["a_complex_asin_", "a_complex_acos_", "a_complex_atanh_"], key=["asin_real"], drop_checks=DROP),
    C("asinh", ["a_complex_asinh_"], key=["-i asin\\(i z\\)"], min_obl=1, replace=["a_complex_asin_/contract_asin_"]),
    C("acosh", ["a_complex_acosh_"], key=["acosh z = -i acos z"], replace=["a_complex_acos_/contract_acos_"]),
    C("acosh_range", ["a_complex_acosh_"], key=["Re acosh z >= 0"], solver=None, timeout=400, cost=80, split=8),
    # thorough only: needs (Im z)^2/(..) > 0, a quotient range fact (cvc5 ~130 s; MiniSat ~340 s); vacuity guard by the SAT sibling
    C("acosh_lower", ["a_complex_acosh_"], key=["lower half plane"], min_obl=1, timeout=900, tiers=("thorough",), cost=200, only=["lower half plane"], no_canary=True, split=None, drop_checks=DROP),
    C("acosh_lower_reach", [], solver=None, only=["VERIF_CANARY"], min_obl=0, entry_="h_acosh_lower", timeout=900, tiers=("thorough",), drop_checks=DROP),
    C("atanh", ["a_complex_atanh_"], key=["-i atan\\(i z\\)"], replace=["a_complex_atan_/contract_atan_"]),
] + [C(n, ["a_complex_%s_" % n], key=[n + "_:"], min_obl=1, replace=["a_complex_%s_/contract_%s_" % (f, f)]) for n, f in (("asec", "acos"), ("acsc", "asin"), ("asech", "acosh"), ("acsch", "asinh"), ("acoth", "atanh"))] + [
    C("acot", ["a_complex_acot_"], key=["acot\\(0\\)"], replace=["a_complex_atan_/contract_atan_"]),
] + [
    # by-value wrappers: the in-place function is replaced by its 'deterministic function of *ctx' contract on both sides
    C("wrappers_" + k, ["a_complex_" + f for f in fs], key=["by-value"], drop_checks=DROP, min_obl=len(fs),
      replace=["a_complex_%s_/contract_%s_" % (f, f) for f in fs])
    for k, fs in (("a", ["sqrt", "exp", "log", "log2", "log10", "proj"]), ("b", ["sin", "cos", "tan", "sec", "csc", "cot"]), ("c", ["sinh", "cosh", "tanh", "sech", "csch", "coth"]),
                  ("d", ["asin", "acos", "atan"]), ("e", ["asec", "acsc", "acot"]), ("f", ["asinh", "acosh", "atanh"]), ("g", ["asech", "acsch", "acoth"]), ("h", ["pow", "pow_real", "logb"]))
]
