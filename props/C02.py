from vdriver import U
from treeshapes import rbt_shapes

PROPERTY = {
    "level": "proof",
    "explanation": "the real insert / remove / lookup code run on EVERY valid red-black tree of depth <= 3 (<= 7 nodes; one unit per tree shape, colours/keys/positions symbolic; a deterministic sample (every 16th) of the depth-4 shapes = up to 15 nodes in the thorough tier; VERIF_FULL_D4=1 runs all of them, ~3 h), every key position (new or resident) and every node to remove; the result is judged by a recursive checker over the actual links (search order, parent links, black root, no red node with a red child, equal black heights) and by node count + lookups (element set)",
    "trusted_base": ["cbmc 6.11.0 (SAT back end CaDiCaL)"],
    "assumptions": [
        "descent lemmas rbt_lemma_search / rbt_lemma_descent (harness/search_lemma.c, shared with C01): the loops of a_rbt_search and a_rbt_insert under DFCC loop contracts on an arbitrary heap with ghost key intervals; the rebalancing call is replaced by a recording contract; 'absent when the search falls off' follows on paper from the disjointness of the intervals",
        "induction over histories: every operation is verified from every valid tree of the bounded depth; UNBOUNDED part: rbt_lemma_insert_step / rbt_lemma_remove_step prove the inductive step of the two fix-up loops (a_rbt_insert_adjust, a_rbt_remove_adjust; all cases and mirrors, packed layout) on windows with ghost black heights up to 2^20, using the loop-head hooks of src/rbt.c: every terminating path restores a valid tree with the old black height, the continuing path re-establishes the loop invariant one level up; the induction over the climb loop is a paper step. The unlink cases of a_rbt_remove are connected to the fix-up loop by rbt_lemma_unlink, the descent by rbt_lemma_search / rbt_lemma_descent",
        "whole-tree units use the node layout with separate parent/factor fields (A_SIZE_POINTER=1): cbmc cannot propagate pointers through the packed parent word ((uintptr)parent + colour) and the packed whole-tree encoding needs > 40 GB. The packed layout is covered by accessor round-trip proofs and by every lemma unit (the step and unlink lemmas run the default packed layout, incl. the lines of a_rbt_set_parents / a_rbt_remove that copy the packed word); packed whole-tree units on trees of depth <= 2 were tried in the thorough tier and removed: tens of GB, and cbmc left obligations without a verdict in one of four runs",
        "the comparison callback returns the key difference (any magnitude): only its sign may be used",
    ],
}
RP = {"native": True}
INS = ["a_rbt_insert", "a_rbt_insert_adjust", "a_rbt_set_parents", "a_rbt_set_parent_color", "a_rbt_search"]
REM = ["a_rbt_remove", "a_rbt_remove_adjust", "a_rbt_set_parents", "a_rbt_set_parent_color", "a_rbt_search"]
def T(name, entry, d, tiers=("quick", "thorough"), defs=(), **kw):
    kw.setdefault("timeout", 900)
    kw.setdefault("bound", "every valid red-black tree of depth <= %d (<= %d nodes) before the operation" % (d, (1 << d) - 1))
    return U(name, "trees.c", entry, level="B", replay=RP, tiers=tiers, min_obl=5, unwind=max(d + 3, (1 << d) + 1),
             defines=["TREE_RBT", "D=%d" % d] + list(defs), cbmc=["--object-bits", "10"], solver="cadical", **kw)
UNITS = []
for m in rbt_shapes(3):
    b = "red-black tree shape (colours symbolic) 0x%02x (heap positions) of depth <= 3, keys and positions symbolic" % m
    UNITS.append(T("rbt_insert_d3_s%02x" % m, "h_insert", 3, defs=["A_SIZE_POINTER=1", "SHAPE=0x%x" % m], functions=INS, bound=b, timeout=900))
    if m:
        UNITS.append(T("rbt_remove_d3_s%02x" % m, "h_remove", 3, defs=["A_SIZE_POINTER=1", "SHAPE=0x%x" % m], functions=REM, bound=b, timeout=900))
UNITS += [
    U("rbt_lemma_remove_step", "rbt_lemma.c", "h_remove_step", level="L", functions=["a_rbt_remove_adjust", "a_rbt_set_parents", "a_rbt_set_parent_color", "a_rbt_set_black"], replay={"prog": "trees_search.c", "sources": ["avl.c", "rbt.c"], "mode": "rbt", "timeout": 600}, min_obl=5, unwind=9,
      defines=["LEMMA_REMOVE"], cbmc=["--object-bits", "10"], solver="cadical", timeout=1200, key=["remove_adjust step \\(done\\)", "remove_adjust step \\(continue\\)"]),
    U("rbt_lemma_insert_step", "rbt_lemma.c", "h_insert_step", level="L", functions=["a_rbt_insert_adjust", "a_rbt_set_parents", "a_rbt_set_parent_color"], min_obl=5, unwind=9,
      replay={"prog": "trees_search.c", "sources": ["avl.c", "rbt.c"], "mode": "rbt", "timeout": 600},
      defines=["LEMMA_INSERT"], cbmc=["--object-bits", "10"], solver="cadical", timeout=1200, key=["insert_adjust step \\(done\\)", "insert_adjust step \\(continue\\)"]),
    U("rbt_lemma_unlink", "rbt_lemma.c", "h_unlink", level="L", functions=["a_rbt_remove", "a_rbt_new_child", "a_rbt_set_parent", "a_rbt_set_parent_color"], min_obl=5, unwind=9,
      replay={"prog": "trees_search.c", "sources": ["avl.c", "rbt.c"], "mode": "rbt", "timeout": 600}, bound="successor at most 2 levels down the left spine of the right child (subtree sizes unbounded)",
      defines=["LEMMA_UNLINK", "MAXDEPTH=2"], mem_gb=24, mem_est=14, cbmc=["--object-bits", "10"], solver="cadical", timeout=1200, key=["remove \\(no fix-up needed\\)", "fix-up loop's invariant"]),
    U("rbt_packed_accessors", "trees.c", "h_packed", level="P", functions=["a_rbt_set_parent_color", "a_rbt_set_parent", "a_rbt_set_black", "a_rbt_parent", "a_rbt_color", "a_rbt_init"], replay=RP, min_obl=3, defines=["TREE_RBT", "D=2"], cbmc=["--object-bits", "10"]),
]
# depth-4 shapes: one unit takes 3-5 min, all 365 of them ~3 h on 16 cores.  The registered thorough tier runs a deterministic
# sample (every 16th shape in enumeration order; a unit needs 5-8 GB, so only a few run at once: ~1 h); VERIF_FULL_D4=1 selects all of them.
import os
_d4 = [m for m in rbt_shapes(4) if m >= 0x80]  # depth <= 3 shapes are covered above
if not os.environ.get("VERIF_FULL_D4"):
    _d4 = _d4[::16]
for m in _d4:
    b = "red-black tree shape (colours symbolic) 0x%04x of depth 4 (<= 15 nodes), keys and positions symbolic" % m
    UNITS.append(T("rbt_insert_d4_s%04x" % m, "h_insert", 4, tiers=("thorough",), defs=["A_SIZE_POINTER=1", "SHAPE=0x%x" % m], functions=INS, bound=b, timeout=1200, mem_est=9))
    UNITS.append(T("rbt_remove_d4_s%04x" % m, "h_remove", 4, tiers=("thorough",), defs=["A_SIZE_POINTER=1", "SHAPE=0x%x" % m], functions=REM, bound=b, timeout=1200, mem_est=9))

# descent loops under loop contracts on an arbitrary heap (harness/search_lemma.c, -DTREE_RBT)
from descent import descent_units
UNITS += descent_units("rbt", "a_rbt_search", "a_rbt_insert", "a_rbt_insert_adjust", ["TREE_RBT"])
