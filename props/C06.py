from vdriver import U

PROPERTY = {
    "level": "other",
    "explanation": "bounded symbolic check of every public string operation from an ARBITRARY valid string object (capacity 0/8/16, length <= capacity, contents symbolic incl. NUL and bytes >= 0x80, terminated or not) against the abstract byte string via ghost witness bytes; source blocks exactly sized; allocator model may fail at every request; the C formatter is replaced by its ISO C contract over a ghost output",
    "trusted_base": ["cbmc 6.11.0 (SAT back end)", "byte-loop models of memcpy/memmove, cbmc's models of memcmp/memchr/strlen", "vsnprintf by its ISO C contract (ghost output F of length L)", "allocator model"],
    "assumptions": [
        "induction over the operation history (each operation verified from an arbitrary valid state) is a paper step",
        "capacity before the operation in {0, 8, 16}; appended blocks <= 9 bytes; formatter output <= 9 bytes (bounded stand-in, labelled B)",
        "str_big_* units: the loop-free operations (setm, catc, getc, catn/cat, getn, setn, exit) again with capacity, length and block length symbolic up to 1024 bytes (4096 in the thorough tier): one large array, an allocator stub that resizes in place (stale-pointer defects are left to the moving allocator of the small units), memcpy abstracted to the transfer of a ghost witness byte",
        "a_str_setm_ (unchecked primitive) is only asked for a capacity >= the current length; a_str_setn_ (unchecked) is not exercised",
        "trim with the isspace() form (n == 0) is not covered (isspace on a plain char >= 0x80 is outside ISO C's domain); explicit sets of 1-2 bytes are",
    ],
}
RP = {"native": True}
def S(name, fns, **kw):
    kw.setdefault("timeout", 300)
    kw.setdefault("replay", RP)
    kw.setdefault("bound", "capacity in {0,8,16} before the operation, appended data <= 9 bytes")
    return U("str_" + name, "str.c", "h_" + kw.pop("entry_name", name), level="B", functions=fns, min_obl=5, unwind=36, cbmc=["--object-bits", "10"], **kw)
UNITS = [
    S("setm", ["a_str_setm", "a_str_setm_"]),
    S("catc", ["a_str_catc", "a_str_catc_"]),
    S("catn", ["a_str_catn", "a_str_catn_"]),
    S("cats", ["a_str_cats", "a_str_cats_"]),
    S("cat", ["a_str_cat", "a_str_cat_"]),
    S("getc", ["a_str_getc", "a_str_getc_"]),
    S("getn", ["a_str_getn", "a_str_getn_"]),
    S("setn", ["a_str_setn"]),
    S("exit", ["a_str_exit"]),
    S("swap", ["a_str_swap"]),
    S("new_die", ["a_str_new", "a_str_die", "a_str_ctor", "a_str_dtor"]),
    S("rtrim", ["a_str_rtrim", "a_str_rtrim_"], defines=["TRIM_WHICH=0", "SMALLCAP=5"], entry_name="trim", solver="cadical", unwindset=[("a_str_rtrim_.0", 7), ("a_str_rtrim_.1", 7), ("a_str_ltrim_.0", 7), ("a_str_ltrim_.1", 7)], bound="capacity 0 or 8, length <= 5, trim set of 1-2 bytes"),
    S("ltrim", ["a_str_ltrim", "a_str_ltrim_"], defines=["TRIM_WHICH=1", "SMALLCAP=5"], entry_name="trim", solver="cadical", unwindset=[("a_str_rtrim_.0", 7), ("a_str_rtrim_.1", 7), ("a_str_ltrim_.0", 7), ("a_str_ltrim_.1", 7)], bound="capacity 0 or 8, length <= 5, trim set of 1-2 bytes"),
    S("trim", ["a_str_trim", "a_str_trim_"], defines=["TRIM_WHICH=2", "SMALLCAP=5"], entry_name="trim", solver="cadical", unwindset=[("a_str_rtrim_.0", 7), ("a_str_rtrim_.1", 7), ("a_str_ltrim_.0", 7), ("a_str_ltrim_.1", 7)], bound="capacity 0 or 8, length <= 5, trim set of 1-2 bytes"),
    S("cmp", ["a_str_cmp_", "a_str_cmp", "a_str_cmpn"]),
    S("catf", ["a_str_catv"], replay=None),
    S("utf_catc", ["a_utf_catc"]),
]
# large-capacity units: symbolic capacity/length up to 1024 (4096 thorough) bytes (one big array, in-place allocator stub, abstract memcpy with a ghost witness byte)
def G(name, fns, sv="cadical", **kw):
    return [U("str_big%s_%s" % (tag, name), "str_big.c", "h_big_" + name, level="B", functions=fns, min_obl=5, replay={"native": True, "sources": ["utf.c"]}, timeout=to, defines=["ARENA=%du" % cap], tiers=tiers, solver=sv,
              bound="capacity and length symbolic up to %d bytes, block lengths up to %d; allocator resizes in place" % (cap, cap), **kw)
            for tag, cap, to, tiers in (("", 1024, 300, ("quick", "thorough")), ("4k", 4096, 1800, ("thorough",)))]
UNITS += sum([
    G("setm", ["a_str_setm", "a_str_setm_"], key=["rounded up to the pointer size"]),
    G("catc", ["a_str_catc", "a_str_catc_"], key=["catc: NUL directly after"]),
    G("getc", ["a_str_getc", "a_str_getc_"], key=["getc: returns the last byte"]),
    G("catn", ["a_str_catn", "a_str_catn_", "a_str_cat", "a_str_cat_"], key=["appended byte for byte"]),
    G("catn0", ["a_str_catn", "a_str_catn_"], key=["catn of an empty block"]),
    G("getn", ["a_str_getn", "a_str_getn_"], sv=None, key=["handed out in order"]),  # MiniSat finishes (80 s), CaDiCaL does not
    G("setn_exit", ["a_str_setn", "a_str_exit"], key=["handed over NUL-terminated"]),
], [])
