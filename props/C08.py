from vdriver import U

PROPERTY = {
    "level": "other",
    "explanation": "structural clauses of LU / LDL^T / Cholesky on the real code for orders 1..3 (quick) / 1..5 (thorough), order and contents symbolic, "
                   "every matrix/vector an exactly sized malloc block: a_real_plu leaves a true permutation in p whose parity is the reported sign (also on failure), "
                   "reports failure for a zero pivot column and never records a pivot below the threshold; a_real_ldl / a_real_llt report failure for a vanishing / "
                   "non-positive pivot, success implies no pivot below the threshold and (finite input, given the assumed sqrt contract) a strictly positive Cholesky diagonal; "
                   "plu_P / plu_P_ build exactly the permutation matrix of p and its transpose; plu_L/U, ldl_L/D, llt_L, plu_apply are bit-exact extractions; sgndet sign logic; "
                   "for L = U = identity solve/inv/inv_ return exactly P b resp. P; the buffered and in-place inverses agree; memory safety and frame "
                   "(factor, permutation, right-hand side unchanged; strided in-place variants write only their column; ldl/llt never touch the strict upper triangle) of every routine of the three files",
    "trusted_base": ["cbmc 6.11.0 (bit-precise SAT back end, IEEE-754 float encoding, memory model of malloc'd blocks with pointer checks)",
                     "cvc5 (units inv_agree, duplicate_rows)",
                     "libm by assumed contracts (stubs in harness/linalg_fact.c): sqrt(NaN or x<0) is NaN, sqrt(+-0) = +-0, sqrt(x>0) > 0 and finite iff x finite; log returns an arbitrary value; fabs is cbmc's exact built-in",
                     "a_real = double (config/a.verif.h); a_real_swap of src/math.c is the compiled real code"],
    "assumptions": [
        "NOT APPLICABLE (DESIGN.md section 5, C08): reconstruction P A = L U / A = L D L^T / A = L L^T within the rounding bound, residual bounds of solve/inv, agreement of det / lndet / sgndet with one another, 'multipliers bounded by one': all are facts about chains of IEEE multiplications/divisions (a single division range fact is outside the solver's reach); the values returned by det/lndet are not asserted",
        "bounded: orders 1..3 (quick), 1..5 (thorough); literal n per library call, one guarded call per order",
        "'success => no recorded pivot is below the threshold' is stated as !(|pivot| < A_REAL_MIN) for arbitrary contents (NaN, infinities included) - exactly the clause 'a vanishing pivot is reported as failure'; the stronger 'every pivot is a NUMBER >= threshold' / 'Cholesky diagonal > 0' is stated for finite inputs in the *_strong units",
        "the *_strong3 units (order 3, all finite inputs) FAIL on the unchanged library (genuine defect, reported): the failure tests 'x < A_REAL_MIN' are false for NaN, and an intermediate overflow (division by a tiny pivot in ldl/llt, growth near DBL_MAX in plu) produces inf, then 0*inf or inf-inf = NaN, so success is reported with a NaN pivot; llt_strong3f states the Cholesky clause for order 3 under the extra hypothesis that the computed off-diagonal factor entries are finite (holds)",
        "exactly singular inputs are covered structurally: zero first column (plu), vanishing/non-positive first pivot (ldl/llt), order 1 exactly, diagonal matrices with the offending entry at any position (unit singular), 2 x 2 duplicated rows (unit duplicate_rows); not for arbitrary singular matrices (needs exact reasoning about the elimination arithmetic)",
        "plu_perm (L = U = identity) and inv_agree are the only value clauses of solve/inv: exact-domain and term-identity statements, no accuracy claim",
        "inv_agree is decided by cvc5 on integer-valued factor entries (any int) and carries no canary; its twin inv_agree_mem (same entry, SAT) carries the canary and the memory-safety obligations",
        "matrix class: ldl/llt read only the lower triangle, so 'symmetric' is no restriction of the harness inputs; positive definiteness is not assumed anywhere",
    ],
    "not_applicable_clauses": ["factors multiply back to the (row-permuted) input within the rounding bound", "residual bounds of solve / inverse", "det / lndet / sgndet agree with one another (values)", "multipliers bounded by one under partial pivoting"],
}
RP = {"native": True, "sources": ["a.c"]}
def F(name, fns, **kw):
    kw.setdefault("timeout", 300)
    kw.setdefault("unwind", 11)
    kw.setdefault("bound", "orders n in 1..3 (literal n per call; order and contents symbolic)")
    kw.setdefault("min_obl", 3)
    return U(name, "linalg_fact.c", "h_" + kw.pop("entry", name), functions=fns, replay=RP, level="B", **kw)
SOLVE = lambda k: ["a_real_%s_%s" % (k, f) for f in ("L", "lower", "lower_", "upper", "upper_", "solve", "inv", "inv_", "det", "lndet")]
NOAGREE = "^(?!.*agree: element for element)"
UNITS = [
    F("plu", ["a_real_plu"], key=["p is a permutation", "parity of the permutation", "zero first \\(pivot\\) column", "no recorded pivot is below"], cost=20),
    F("plu_strong2", ["a_real_plu"], entry="plu_strong", defines=["NHI=2"], key=["number of magnitude >= threshold"],
      bound="orders 1..2, finite entries"),
    F("plu_strong3", ["a_real_plu"], entry="plu_strong", defines=["NLO=3"], key=["number of magnitude >= threshold"], cost=30,
      bound="order 3, finite entries"),
    F("plu_P", ["a_real_plu_P", "a_real_plu_P_"], key=["one in column p\\[r\\]", "exactly the transpose"]),
    F("plu_solve", ["a_real_plu_L", "a_real_plu_U", "a_real_plu_apply", "a_real_plu_lower", "a_real_plu_lower_", "a_real_plu_upper", "a_real_plu_upper_", "a_real_plu_solve"],
      cbmc=["--slice-formula"], key=["only the addressed column", "factor matrix unchanged", "plu_apply"]),
    F("plu_inv", ["a_real_plu_inv", "a_real_plu_inv_"], cbmc=["--slice-formula"], key=["factor matrix unchanged"]),
    F("plu_perm", ["a_real_plu_solve", "a_real_plu_inv", "a_real_plu_inv_"], key=["exactly the permutation matrix P", "exactly P b"], cost=30,
      bound="orders 1..3; L = U = identity, any permutation p, integer right-hand side |b| <= 2^10"),
    F("plu_scalar", ["a_real_plu_det", "a_real_plu_lndet", "a_real_plu_sgndet"], cbmc=["--slice-formula"], key=["plu_sgndet"]),
    F("ldl", ["a_real_ldl"], key=["no pivot D\\[c\\] is below", "strict upper triangle is not written"], cost=20),
    F("ldl_strong2", ["a_real_ldl"], entry="ldl_strong", defines=["NHI=2"], key=["number of magnitude >= threshold"], bound="orders 1..2, finite entries"),
    F("ldl_strong3", ["a_real_ldl"], entry="ldl_strong", defines=["NLO=3"], key=["number of magnitude >= threshold"], bound="order 3, finite entries"),
    F("llt", ["a_real_llt"], key=["non-positive first pivot", "no pivot is zero or negative", "strict upper triangle is not written"], cost=20),
    F("llt_strong2", ["a_real_llt"], entry="llt_strong", defines=["NHI=2"], key=["strictly positive Cholesky diagonal"], bound="orders 1..2, finite entries"),
    F("llt_strong3", ["a_real_llt"], entry="llt_strong", defines=["NLO=3"], key=["strictly positive Cholesky diagonal"], bound="order 3, finite entries"),
    F("llt_strong3f", ["a_real_llt"], entry="llt_strong", defines=["NLO=3", "LLT_FINITE_L"], key=["strictly positive Cholesky diagonal"],
      bound="order 3, finite entries, runs whose computed off-diagonal factor entries are finite"),
    F("ldl_solve", SOLVE("ldl") + ["a_real_ldl_D", "a_real_ldl_sgndet"], cbmc=["--slice-formula"], key=["only the addressed column", "factor matrix unchanged", "ldl_sgndet"]),
    F("llt_solve", SOLVE("llt"), cbmc=["--slice-formula"], key=["only the addressed column", "factor matrix unchanged"]),
    F("inv_agree", ["a_real_plu_inv_", "a_real_ldl_inv_", "a_real_llt_inv_"], solver="cvc5", only=["agree: element for element"], no_canary=True, min_obl=3, timeout=600,
      key=["plu_inv and plu_inv_ agree", "ldl_inv and ldl_inv_ agree", "llt_inv and llt_inv_ agree"], bound="orders 1..3, integer-valued factor entries (any int)"),
    F("inv_agree_mem", ["a_real_plu_inv_", "a_real_ldl_inv_", "a_real_llt_inv_"], entry="inv_agree", only=[NOAGREE], cbmc=["--slice-formula"], bound="orders 1..3, integer-valued factor entries (any int)"),
    F("singular", ["a_real_plu", "a_real_ldl", "a_real_llt"], key=["zero pivot column at any step", "vanishing pivot at any step", "non-positive pivot at any step"], cost=40,
      bound="orders 1..3, diagonal matrices"),
    F("duplicate_rows", ["a_real_plu"], solver="cvc5", key=["duplicated rows"], bound="order 2, finite entries"),
]

# ---- thorough tier: orders up to 5; up to 4 for the units whose cost explodes (plu, singular at order 5: no answer in 30 min) ----
HEAVY = ("plu", "singular", "plu_perm", "ldl")
for u in list(UNITS):
    if u["name"].endswith(("_strong2", "_strong3", "_strong3f")) or u["name"] == "duplicate_rows":
        continue
    d = 4 if u["name"] in HEAVY else 5
    t = dict(u)
    name = t.pop("name"); t.pop("harness"); entry = t.pop("entry"); fns = t.pop("functions")
    t.pop("replay", None); t.pop("level", None)
    t.update(tiers=("thorough",), defines=list(u.get("defines") or []) + ["MAXD=%d" % d], unwind=d * d + 2, timeout=1800, cost=100,
             cbmc=list(u.get("cbmc") or []) + ["--object-bits", "12"], bound=u["bound"].replace("1..3", "1..%d" % d))
    UNITS.append(F("%s_d%d" % (name, d), fns, entry=entry[2:], **t))

UNITS.append(U("lndet_protocol", "linalg_lndet.c", "h_lndet", level="B", functions=["a_real_plu_lndet", "a_real_ldl_lndet", "a_real_llt_lndet"], min_obl=5,
               solver="cvc5", split=4, unwind=12, timeout=300, bound="orders 1..3", key=["lndet"]))
