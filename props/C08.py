from vdriver import U

PROPERTY = {
    "level": "other",
    "explanation": "draft",
    "trusted_base": [],
    "assumptions": [],
    "not_applicable_clauses": [],
}
RP = {"native": True, "sources": ["a.c"]}
B3 = "orders n in 1..3 (literal n per call; order and contents symbolic)"
def F(name, fns, **kw):
    kw.setdefault("timeout", 120)
    kw.setdefault("unwind", 11)
    kw.setdefault("bound", B3)
    return U(name, "linalg_fact.c", "h_" + kw.pop("entry", name), functions=fns, replay=RP, level="B", **kw)
UNITS = [
    F("plu", ["a_real_plu"]),
    F("plu_strong", ["a_real_plu"], defines=["NHI=2"]),
    F("plu_strong3", ["a_real_plu"], entry="plu_strong", defines=["NLO=3"]),
    F("plu_P", ["a_real_plu_P", "a_real_plu_P_"]),
    F("plu_solve", [], cbmc=["--slice-formula"]),
    F("plu_inv", [], cbmc=["--slice-formula"]),
    F("plu_perm", []),
    F("plu_scalar", [], cbmc=["--slice-formula"]),
    F("ldl", ["a_real_ldl"]),
    F("ldl_strong", ["a_real_ldl"], defines=["NHI=2"]),
    F("ldl_strong3", ["a_real_ldl"], entry="ldl_strong", defines=["NLO=3"]),
    F("llt", ["a_real_llt"]),
    F("llt_strong2", ["a_real_llt"], entry="llt_strong", defines=["NHI=2"]),
    F("llt_strong3", ["a_real_llt"], entry="llt_strong", defines=["NLO=3"]),
    F("llt_strong3f", ["a_real_llt"], entry="llt_strong", defines=["NLO=3", "LLT_FINITE_L"]),
    F("ldl_solve", [], cbmc=["--slice-formula"]),
    F("llt_solve", [], cbmc=["--slice-formula"]),
]
