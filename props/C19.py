from vdriver import U

PROPERTY = {
    "level": "proof",
    "explanation": "bit reversal, byte-order accessors, sqrt fast path and Newton start value, gcd termination, gcd == 0 only for two zeros, gcd <= max(a, b) and gcd(0, b) == b are loop-free or loop-contract proofs over all 2^32/2^64 inputs; lcm consults the full-width gcd of exactly its arguments (callee replaced by contract, all argument pairs); sqrt end-to-end (small arguments and the neighbourhoods of perfect squares 2^k +- j at every magnitude) and gcd/lcm divisibility are bounded stand-ins",
    "trusted_base": ["cbmc 6.11.0 (goto-cc C front end, DFCC loop-contract instrumentation, bit-precise SAT back end)",
                     "machine model LP64 little endian; __builtin_clz/__builtin_clzl as modelled by cbmc"],
    "assumptions": [
        "integer Newton step lemma (a >= floor(sqrt x) => floor((a + floor(x/a))/2) >= floor(sqrt x); exit x0 <= x1 => x0 = floor(sqrt x)) is NOT discharged (solver limit on symbolic division); only the loop-entry obligation (start value not below the root) and the fast path are proved for all inputs",
        "sqrt end-to-end and gcd/lcm divisibility/maximality/lcm*gcd only on the stated bounded domains (units of level B, not counted in obligations/discharged)",
        "ghost witness bit/byte index stands for a universal quantifier (instantiation is a paper step)",
    ],
    "not_applicable_clauses": [],
}

SQRT_INV32 = "x1 >= 1 && x1 <= 65536 && x / (x1 + 1) < x1 + 1"
SQRT_INV64 = "x1 >= 1 && x1 <= 4294967296 && x / (x1 + 1) < x1 + 1"

# gcd: "not both zero" and "bounded by the larger argument" are preserved by a, b := b, a % b (a % b < b <= max)
GCD_INV = "((a != 0 || b != 0) == (verif_gcd_nz != 0)) && a <= verif_gcd_max && b <= verif_gcd_max && (verif_gcd_nz != 0 || verif_gcd_max == 0) && (verif_gcd_a0z == 0 || (a == 0 && b == verif_gcd_b0) || (a == verif_gcd_b0 && b == 0))"
RP = {"prog": "c19.c", "sources": ["a.c", "math.c"]}

UNITS = [
    U("rev8", "bits.c", "h_rev8", replay=RP, functions=["a_u8_rev"], min_obl=2),
    U("rev16", "bits.c", "h_rev16", replay=RP, functions=["a_u16_rev"], min_obl=2),
    U("rev32", "bits.c", "h_rev32", replay=RP, functions=["a_u32_rev"], min_obl=2),
    U("rev64", "bits.c", "h_rev64", replay=RP, functions=["a_u64_rev"], min_obl=2),
    U("ord16", "bits.c", "h_ord16", replay=RP, functions=["a_u16_getl", "a_u16_getb", "a_u16_setl", "a_u16_setb"], min_obl=10),
    U("ord32", "bits.c", "h_ord32", replay=RP, functions=["a_u32_getl", "a_u32_getb", "a_u32_setl", "a_u32_setb"], min_obl=10),
    U("ord64", "bits.c", "h_ord64", replay=RP, functions=["a_u64_getl", "a_u64_getb", "a_u64_setl", "a_u64_setb"], min_obl=10),
    U("sqrt32_start", "isqrt.c", "h_sqrt32_start", replay=RP, functions=["a_u32_sqrt"], defines=["VERIF_SQRT_START"],
      key=["start value is not below the root", "fast path"], cbmc=["--undefined-shift-check"]),
    U("sqrt64_start", "isqrt.c", "h_sqrt64_start", replay=RP, functions=["a_u64_sqrt"], defines=["VERIF_SQRT_START"],
      key=["start value is not below the root", "fast path"], cbmc=["--undefined-shift-check"]),
    U("gcd32", "isqrt.c", "h_gcd32", replay=RP, functions=["a_u32_gcd"],
      loops={"a_u32_gcd": [{"loop_id": 0, "expect": "while (b)", "invariants": "1 == 1", "decreases": "b", "assigns": "a, b"}]},
      key=["loop_decreases|decreases"]),
    U("gcd32_range", "isqrt.c", "h_gcd32_range", replay=RP, functions=["a_u32_gcd"],
      loops={"a_u32_gcd": [{"loop_id": 0, "expect": "while (b)", "invariants": GCD_INV, "decreases": "b", "assigns": "a, b"}]},
      key=["zero only for two zeros", "larger argument"]),
    U("gcd64_range", "isqrt.c", "h_gcd64_range", replay=RP, functions=["a_u64_gcd"],
      loops={"a_u64_gcd": [{"loop_id": 0, "expect": "while (b)", "invariants": GCD_INV, "decreases": "b", "assigns": "a, b"}]},
      key=["zero only for two zeros", "larger argument"]),
    U("gcd64", "isqrt.c", "h_gcd64", replay=RP, functions=["a_u64_gcd"],
      loops={"a_u64_gcd": [{"loop_id": 0, "expect": "while (b)", "invariants": "1 == 1", "decreases": "b", "assigns": "a, b"}]},
      key=["loop_decreases|decreases"]),
    U("sqrt32_bounded", "isqrt.c", "h_sqrt32_bounded", replay=RP, level="B", bound="x < 2^16, loop unwound completely (20)", unwind=20,
      defines=["SQRT_BOUND=0x10000u"], functions=["a_u32_sqrt"]),
    U("sqrt64_bounded", "isqrt.c", "h_sqrt64_bounded", replay=RP, level="B", bound="x < 2^16, loop unwound completely (20)", unwind=20,
      defines=["SQRT_BOUND=0x10000u"], functions=["a_u64_sqrt"]),
    U("gcdlcm32_bounded", "isqrt.c", "h_gcdlcm32_bounded", replay=RP, level="B", bound="a, b < 64, Euclid loop unwound completely (12)", unwind=12,
      defines=["GCD_BOUND=64u"], functions=["a_u32_gcd", "a_u32_lcm"]),
    U("gcdlcm64_bounded", "isqrt.c", "h_gcdlcm64_bounded", replay=RP, level="B", bound="a, b < 64, Euclid loop unwound completely (12)", unwind=12,
      defines=["GCD_BOUND=64u"], functions=["a_u64_gcd", "a_u64_lcm"]),
    U("gcdlcm64_scaled", "isqrt.c", "h_gcdlcm64_scaled", replay=RP, level="B", bound="a = A*2^40, b = B*2^40, A, B < 32, Euclid loop unwound completely (10)", unwind=10,
      defines=["GCD_BOUND=32u", "GCD_SHIFT=40"], functions=["a_u64_gcd", "a_u64_lcm"]),
    U("lcm64_protocol", "isqrt.c", "h_lcm64_protocol", replay=RP, functions=["a_u64_lcm"], replace=["a_u64_gcd/contract_a_u64_gcd", "a_u32_gcd/contract_a_u32_gcd"],
      key=["consults the 64-bit gcd"], timeout=120),
    U("lcm32_protocol", "isqrt.c", "h_lcm32_protocol", replay=RP, functions=["a_u32_lcm"], replace=["a_u64_gcd/contract_a_u64_gcd", "a_u32_gcd/contract_a_u32_gcd"],
      key=["consults the gcd"], timeout=120),
    U("lcm32_scaled", "isqrt.c", "h_lcm32_scaled", replay=RP, level="B", bound="a = A*2^15, b = B*2^15, 0 < A, B < 32, Euclid loop unwound completely (12)", unwind=12,
      defines=["GCD_BOUND=32u"], functions=["a_u32_gcd", "a_u32_lcm"]),
    U("lcm64_wide", "isqrt.c", "h_lcm64_wide", replay=RP, level="B", bound="a = A*2^33, b = B, 0 < A, B < 32, Euclid loop unwound completely (12)", unwind=12,
      defines=["GCD_BOUND=32u"], functions=["a_u64_gcd", "a_u64_lcm"]),
    U("sqrt64_squares_above", "isqrt.c", "h_sqrt64_squares", replay=RP, level="B", bound="x in {n^2 - 1, n^2, n^2 + 2n} for n = 2^k + j, j < 4, all k", functions=["a_u64_sqrt"], defines=["BELOW=0"],
      unwindset=[("a_u64_sqrt.0", 12)], key=["the root of n\\^2 - 1"], timeout=900, solver="cadical", split=4),
    U("sqrt64_squares_below", "isqrt.c", "h_sqrt64_squares", replay=RP, level="B", bound="x in {n^2 - 1, n^2, n^2 + 2n} for n = 2^k - 1 - j, j < 4, all k", functions=["a_u64_sqrt"], defines=["BELOW=1"],
      unwindset=[("a_u64_sqrt.0", 12)], key=["the root of n\\^2 - 1"], timeout=900, solver="cadical", split=4),
    U("sqrt32_squares", "isqrt.c", "h_sqrt32_squares", replay=RP, level="B", bound="x in {n^2 - 1, n^2, n^2 + 2n} for n = 2^k + j and 2^k - 1 - j, j < 4, all k", functions=["a_u32_sqrt"],
      unwindset=[("a_u32_sqrt.0", 12)], key=["the root of n\\^2 - 1"], timeout=600),
]
