from vdriver import U

PROPERTY = {
    "level": "proof",
    "explanation": "tables == bitwise remainders for every polynomial (constant-bound loops unwound completely); table byte step == 8 bitwise division steps for all (poly, value, byte); bit-order reflection lemma; a_crcNN/a_hash_* == ghost left fold of the reference step over the whole buffer for every length <= 2^32 (DFCC function contract + loop contract, ghost fold run by the A_VERIF_HOOK sites)",
    "trusted_base": ["cbmc 6.11.0 (goto-cc, goto-instrument --dfcc, SAT back end)", "machine model LP64 little endian"],
    "assumptions": [
        "paper lemma (2 lines): table[k]==T(k) for all k, reference step with T == bitwise byte step, and result == fold of the reference step  =>  result == bit-by-bit division of the whole message",
        "paper lemma: a left fold over a concatenation is the fold of the second part started from the fold of the first => chunked update == one-shot for every split point; equal step functions => string form == length-delimited form",
        "paper lemma: induction over the bits lifts the single-bit reflection lemma to whole messages",
        "buffer length bounded by 2^32 bytes in the fold contracts (machine-integer range in requires)",
    ],
}

def fold_loop(fn, cast, cursor="p", base="pdata", cnt="nbyte", acc="value"):
    return {fn: [{"loop_id": 0, "expect": "for (; %s" % cnt,
                  "invariants": "%s == (%s)verif_g && %s == (const unsigned char *)%s + verif_i && verif_i + %s == __CPROVER_loop_entry(%s) && %s <= __CPROVER_loop_entry(%s)" % (acc, cast, cursor, base, cnt, cnt, cnt, cnt),
                  "assigns": "%s, %s, %s, verif_g, verif_i" % (acc, cnt, cursor),
                  "decreases": cnt}]}

def str_loop(fn):
    return {fn: [{"loop_id": 0, "expect": "for (; *str",
                  "invariants": "val == (unsigned int)verif_g && str == (const unsigned char *)str_ + verif_i && verif_i < verif_n",
                  "assigns": "val, str, verif_g, verif_i",
                  "decreases": "verif_n - verif_i"}]}

RP = {"prog": "c17.c", "sources": ["a.c", "crc.c", "hash.c"]}
UNITS = []
for w, t in ((8, "unsigned char"), (16, "unsigned short"), (32, "unsigned int"), (64, "unsigned long")):
    for o in "ml":
        fn = "a_crc%d%s_init" % (w, o)
        UNITS.append(U("tbl_crc%d%s" % (w, o), "crc.c", "h_tbl_" + fn, functions=[fn], unwind=66, min_obl=10, replay=RP,
                       loops={fn: [{"loop_id": 1, "contract_loop_id": 0, "expect": "for (c = 0;",
                                    "invariants": "c <= 256 && (!(verif_k < c) || (table[verif_k] == (%s)verif_T && verif_good != 0)) && (c == 0 || verif_poly == poly)" % t,
                                    "assigns": "c, __CPROVER_object_whole(table), verif_T, verif_good, verif_poly", "decreases": "256 - c"}]},
                       defines=["VERIF_TBL_HOOK"],
                       loop_count={fn: 2}, pre_unwind=[(fn + ".0", 9)],
                       key=["equalled the remainder", "invariant after step"], cost=30))
        UNITS.append(U("step_crc%d%s" % (w, o), "crc.c", "h_step_crc%d%s" % (w, o), functions=[], unwind=10, min_obl=1, replay=RP,
                       key=["table byte step"], cost=40 if w == 64 else 20))
    UNITS.append(U("refl%d" % w, "crc.c", "h_refl%d" % w, unwind=66, min_obl=1, key=["reflect"]))
UNITS.append(U("rev_agrees", "crc.c", "h_rev_agrees", unwind=66, functions=["a_u8_rev", "a_u16_rev", "a_u32_rev", "a_u64_rev"], min_obl=4, replay=RP))
for name, cast in (("a_crc8", "unsigned char"), ("a_crc16m", "unsigned short"), ("a_crc16l", "unsigned short"),
                   ("a_crc32m", "unsigned int"), ("a_crc32l", "unsigned int"), ("a_crc64m", "unsigned long"), ("a_crc64l", "unsigned long")):
    UNITS.append(U("fold_" + name, "crc.c", "h_fold_" + name, functions=[name], defines=["VERIF_FOLD"], replay=RP,
                   enforce=["%s/contract_%s" % (name, name)], loops=fold_loop(name, cast),
                   key=["loop_invariant_step|invariant after step", "postcondition|ensures"], min_obl=20))
for name in ("a_hash_bkdr_", "a_hash_sdbm_"):
    UNITS.append(U("fold_" + name, "crc.c", "h_fold_" + name, functions=[name], defines=["VERIF_FOLD"], replay=RP,
                   enforce=["%s/contract_%s" % (name, name)], loops=fold_loop(name, "unsigned int", "ptr", "ptr_", "siz", "val"),
                   key=["invariant after step", "postcondition|ensures"], min_obl=20))
for name in ("a_hash_bkdr", "a_hash_sdbm"):
    UNITS.append(U("fold_" + name, "crc.c", "h_fold_" + name, functions=[name], defines=["VERIF_FOLD"], replay=RP,
                   enforce=["%s/contract_%s" % (name, name)], loops=str_loop(name),
                   key=["invariant after step", "postcondition|ensures"], min_obl=20))
UNITS.append(U("hash_null", "crc.c", "h_hash_null", functions=["a_hash_bkdr", "a_hash_sdbm"], unwind=2, min_obl=1))
