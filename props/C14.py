from vdriver import U

PROPERTY = {
    "level": "proof",
    "explanation": "",
    "trusted_base": [],
    "assumptions": [],
    "not_applicable_clauses": [],
}
RP = {"native": True, "sources": ["a.c"]}
NOPTR = ["--bounds-check", "--pointer-check", "--pointer-primitive-check"]
def T(name, fns, **kw):
    """floating-point unit: the harness assertions, one cvc5 query each; the memory-safety obligations of the same harness are
    decided together by the SAT back end in the companion unit <name>_mem (they do not depend on float reasoning)"""
    kw.setdefault("solver", "cvc5"); kw.setdefault("split", 8); kw.setdefault("timeout", 120); kw.setdefault("drop_checks", NOPTR)
    return U(name, "traj.c", kw.pop("entry", "h_" + name), functions=fns, replay=RP, **kw)
def M(name, fns, **kw):
    return U(name + "_mem", "traj.c", "h_" + name, functions=fns, replay=RP, only=["pointer", "bounds", "VERIF_CANARY"], cbmc=["--slice-formula"], timeout=300, min_obl=10, **kw)
# the bisection loop of a_trajbell_gen: do { ... } while (ac > A_REAL_EPSILON); every path to the loop condition halves ac once,
# so the bit pattern of the (positive, finite) double ac strictly decreases: termination; nothing else is needed at the loop head -
# every clause of h_bell_gen is established inside the iteration that leaves the loop
BELL_LOOP = {"a_trajbell_gen": [{"loop_id": 0, "expect": "} while (ac > A_REAL_EPSILON);",
             "invariants": "ac >= 0 && ac <= 0x1p200",
             "assigns": "tj, _2tj, _tmp, temp, ac, am, ctx->taj, ctx->tdj, ctx->ta, ctx->td, ctx->am, ctx->dm, ctx->vm",
             "decreases": "*(const unsigned long *)&ac"}]}
UNITS = [
    U("trap_gen_degenerate", "traj.c", "h_trap_gen_degenerate", functions=["a_trajtrap_gen"], replay=RP, key=["refused with 0", "plans nothing"], min_obl=2, timeout=120),
    T("trap_gen", ["a_trajtrap_gen", "a_trajtrap_pos", "a_trajtrap_vel"], key=["stored clamped", "deceleration-only plan starts from"], min_obl=10),
    M("trap_gen", ["a_trajtrap_gen"]),
    T("lemma_add", [], min_obl=1),
    T("lemma_order", [], min_obl=1),
    T("trap_eval", ["a_trajtrap_pos", "a_trajtrap_vel", "a_trajtrap_acc"], key=["hold the initial state", "hold the final state", "cruise: velocity vc"], min_obl=10),
    M("trap_eval", ["a_trajtrap_pos", "a_trajtrap_vel", "a_trajtrap_acc"]),
    T("bell_hold", ["a_trajbell_pos", "a_trajbell_vel", "a_trajbell_acc", "a_trajbell_jer"], key=["holds the initial position", "holds the final position"], min_obl=11),
    M("bell_hold", ["a_trajbell_pos", "a_trajbell_vel", "a_trajbell_acc", "a_trajbell_jer"]),
    T("bell_jerk", ["a_trajbell_jer"], key=["jerk is \\+jm, -jm or 0"], min_obl=1),
    T("bell_eval", ["a_trajbell_pos", "a_trajbell_vel", "a_trajbell_acc", "a_trajbell_jer"], key=["segment 1", "segment 7"], min_obl=27),
    M("bell_eval", ["a_trajbell_pos", "a_trajbell_vel", "a_trajbell_acc", "a_trajbell_jer"]),
    T("bell_gen", ["a_trajbell_gen"], key=["stored clamped", "ta >= 2 taj", "invariant after step", "decreases"], min_obl=10, timeout=300, split=12, cost=100, loops=BELL_LOOP),
    M("bell_gen", ["a_trajbell_gen"], loops=BELL_LOOP, solver="cvc5"),
]
