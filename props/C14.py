from vdriver import U

PROPERTY = {
    "level": "proof",
    "explanation": "What is decided by comparisons, as Hoare triples over IEEE doubles on the real code (libm sqrt by an assumed contract). "
                   "Trapezoid generator: ac == de is refused with 0 and the context is left untouched (all doubles); for all requests of magnitude <= 2^200: p0, p1 stored, v0 stored clamped "
                   "to [-|vm|, |vm|], v1 stored clamped unless the plan recomputes it, 0 returned when the peak velocity squared is not positive, and the shape of each of the four plans "
                   "(cruise: vc = +-|vm| with the sign of travel, ta >= 0 and final-blend duration >= 0 for feasible requests; acceleration-only: ta == td == t, pd == p1, vc == recorded v1 with the sign of travel; "
                   "deceleration-only: ta == td == 0, pa == pd == p0, vc == clamped v0, pos(0) == p0, vel(0) == v0; triangular: ta == td, pd == pa, sign of vc), returned value == stored t. "
                   "Trapezoid evaluators, ANY context with 0 <= ta <= td <= t: x < 0 holds (p0, v0, 0), x >= t holds (p1, v1), and pos/vel/acc select the same phase for the same x. "
                   "Bell generator (bisection loop under a loop contract, so for every number of iterations): p0, p1 stored, v0, v1 stored clamped, jm stored as magnitude, returned value == stored t, "
                   "t == ta + tv + td, tv >= 0, and in a no-cruise plan with both phases ta >= 2 taj and td >= 2 tdj; the loop terminates (the bit pattern of ac strictly decreases). "
                   "Bell evaluators, ANY context with ordered segment boundaries: x < 0 holds (p0, v0, 0, 0), x >= t holds (p1, v1, 0), pos/vel/acc/jer select the same of the seven segments for the same x "
                   "and mirror consistently for reverse travel; the jerk is +jm, -jm or 0 for every context and time.",
    "trusted_base": ["cbmc 6.11.0 (IEEE-754 bit-precise float encoding, round-to-nearest); cvc5 for the float obligations, MiniSat for memory safety, loop termination and the enumerated companions",
                     "goto-instrument --dfcc loop contract on the bisection loop of a_trajbell_gen",
                     "libm sqrt by an assumed contract (stub in harness/traj.c): x >= 0 -> result >= 0, zero iff x is zero, finite iff x is finite; x < 0 or NaN -> NaN (in the two enumerated companion units additionally result^2 within relative 2^-51 of x)",
                     "a_real = double, LP64"],
    "assumptions": [
        "NOT APPLICABLE (nonlinear real arithmetic with sqrt, outside the back end's reach): speed/acceleration/jerk within their limits at every instant, continuity of position/velocity/acceleration across phase boundaries, the motion ending at (p1, recorded v1), and non-negativity of the phase durations that are quotients of computed quantities (only the sign facts listed in the explanation are decided)",
        "requests of magnitude <= 2^200 in the generator units (machine range; with infinities or NaN the peak-velocity formula is NaN and no plan shape is claimed)",
        "evaluator units take the ordering of the phase times / segment boundaries (computed with the evaluators' own expressions, e.g. t - td + tdj) as hypothesis: that a generated plan satisfies it is one of the not-applicable clauses; the transitive closure of the ordering is assumed alongside and proved as lemma_order",
        "trapezoid cruise plan: t >= td follows from the decided 'q = (v1 - vc)/de >= 0', the code line 't += td' (read, not mechanically checked: the equality of the two adders is not decided by cvc5 within 400 s) and lemma_add",
        "bell generator: 'stored velocities inside the limit' is the decided 'stored == clamp(v)' plus lemma_sat; the vacuity guard of bell_gen is decided on one concrete admissible request (unit bell_gen_reach, same harness), because finding a model of the unrestricted harness takes ~5 min",
        "two loop contracts for the same loop: invariant 'ac >= 0' for partial correctness (cvc5), 'ac >= 0 && ac <= 2^200' + decreases for termination (MiniSat; cvc5 does not decide the preservation of the upper bound inside this function within 300 s)",
        "trap_gen_small / bell_gen_small: the same clauses on small integer requests (bounded, level B); their purpose is fault detection - on a changed library the unbounded units need a counter-model of nonlinear float constraints, which cvc5 does not find within the time limit (they become undecided, not violated)",
        "at x == 0 with ta == 0 (resp. taj == 0) and at x == t the evaluators take the formula branch, whose value equals the boundary state only in real arithmetic: not claimed, except for the deceleration-only trapezoid plan",
    ],
    "not_applicable_clauses": ["speed, acceleration and jerk stay within their limits", "position/velocity/acceleration continuous across phase boundaries",
                               "motion ends at the final position with the recorded final velocity", "all phase durations non-negative (decided only where a comparison or one sign argument suffices)"],
}
RP = {"native": True, "sources": ["a.c"]}
NOPTR = ["--bounds-check", "--pointer-check", "--pointer-primitive-check"]
def T(name, fns, **kw):
    """floating-point unit: the harness assertions, one cvc5 query each; the memory-safety obligations of the same harness are
    decided together by the SAT back end in the companion unit <name>_mem (they do not depend on float reasoning)"""
    kw.setdefault("solver", "cvc5"); kw.setdefault("split", 8); kw.setdefault("timeout", 300); kw.setdefault("drop_checks", NOPTR)
    kw.setdefault("cbmc", ["--slice-formula"])   # one query per obligation: only the part of the equation it depends on
    return U(name, "traj.c", kw.pop("entry", "h_" + name), functions=fns, replay=RP, **kw)
def M(name, fns, **kw):
    return U(name + "_mem", "traj.c", "h_" + name, functions=fns, replay=RP, only=["pointer", "bounds", "VERIF_CANARY"], cbmc=["--slice-formula"], timeout=300, min_obl=10, **kw)
# the bisection loop of a_trajbell_gen: do { ... } while (ac > A_REAL_EPSILON);
# partial correctness (unit bell_gen, cvc5): nothing is needed at the loop head - every clause of h_bell_gen is established inside the
# iteration that leaves the loop; the frame (boundary data, jm, tv untouched by the loop) is the assigns clause.
# termination (unit bell_gen_term, SAT back end, same harness): every path to the loop condition halves ac once, so the bit pattern of the
# positive finite double ac strictly decreases.  (Two units because cvc5 does not decide 'ac <= 2^200 is preserved' inside this function
# within 300 s, while MiniSat needs 60 s for it but cannot find a model for the reachability canary.)
BELL_ASSIGNS = "tj, _2tj, _tmp, temp, ac, am, ctx->taj, ctx->tdj, ctx->ta, ctx->td, ctx->am, ctx->dm, ctx->vm"
BELL_LOOP = {"a_trajbell_gen": [{"loop_id": 0, "expect": "} while (ac > A_REAL_EPSILON);", "invariants": "ac >= 0", "assigns": BELL_ASSIGNS}]}
BELL_LOOP_T = {"a_trajbell_gen": [{"loop_id": 0, "expect": "} while (ac > A_REAL_EPSILON);", "invariants": "ac >= 0 && ac <= 0x1p200", "assigns": BELL_ASSIGNS,
                                   "decreases": "*(const unsigned long *)&ac"}]}
UNITS = [
    U("trap_gen_degenerate", "traj.c", "h_trap_gen_degenerate", functions=["a_trajtrap_gen"], replay=RP, key=["refused with 0", "plans nothing"], min_obl=2, timeout=120),
    T("trap_gen", ["a_trajtrap_gen", "a_trajtrap_pos", "a_trajtrap_vel"], key=["stored clamped", "deceleration-only plan starts from"], min_obl=10),
    M("trap_gen", ["a_trajtrap_gen"]),
    T("lemma_add", [], min_obl=1),
    T("lemma_order", [], min_obl=1),
    T("lemma_sat", [], min_obl=1),
    T("trap_eval", ["a_trajtrap_pos", "a_trajtrap_vel", "a_trajtrap_acc"], key=["hold the initial state", "hold the final state", "cruise: velocity vc"], min_obl=10),
    M("trap_eval", ["a_trajtrap_pos", "a_trajtrap_vel", "a_trajtrap_acc"]),
    T("bell_hold", ["a_trajbell_pos", "a_trajbell_vel", "a_trajbell_acc", "a_trajbell_jer"], key=["holds the initial position", "holds the final position"], min_obl=11),
    M("bell_hold", ["a_trajbell_pos", "a_trajbell_vel", "a_trajbell_acc", "a_trajbell_jer"]),
    T("bell_jerk", ["a_trajbell_jer"], key=["jerk is \\+jm, -jm or 0"], min_obl=1),
] + [
    T("bell_eval_seg%d" % k, ["a_trajbell_pos", "a_trajbell_vel", "a_trajbell_acc", "a_trajbell_jer"], entry="h_bell_eval", defines=["SEG=%d" % k], key=["segment %d" % k], min_obl=3, split=4)
    for k in range(1, 8)
] + [
    U("bell_eval_mem", "traj.c", "h_bell_eval", functions=["a_trajbell_pos", "a_trajbell_vel", "a_trajbell_acc", "a_trajbell_jer"], replay=RP, defines=["SEG=%d" % k],
      only=["pointer", "bounds", "VERIF_CANARY"], cbmc=["--slice-formula"], timeout=300, min_obl=10) for k in (4,)
] + [
    T("bell_gen", ["a_trajbell_gen"], key=["stored clamped", "ta >= 2 taj", "invariant after step"], min_obl=10, timeout=300, split=12, cost=100, loops=BELL_LOOP,
      no_canary=True, defines=["BELL_NOCANARY"]),
    T("bell_gen_reach", ["a_trajbell_gen"], entry="h_bell_gen", defines=["BELL_REACH"], loops=BELL_LOOP, only=["VERIF_CANARY"], split=None, timeout=300, min_obl=0),
    U("bell_gen_term", "traj.c", "h_bell_gen", functions=["a_trajbell_gen"], replay=RP, loops=BELL_LOOP_T, only=["loop_invariant", "loop_decreases"], no_canary=True,
      cbmc=["--slice-formula"], timeout=600, min_obl=4, key=["decreases", "invariant after step"], cost=90),
    U("bell_gen_mem", "traj.c", "h_bell_gen", functions=["a_trajbell_gen"], replay=RP, loops=BELL_LOOP, only=["pointer", "bounds"], no_canary=True,
      cbmc=["--slice-formula"], timeout=600, min_obl=10),
    # bounded companions: same clauses, small integer requests (a violated clause is reported with a concrete request within seconds)
    T("trap_gen_small", ["a_trajtrap_gen"], level="B", bound="integer requests |x| <= 2 (sqrt contract tightened to relative 2^-51)", defines=["DS=2", "SQRT_TIGHT"], solver=None, split=12, key=["deceleration-only plan starts from"], min_obl=10, timeout=300),
    T("bell_gen_small", ["a_trajbell_gen"], level="B", bound="integer requests: limits jm, am, vm in 1..3, |p0| <= 1, |p1| <= 2, |v0|, |v1| <= 3; bisection loop unwound 3 iterations (longer searches cut); sqrt contract tightened to relative 2^-51", defines=["DS=3", "SQRT_TIGHT"], solver=None, split=12,
      unwindset=[("a_trajbell_gen.0", 3)], key=["td >= 2 tdj"], min_obl=8, timeout=300),
]
