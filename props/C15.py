from vdriver import U

PROPERTY = {
    "level": "proof",
    "explanation": "Hoare triples over IEEE doubles on the real code. [P, all doubles] a_trajpoly3/5/7_gen store c[0] = p0, c[1] = v0, c[2] = a0/2 for every argument; "
                   "pos/vel/acc/jer at x = 0 return c[0], c[1], 2 c[2], 6 c[3] for every context whose coefficients have magnitude <= 2^1000, and, end to end after gen, "
                   "the requested initial position/velocity/acceleration exactly (jerk: on the exact domain); pos/vel/acc/jer(x) are for every context and every x the "
                   "a_poly_eval_ value of exactly the vectors delivered by the c0/c1/c2/c3 accessors; c0 is a bit-exact copy. "
                   "[B, exact domain] the accessor vectors are the successive derivative coefficient vectors (k+1)c[k+1], (k+1)(k+2)c[k+2], (k+1)(k+2)(k+3)c[k+3]; "
                   "end-time boundary conditions for ts in {1,2,4} and small integer data as a guard on the closed-form constants. "
                   "[B, <= 9 coefficients] a_poly_eval_/a_poly_evar_ (and the length forms, incl. n = 0) equal the Horner value written from the header's recurrence, "
                   "eval(a) == evar(swap a) and evar(a) == eval(swap a) with the library's own a_poly_swap; [B, n <= 16] a_poly_swap/a_poly_swap_ reverse bit-exactly "
                   "(element i <-> n-1-i), are involutions and touch nothing outside the exactly sized array; a_poly_swap's guard/call protocol for every n.",
    "trusted_base": ["cbmc 6.11.0 (IEEE-754 bit-precise float encoding, round-to-nearest); cvc5 back end for the floating-point units, MiniSat for the memory/enumeration units",
                     "a_real = double, LP64 little endian", "memcpy model of cbmc (a_copy in the c0 accessors)"],
    "assumptions": [
        "end-time boundary conditions 'to within rounding error proportional to the size of the boundary data' for all durations and data: NOT APPLICABLE (needs an error analysis over real arithmetic). Decided instead on the exact domain ts in {1,2,4}, integer data |x| <= 4 (cubic) / <= 1 (quintic, septic; jerks 3x; |x| <= 2 quintic and ts = 1, 4 septic in the thorough tier), where every intermediate is exact (checked natively on 3e6 samples) and the end-time values equal the requested ones exactly: bounded-domain units, a guard on the closed-form constants only",
        "'derivative vectors are the exact successive derivatives' is decided on the exact domain (coefficients m/16, |m| <= 2^12); for arbitrary doubles c*6*5, c*7*6, c*5*4*3, c*6*5*4, c*7*6*5 differ from the single product by an ulp, which the property's 'exact' cannot mean. That vel/acc/jer evaluate exactly the accessor vectors is proved for all doubles.",
        "time-zero clauses need coefficients of magnitude <= 2^1000 (hypothesis on the generator's OUTPUT): Horner at x = 0 multiplies every partial value by 0 and inf * 0 = NaN, so when the closed forms overflow (e.g. cubic, ts = 1e-120, p 0 -> 1) pos(0) is NaN although all inputs are finite; also the initial acceleration must not be an odd subnormal (a0 * 0.5 * 2 == a0)",
        "initial jerk: c[3] = j0 * (1.0/6) with the ROUNDED constant, so c[3] == j0/6 and jer(0) == j0 only hold on the exact domain j0 = 3k/64; for general j0 the library is off by an ulp (j0 = 7: jer(0) = 6.9999999999999991), contradicting 'exactly at time zero' (reported as a finding, not encoded as an obligation)",
        "polynomial evaluation is decided for at most 9 coefficients (degree <= 8); the Horner value is written with the operand order of the header's recurrence S*x + a (IEEE multiplication is commutative, so this is no restriction on the value)",
        "order reversal of a_poly_swap_ is decided for n <= 16 only (every length on its own exactly sized array). An unbounded proof under a DFCC loop contract was attempted: invariant base and step are discharged, the post-loop obligation is not (the contract havocs the moving pointers and every dereference then splits over all objects: no answer in 250 s / 17 GB). poly_swap_n (guard n > 1, call protocol, all n <= 2^40) replaces a_poly_swap_ by that reversal contract and is therefore labelled B; in it elements are compared as values (witness elements not NaN); NaN payloads are covered bit-exactly in poly_swap_small",
        "ghost witness index stands for a universal quantifier in poly_swap_n",
    ],
    "not_applicable_clauses": ["final values at the end time to within rounding error proportional to the size of the boundary data (general durations/data)",
                               "all polynomial degrees (decided: <= 8 for evaluation, <= 15 for reversal)"],
    "parameters_concretised": ["number of coefficients 1..9 (evaluation), 0..16 (reversal)", "ts in {1,2,4} for the end-time identities"],
}
RP = {"native": True, "sources": ["a.c"]}
DEG = "polynomials of at most 9 coefficients (degree <= 8), every length 1..9 on an exactly sized array, loops unwound completely"
UNITS = [
    U("poly_eval", "poly.c", "h_poly_eval", functions=["a_poly_eval_", "a_poly_eval"], level="B", bound=DEG, solver="cvc5", split=4, unwind=11,
      timeout=300, replay=RP, min_obl=19, key=["eval_: equals the Horner value"]),
    U("poly_evar", "poly.c", "h_poly_evar", functions=["a_poly_evar_", "a_poly_evar"], level="B", bound=DEG, solver="cvc5", split=4, unwind=11,
      timeout=300, replay=RP, min_obl=19, key=["evar_: equals the Horner value"]),
    U("poly_both", "poly.c", "h_poly_both", functions=["a_poly_eval", "a_poly_evar", "a_poly_swap"], level="B", bound=DEG, solver="cvc5", split=8, unwind=11,
      timeout=300, replay=RP, min_obl=18, key=["eval\\(a\\) == evar\\(swap a\\)"], cost=100),
    U("poly_swap_small", "poly.c", "h_poly_swap_small", functions=["a_poly_swap", "a_poly_swap_"], level="B", bound="vectors of 0..16 elements, every length on an exactly sized array, loops unwound completely",
      unwind=18, timeout=300, replay=RP, min_obl=20, key=["becomes the former element", "reversing twice"]),
    U("poly_swap_n", "poly.c", "h_poly_swap_n", functions=["a_poly_swap"], replace=["a_poly_swap_/contract_a_poly_swap_"], timeout=300, replay=RP,
      level="B", bound="every n <= 2^40, relative to the reversal contract of a_poly_swap_, which is itself decided for n <= 16 only (poly_swap_small)",
      key=["element w becomes"], min_obl=4),
    ]
RT = {"native": True, "sources": ["a.c"]}
def T(name, fns, **kw):
    kw.setdefault("solver", "cvc5"); kw.setdefault("split", 4); kw.setdefault("timeout", 120); kw.setdefault("unwind", 10)
    return U(name, "trajpoly.c", kw.pop("entry", "h_" + name), functions=fns, replay=RT, **kw)
for n in (3, 5, 7):
    P = "a_trajpoly%d_" % n
    UNITS += [
        T("tp%d_gen" % n, [P + "gen"], key=["c\\[0\\] is the initial position"], min_obl=2),
        T("tp%d_zero" % n, [P + "pos", P + "vel", P + "acc"], key=["pos\\(0\\) is c\\[0\\]"], min_obl=3),
        T("tp%d_init" % n, [P + "gen", P + "pos", P + "vel", P + "acc"], key=["at time zero"], min_obl=2, timeout=400, split=8, cost=80),
        T("trajpoly%d_proto" % n, [P + "pos", P + "vel", P + "acc", P + "c1", P + "c2"], key=["Horner value of the c1"], min_obl=3),
        T("trajpoly%d_c0" % n, [P + "c0"], solver=None, split=None, key=["c0 accessor copies"], min_obl=1),
        T("trajpoly%d_deriv" % n, [P + "c1", P + "c2"], level="B", bound="exact domain: coefficients m/16, |m| <= 2^12", key=["first derivative"], min_obl=2),
    ]
UNITS.append(T("tp7_gen_jerk", ["a_trajpoly7_gen"], level="B", bound="exact domain: j0 = 3k/64, |k| <= 2^12 (all other arguments arbitrary)", key=["sixth of the initial jerk"], min_obl=2))
# end-time identities: the back end has to enumerate the exact domain (SAT, ~7 ms per combination), so the domain is
# 9^4 (cubic), 3^6 (quintic; 5^6 in the thorough tier), 3^8 (septic; ts = 1 and 4 in the thorough tier)
def FIN(n, ts, dm, **kw):
    return T(("tp%d_final_ts%d%s" % (n, ts, kw.pop("tag", ""))).replace("ts0_", "ts"), ["a_trajpoly%d_gen" % n, "a_trajpoly%d_pos" % n, "a_trajpoly%d_vel" % n, "a_trajpoly%d_acc" % n] + (["a_trajpoly7_jer"] if n == 7 else []),
             entry="h_tp%d_final" % n, level="B", solver=None, split=(8 if n == 7 else 4),
             bound="exact domain: ts = %d, integer boundary data |x| <= %d%s" % (ts, dm, " (jerks 3x)" if n == 7 else ""),
             defines=["TS=%d" % ts, "DM=%d" % dm], key=["at the end time"], min_obl=2, **kw)
# durations many orders of magnitude away from 1 (property: "for positive durations over many orders of magnitude"): ts = 2^-60 / 2^60
# with the boundary derivatives scaled by powers of 1/ts, which keeps the domain exact (round-3 seed C15-4: a duration guard with a wrong threshold)
def FINS(n, e, dm, **kw):
    u = FIN(n, 0, dm, tag="_2e%+d" % e, **kw)
    u.defines = ["TS=0x1p%d" % e, "DM=%d" % dm, "TSCALE"]
    u.bound = "exact domain: ts = 2^%d, integer boundary data |x| <= %d scaled by powers of 1/ts%s" % (e, dm, " (jerks 3x)" if n == 7 else "")
    return u
for e in (-60, 60):
    UNITS.append(FINS(3, e, 4, timeout=300))
    UNITS.append(FINS(5, e, 1, timeout=300))
    UNITS.append(FINS(7, e, 1, timeout=900, cost=200, **({} if e == -60 else {"tiers": ("thorough",)})))
for ts in (1, 2, 4):
    UNITS.append(FIN(3, ts, 4, timeout=300))
    UNITS.append(FIN(5, ts, 1, timeout=300))
    UNITS.append(FIN(5, ts, 2, timeout=1800, tiers=("thorough",), tag="_wide"))
    UNITS.append(FIN(7, ts, 1, timeout=900, cost=200, **({} if ts == 2 else {"tiers": ("thorough",)})))
