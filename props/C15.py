from vdriver import U

PROPERTY = {
    "level": "proof",
    "explanation": "",
    "trusted_base": ["cbmc 6.11.0 (IEEE-754 bit-precise float encoding, round-to-nearest) + cvc5 for the floating-point units", "a_real = double, LP64"],
    "assumptions": [],
    "not_applicable_clauses": [],
}
RP = {"native": True, "sources": ["a.c"]}
DEG = "polynomials of at most 9 coefficients (degree <= 8), every length 1..9 on an exactly sized array, loops unwound completely"
UNITS = [
    U("poly_eval", "poly.c", "h_poly_eval", functions=["a_poly_eval_", "a_poly_eval"], level="B", bound=DEG, solver="cvc5", split=4, unwind=11,
      timeout=300, replay=RP, min_obl=19, key=["eval_: equals the Horner value"]),
    U("poly_evar", "poly.c", "h_poly_evar", functions=["a_poly_evar_", "a_poly_evar"], level="B", bound=DEG, solver="cvc5", split=4, unwind=11,
      timeout=300, replay=RP, min_obl=19, key=["evar_: equals the Horner value"]),
    U("poly_both", "poly.c", "h_poly_both", functions=["a_poly_eval", "a_poly_evar", "a_poly_swap"], level="B", bound=DEG, solver="cvc5", split=4, unwind=11,
      timeout=300, replay=RP, min_obl=18, key=["eval\\(a\\) == evar\\(swap a\\)"]),
    U("poly_swap_small", "poly.c", "h_poly_swap_small", functions=["a_poly_swap", "a_poly_swap_"], level="B", bound="vectors of 0..16 elements, every length on an exactly sized array, loops unwound completely",
      unwind=18, timeout=300, replay=RP, min_obl=20, key=["becomes the former element", "reversing twice"]),
    U("poly_swap_n", "poly.c", "h_poly_swap_n", functions=["a_poly_swap"], replace=["a_poly_swap_/contract_a_poly_swap_"], timeout=300, replay=RP,
      level="B", bound="every n <= 2^40, relative to the reversal contract of a_poly_swap_, which is itself decided for n <= 16 only (poly_swap_small)",
      key=["element w becomes"], min_obl=4),
    ]
RT = {"native": True, "sources": ["a.c"]}
def T(name, fns, **kw):
    kw.setdefault("solver", "cvc5"); kw.setdefault("split", 4); kw.setdefault("timeout", 120); kw.setdefault("unwind", 10)
    return U(name, "trajpoly.c", kw.pop("entry", "h_" + name), functions=fns, replay=RT, **kw)
for n in (3, 5, 7):
    P = "a_trajpoly%d_" % n
    UNITS += [
        T("tp%d_gen" % n, [P + "gen"], key=["c\\[0\\] is the initial position"], min_obl=2),
        T("tp%d_zero" % n, [P + "pos", P + "vel", P + "acc"], key=["pos\\(0\\) is c\\[0\\]"], min_obl=3),
        T("tp%d_init" % n, [P + "gen", P + "pos", P + "vel", P + "acc"], key=["at time zero"], min_obl=2, timeout=400, split=8, cost=80),
        T("trajpoly%d_proto" % n, [P + "pos", P + "vel", P + "acc", P + "c1", P + "c2"], key=["Horner value of the c1"], min_obl=3),
        T("trajpoly%d_c0" % n, [P + "c0"], solver=None, split=None, key=["c0 accessor copies"], min_obl=1),
        T("trajpoly%d_deriv" % n, [P + "c1", P + "c2"], level="B", bound="exact domain: coefficients m/16, |m| <= 2^12", key=["first derivative"], min_obl=2),
    ]
UNITS.append(T("tp7_gen_jerk", ["a_trajpoly7_gen"], level="B", bound="exact domain: j0 = 3k/64, |k| <= 2^12 (all other arguments arbitrary)", key=["sixth of the initial jerk"], min_obl=2))
for n in (3, 5, 7):
    for ts in (1, 2, 4):
        UNITS.append(T("tp%d_final_ts%d" % (n, ts), ["a_trajpoly%d_gen" % n, "a_trajpoly%d_pos" % n, "a_trajpoly%d_vel" % n, "a_trajpoly%d_acc" % n], entry="h_tp%d_final" % n,
                       level="B", bound="exact domain: ts = %d, integer boundary data |x| <= 4 (jerks 3x)" % ts, defines=["TS=%d" % ts, "DM=4"], key=["at the end time"], min_obl=2))
