from vdriver import U

PROPERTY = {
    "level": "other",
    "explanation": "bounded checks of the real kernels of src/linalg.c for every shape with all dimensions in 1..3 (quick) / 1..5 (thorough), "
                   "shape and contents symbolic: T1/T2 bit-exact, mutually inverse and agreeing on square matrices; eye/tri/diag/triL/triU families "
                   "produce bit for bit the specified pattern (+0, 1, or the input element) for m < n, m = n, m > n; the four products equal "
                   "0 + sum_k op(X)(r,k)*op(Y)(k,c) accumulated in increasing k on the exact integer domain; every operand and result is an exactly "
                   "sized malloc block (any access outside is a failed pointer check) and every input is compared with its snapshot (frame)",
    "trusted_base": ["cbmc 6.11.0 (bit-precise SAT back end; memory model of malloc'd blocks with pointer checks)",
                     "cvc5 (SMT back end of the four *_val units: the product equality is an identity of IEEE terms, decided by congruence)",
                     "a_real = double (config/a.verif.h)"],
    "assumptions": [
        "bounded: dimensions 1..3 in the quick tier, 1..5 in the thorough tier; no unbounded (all dimensions) proof is claimed: the pointer-walking loops would need invariants with symbolic products E - E0 = r*n + c",
        "the shape is symbolic but each kernel call receives literal dimensions (one guarded call per shape of the bound); symbolic dimensions inside the kernels were tried and cost minutes per kernel",
        "product equality is stated on the exact domain (integer entries |x| <= 2^10: every product and partial sum is exact, so the value does not depend on the accumulation order) and the expected sum is written in increasing inner index, which is the order of all four kernels; a re-associated but correct kernel would make the *_val units undecided (solver timeout), not violated",
        "the *_val units check only the value clause with cvc5 and carry no canary of their own; their twin *_mem units (same harness entry, same preconditions, SAT back end) carry the reachability canary, all memory-safety obligations and the operand frames",
        "a_real_mulTT: the second operand gets c_r - 1 cells of slack because the routine forms (never dereferences) a pointer up to c_r - 1 elements beyond one-past-the-end of Y; 'no read outside Y' is therefore claimed for mulTT only in the form 'the slack cells do not influence the result and are not written'",
        "zero patterns are +0.0 and ones are 1.0 bit for bit; copied elements are compared as bit patterns (NaN payloads and signed zeros included)",
    ],
    "not_applicable_clauses": [],
}
RP = {"native": True, "sources": []}
B3 = "all shapes with every dimension in 1..3 (literal dimensions per call, shape and contents symbolic)"
def L(name, fns, **kw):
    kw.setdefault("timeout", 120)
    kw.setdefault("unwind", 14)
    kw.setdefault("bound", B3)
    return U(name, "linalg.c", "h_" + kw.pop("entry", name), functions=fns, replay=RP, level="B", **kw)
UNITS = [
    L("T1", ["a_real_T1"], key=["bit for bit element \\(c,r\\)"]),
    L("T2", ["a_real_T2"], key=["bit for bit element \\(r,c\\)", "transposing the transpose"]),
    L("T1_T2", ["a_real_T1", "a_real_T2"], key=["T1 undoes T2"]),
    L("eye1", ["a_real_eye1"], key=["one on the diagonal"]),
    L("eye2", ["a_real_eye2"], key=["one on the diagonal"]),
    L("tri1", ["a_real_tri1"], key=["one on and below"]),
    L("tri2", ["a_real_tri2"], key=["one on and below"]),
    L("diag", ["a_real_diag"], key=["zero off the diagonal"]),
    L("diag1", ["a_real_diag1"], key=["diagonal element"]),
    L("diag2", ["a_real_diag2"], key=["diagonal element"]),
    L("triL", ["a_real_triL"], key=["inside the triangle"]),
    L("triL1", ["a_real_triL1"], key=["inside the triangle", "forced to one"]),
    L("triL2", ["a_real_triL2"], key=["inside the triangle"]),
    L("triU", ["a_real_triU"], key=["inside the triangle"]),
    L("triU1", ["a_real_triU1"], key=["inside the triangle", "forced to one"]),
    L("triU2", ["a_real_triU2"], key=["inside the triangle"]),
]
SUM = "sum over the inner index"
for fn in ("mulmm", "mulTm", "mulmT", "mulTT"):
    # memory safety, frame of the operands, reachability: SAT back end, every obligation except the value clause
    UNITS.append(L(fn + "_mem", ["a_real_" + fn], entry=fn, only=["^(?!.*%s)" % SUM], cbmc=["--slice-formula"], min_obl=20,
                   key=["operand unchanged", "dereference failure"]))
    # value clause: cvc5 (the SAT back end cannot identify two copies of an IEEE sum of products); same harness, same preconditions
    UNITS.append(L(fn + "_val", ["a_real_" + fn], entry=fn, solver="cvc5", only=[SUM], no_canary=True, key=[SUM], timeout=300,
                   bound="row, col, inner dimension in 1..3; exact domain: integer entries |x| <= 2^10"))

# ---- thorough tier: the same units for every dimension in 1..5 ----
B5 = "all shapes with every dimension in 1..5 (literal dimensions per call, shape and contents symbolic)"
for u in list(UNITS):
    t = dict(u)
    name = t.pop("name"); t.pop("harness"); entry = t.pop("entry")
    t.update(tiers=("thorough",), defines=list(u.get("defines") or []) + ["MAXD=5"], unwind=33, timeout=1800, cost=100, cbmc=list(u.get("cbmc") or []) + ["--object-bits", "12"],
             bound=u["bound"].replace("1..3", "1..5"))
    t.pop("replay", None); t.pop("level", None); fns = t.pop("functions")
    UNITS.append(L(name + "_d5", fns, entry=entry[2:], **t))
