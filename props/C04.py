from vdriver import U

PROPERTY = {
    "level": "proof",
    "explanation": "every public operation of the vector and the fixed buffer on an arbitrary valid container (capacity <= 4, count <= capacity, contents symbolic, element size concrete) with indices and counts over the FULL range of the index type, compared with the abstract sequence through a ghost witness element; allocator model may fail at every request; capacity growth (a_vec_setm) for all capacities up to 2^40 by a DFCC contract with loop contract",
    "trusted_base": ["cbmc 6.11.0 (SAT back end), cbmc's models of memcpy/memmove/malloc/free", "allocator model verif_alloc (realloc/malloc/free protocol with nondeterministic failure)",
                     "qsort/bsearch are libc (a_vec_sort / a_vec_search only forward their arguments; not checked)"],
    "assumptions": [
        "induction over the operation history (each operation is verified from an arbitrary valid state) is a paper step",
        "contents clauses are decided for capacities <= 4 before the operation and element sizes in a stated finite set (the code never branches on the element size); these units are level B; indices and counts are unbounded",
        "bulk store: the source array really holds the stated number of elements (<= 2 in the bounded units)",
        "sorted-insert variants: comparison callback compares the first byte of the elements; precondition 'already sorted' as documented",
    ],
    "parameters_concretised": ["element size 2 (quick) / {1,2,3,8} (thorough)", "capacity before the operation <= 3 (quick) / <= 4 (thorough)"],
}
RP = {"native": True}
OPS = ["insert", "push_fore", "push_back", "remove", "pull_fore", "pull_back", "store", "erase", "setn", "setz", "access",
       "sort_fore", "sort_back", "push_sort", "new_die"]
VEC_ONLY = ["swap", "ctor_dtor"]
FN = {"access": ["at", "of", "top", "end"], "new_die": ["new", "die"], "ctor_dtor": ["ctor", "dtor"]}
UNITS = []
def add(kind, siz, tiers, maxm=4):
    for op in OPS + (VEC_ONLY if kind == "vec" else []):
        fns = ["a_%s_%s" % (kind, f) for f in FN.get(op, [op])]
        if kind == "buf" and op == "new_die":
            fns.append("a_buf_setm")
        UNITS.append(U("%s%dm%d_%s" % (kind, siz, maxm, op), "seq.c", "h_" + op, level="B", functions=fns, replay=RP, tiers=tiers,
                       bound=("capacity <= %d" if kind == "vec" else "capacity 1 or %d") % maxm + " before the operation, element size %d; indices/counts unbounded" % siz,
                       defines=["SIZ=%d" % siz, "MAXM=%d" % maxm] + (["SEQ_BUF"] if kind == "buf" else []),
                       unwind=max(24 + maxm * siz, 8 * siz) + 3, timeout=600,
                       unwindset=[("a_swap.0", 4 * siz + 2), ("a_vec_setm.0", 8), ("a_vec_setn.0", 8), ("a_buf_setn.0", 8), ("a_vec_sort_fore.0", 5), ("a_vec_sort_fore.1", 6), ("a_vec_sort_back.0", 5), ("a_vec_sort_back.1", 6), ("a_vec_push_sort.0", 5), ("a_buf_sort_fore.0", 5), ("a_buf_sort_fore.1", 6), ("a_buf_sort_back.0", 5), ("a_buf_sort_back.1", 6), ("a_buf_push_sort.0", 5), ("a_vec_store.0", 4), ("a_buf_store.0", 4), ("a_vec_erase.0", 6), ("a_buf_erase.0", 6)], min_obl=5, cbmc=["--object-bits", "10"], cost=30))
add("vec", 2, ("quick", "thorough"), 3)
add("buf", 2, ("quick", "thorough"), 3)
for z, m in ((3, 4), (1, 4), (8, 3)):
    add("vec", z, ("thorough",), m)
    add("buf", z, ("thorough",), m)

# ---- unbounded units (level P): capacity growth for every capacity <= 2^40 (loop contract incl. termination), accessors for
# every count/capacity/index; element size concretised (24). An unbounded a_swap proof (loop contract + ghost witness byte over
# blocks of symbolic size) ran out of memory (12 GB) and is not part of the check; a_swap is covered by the bounded units.
UNITS += [
    U("p_setm_growth", "seq_p.c", "h_setm_growth", level="P", functions=["a_vec_setm"], min_obl=10, timeout=300, replay=RP, defines=["PSIZ=24"], solver="cadical",
      loops={"a_vec_setm": [{"loop_id": 0, "expect": "while (m < mem)", "invariants": "m < mem && mem <= 1099511627776ul", "assigns": "m", "decreases": "mem - m"}]},
      key=["new capacity covers the request"]),
    U("p_accessors", "seq_p.c", "h_accessors", level="P", functions=["a_vec_at", "a_vec_of", "a_vec_top", "a_vec_end"], min_obl=4, solver="cadical", defines=["PSIZ=24"], timeout=300, replay=RP),
]
