from vdriver import U

PROPERTY = {
    "level": "proof",
    "explanation": "UNBOUNDED (counted): every a_list primitive on an arbitrary heap - a_list_add_/a_list_del_ against DFCC function contracts with assigns frame, the other families against those contracts (replace), swap over the bodies; edges created/removed exactly as specified, all other link fields unchanged; every a_slist primitive with the local tail invariant (null link <=> tail). BOUNDED (not counted): intrusive list / singly linked list primitives and every queue operation executed on symbolic small structures (rings of <= 3 nodes per list, every position and aliasing pattern; queues of <= 3 elements with a symbolic recycle pool) and compared with abstract sequences; forward walk, backward links and tail designation checked after every operation; allocator model may fail at every request",
    "trusted_base": ["cbmc 6.11.0 (SAT back end)", "allocator model verif_alloc"],
    "assumptions": [
        "induction over the operation history is a paper step (every operation is verified from an arbitrary well-formed structure of the bounded size)",
        "list lemmas: a heap of any size is represented by a pool of 10 node objects with arbitrary links (operands + all nodes within two links + spares); the step from 'exactly these consistent edges change' to the abstract ring sequence is on paper and cross-checked by the bounded ring units",
        "goto-instrument 6.11 makes two replaced calls of one contract on the same path contradictory (caught by the vacuity guard): a_list_swap_ is therefore verified over the bodies of a_list_add_/a_list_link instead of the contract",
        "documented preconditions: swapped nodes/sections are disjoint and not adjacent; a moved list is non-empty; sorted-insert variants are applied to a sorted queue",
        "queue: ring length <= 3 and recycle pool <= 2 nodes before the operation, element size 4 (bounded stand-in)",
    ],
}
RP = {"native": True}
def L(name, fns, **kw):
    return U(name, "lists.c", "h_" + name, level="B", functions=fns, replay=RP, min_obl=2, unwind=9, timeout=300,
             bound="rings of <= 3 nodes per list (la + lb <= 3), all positions", **kw)
UNITS = [
    L("list_add", ["a_list_add_", "a_list_add_node", "a_list_add_next", "a_list_add_prev"]),
    L("list_del", ["a_list_del_", "a_list_del_node", "a_list_del_next", "a_list_del_prev"]),
    L("list_set", ["a_list_set_", "a_list_set_node"]),
    L("list_mov_rot", ["a_list_mov_next", "a_list_mov_prev", "a_list_rot_next", "a_list_rot_prev"]),
    L("list_swap", ["a_list_swap_", "a_list_swap_node"]),
    L("list_link", ["a_list_link", "a_list_loop", "a_list_ctor", "a_list_init", "a_list_dtor"]),
    L("slist", ["a_slist_add", "a_slist_add_head", "a_slist_add_tail", "a_slist_del", "a_slist_del_head", "a_slist_mov", "a_slist_rot"]),
    L("slist_ctor", ["a_slist_ctor", "a_slist_dtor", "a_slist_add_tail"]),
    ]
# unbounded lemmas: arbitrary heap (pool of 10 nodes with arbitrary links), core primitives under DFCC contracts, callers against the contracts
CORE = ["a_list_add_/contract_a_list_add_", "a_list_del_/contract_a_list_del_"]
def W(name, fns, **kw):
    return U("list_lemma_" + name, "list_lemma.c", "h_" + name, level="L", functions=fns, replay=RP, min_obl=3, unwind=12, timeout=300, **kw)
UNITS += [
    W("core_add", ["a_list_add_", "a_list_link"], enforce=[CORE[0]], key=["only tail1->next"]),
    W("core_del", ["a_list_del_", "a_list_link"], enforce=[CORE[1]], key=["become a consistent edge"]),
    W("add", ["a_list_add_node", "a_list_add_next", "a_list_add_prev"], replace=CORE, key=["add_node: the node sits"]),
    W("del", ["a_list_del_node", "a_list_del_next", "a_list_del_prev"], replace=CORE, key=["del_node: predecessor"]),
    W("set", ["a_list_set_", "a_list_set_node"], replace=CORE, key=["set: the replacement"]),
    W("mov", ["a_list_mov_next", "a_list_mov_prev"], replace=CORE, key=["mov_next: the other"]),
    W("rot", ["a_list_rot_next", "a_list_rot_prev"], replace=CORE, key=["rot_next: the node"]),
    # two replaced calls of the same contract on one path come out contradictory with this goto-instrument (canary unreachable): swap is proved over the bodies
    W("swap", ["a_list_swap_", "a_list_swap_node", "a_list_add_", "a_list_link"], key=["swap: each section"]),
]
UNITS += [
    W("slist", ["a_slist_add", "a_slist_add_head", "a_slist_add_tail", "a_slist_del", "a_slist_del_head", "a_slist_rot", "a_slist_link"], key=["slist add: the tail moves"]),
    W("slist_mov", ["a_slist_mov", "a_slist_link"], key=["slist mov: the whole chain"]),
]
def Q(name, fns, **kw):
    kw.setdefault("unwindset", [("verif_alloc.0", 34), ("a_que_drop.0", 5), ("a_que_drop.1", 7), ("a_que_setz.0", 7), ("a_que_dtor.0", 7), ("a_que_dtor.1", 5), ("a_que_dtor.2", 7), ("a_que_dtor.3", 5)])
    kw.setdefault("bound", "queues of <= 3 elements, recycle pool capacity 0 or 8 with <= 2 pooled nodes, element size 4")
    return U("que_" + name, "que.c", "h_" + name, level="B", functions=fns, replay=RP, min_obl=5, unwind=12, timeout=300, cbmc=["--object-bits", "10"], **kw)
UNITS += [
    Q("push", ["a_que_push_fore", "a_que_push_back", "a_que_insert", "a_que_new_"]),
    Q("pull", ["a_que_pull_fore", "a_que_pull_back", "a_que_remove", "a_que_die_"]),
    Q("at", ["a_que_at", "a_que_fore", "a_que_back"]),
    Q("swap_elem", ["a_que_swap_"]),
    Q("swap_que", ["a_que_swap"]),
    Q("sort", ["a_que_sort_fore", "a_que_sort_back", "a_que_push_sort"]),
    Q("drop", ["a_que_drop"], solver="cadical"),
    Q("setz", ["a_que_setz"], solver="cadical", unwindset=[("verif_alloc.0", 34), ("a_que_drop.0", 4), ("a_que_drop.1", 4), ("a_que_setz.0", 4)],
      bound="queues with elements + pooled nodes <= 2, new element size in {0,2,4,8}"),
    Q("dtor", ["a_que_dtor", "a_que_new", "a_que_die", "a_que_ctor"]),
]
