from vdriver import U

PROPERTY = {
    "level": "proof",
    "explanation": "encoder for all 2^32 arguments, decoder for arbitrary bytes and lengths (DFCC contract on an exactly sized fresh block), round trip for every code point 1..2^31-1 with every proper prefix, length counters under loop contracts with the decoder replaced by its contract",
    "trusted_base": ["cbmc 6.11.0 (goto-cc, goto-instrument --dfcc, SAT back end)", "LP64 little endian"],
    "assumptions": [
        "inside a_utf_length the decoder is replaced by contract_a_utf_decode_r (readable block instead of fresh block + ghost call bookkeeping); its functional clauses are those proved for contract_a_utf_decode",
        "buffer length <= 2^32 in the length contracts (machine-integer range in requires)",
        "ghost witness index stands for a universal quantifier",
        "a_utf_length_: only termination, memory safety on a block with 6 bytes of slack and result <= num are proved; 'no read at or beyond ptr+num' is not decided for it (the routine forms pointers up to 5 bytes past the block without accessing them, which cbmc's pointer check reports like an access)",
    ],
}
RP = {"prog": "c18.c", "sources": ["a.c", "utf.c"]}
D = "num <= __CPROVER_loop_entry(num)"
UNITS = [
    U("encode", "utf.c", "h_encode", functions=["a_utf_encode"], unwind=9, min_obl=8, key=["table's length", "nothing written beyond"], replay=RP),
    U("decode", "utf.c", "h_decode", functions=["a_utf_decode"], enforce=["a_utf_decode/contract_a_utf_decode"], unwind=9,
      key=["postcondition|ensures"], min_obl=20, replay=RP),
    U("decode_modes", "utf.c", "h_decode_modes", functions=["a_utf_decode"], unwind=9, min_obl=5, key=["same with and without"], replay=RP),
    U("roundtrip", "utf.c", "h_roundtrip", functions=["a_utf_encode", "a_utf_decode"], unwind=9, min_obl=5, key=["returns the code point", "proper prefix"], replay=RP),
    U("length", "utf.c", "h_length", functions=["a_utf_length"], enforce=["a_utf_length/contract_a_utf_length"],
      replace=["a_utf_decode/contract_a_utf_decode_r"], replay=RP,
      loops={"a_utf_length": [{"loop_id": 0, "expect": "for (; offset; offset = a_utf_decode",
             "invariants": "verif_calls == length + 1 && verif_last == offset && offset <= num && " + D +
                           " && str == (const char *)ptr + (__CPROVER_loop_entry(num) - num) && verif_sum == (__CPROVER_loop_entry(num) - num) + offset",
             "assigns": "str, num, length, offset, verif_calls, verif_sum, verif_last", "decreases": "num"}]},
      key=["invariant after step", "postcondition|ensures"], min_obl=20),
    U("length_", "utf.c", "h_length_", functions=["a_utf_length_"], enforce=["a_utf_length_/contract_a_utf_length_"], replay=RP,
      loops={"a_utf_length_": [{"loop_id": 0, "expect": "< num && *str; ++length)",
             "invariants": "__CPROVER_same_object(str, ptr) && __CPROVER_r_ok(str, 1) && (str - (const char *)ptr) >= 0 && (unsigned long)(str - (const char *)ptr) <= num + 5 && length <= (unsigned long)(str - (const char *)ptr) && length <= num && ((str - (const char *)ptr) == 0 || length >= 1)",
             "assigns": "str, length", "decreases": "num + 6 - (unsigned long)(str - (const char *)ptr)"}]},
      drop_checks=["--pointer-primitive-check"],  # r_ok is used as a guard inside the loop invariant (evaluated on havocked pointers)
      key=["invariant after step", "postcondition|ensures"], min_obl=20),
]
