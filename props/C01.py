from vdriver import U
from treeshapes import avl_shapes

PROPERTY = {
    "level": "proof",
    "explanation": "the real insert / remove / lookup code run on EVERY valid AVL tree of depth <= 3 (<= 7 nodes; one unit per tree shape, keys/positions symbolic; a deterministic sample (every 16th) of the depth-4 shapes = up to 15 nodes in the thorough tier; VERIF_FULL_D4=1 runs all of them, ~3 h), every key position (new or resident) and every node to remove; the result is judged by a recursive checker over the actual links (search order, parent links, stored balance factor == height difference, |difference| <= 1) and by node count + lookups (element set)",
    "trusted_base": ["cbmc 6.11.0 (SAT back end CaDiCaL)"],
    "assumptions": [
        "induction over histories: every operation is verified from every valid tree of the bounded depth; UNBOUNDED part: window lemmas avl_lemma_growth / avl_lemma_shrink prove the retrace steps a_avl_handle_growth / a_avl_handle_shrink (with a_avl_rotate / a_avl_rotate2, packed layout) for subtrees of every size (ghost heights up to 2^20): valid window + height restored, or the step invariant one level up; the induction over the climb loop is a paper step. Glue lemmas (same windows, the retrace step replaced by a recording stand-in through DFCC contract replacement): avl_lemma_insert_first(_root) - a_avl_insert_adjust either absorbs the new leaf (valid window, no step) or starts exactly one step at (grandparent, parent, side) in a heap that IS the step invariant J_grow; avl_lemma_unlink_simple(_root) - a_avl_remove of a node with at most one child hands exactly J_shrink to the first step (or installs the child as root); avl_lemma_splice / avl_lemma_splice_remove - the successor splice a_avl_handle_remove (spine depth <= 2) directly and through a_avl_remove's two-child path incl. the side handed to the first step. Descent lemmas avl_lemma_search / avl_lemma_descent (harness/search_lemma.c): the loops of a_avl_search and a_avl_insert under DFCC loop contracts on an arbitrary heap with ghost key intervals (every step keeps the searched key inside the current node's interval; termination; a found element has the key; a resident key returns the resident and writes nothing; otherwise the new leaf is linked into an EMPTY child slot on the side its key belongs to and the rebalancing - replaced by a recording contract - is started once); 'absent when the search falls off' follows on paper from the disjointness of the intervals. Not covered by a lemma: successors deeper than two levels (bounded whole trees only)",
        "whole-tree units use the node layout with separate parent/factor fields (A_SIZE_POINTER=1): cbmc cannot propagate pointers through the packed parent word ((uintptr)parent | factor+1) and the packed whole-tree encoding needs > 40 GB. The packed layout is covered by accessor round-trip proofs (unit packed_accessors, all parent pointers and factors/colours) and by every lemma unit (the window lemmas run the default packed layout); packed whole-tree units on trees of depth <= 2 were tried in the thorough tier and removed: tens of GB, and cbmc left obligations without a verdict in one of four runs",
        "the comparison callback returns the key difference (any magnitude): only its sign may be used",
    ],
}
RP = {"native": True}
INS = ["a_avl_insert", "a_avl_insert_adjust", "a_avl_handle_growth", "a_avl_rotate", "a_avl_rotate2", "a_avl_search"]
REM = ["a_avl_remove", "a_avl_handle_remove", "a_avl_handle_shrink", "a_avl_rotate", "a_avl_rotate2", "a_avl_search"]
def T(name, entry, d, tiers=("quick", "thorough"), defs=(), **kw):
    kw.setdefault("timeout", 900)
    kw.setdefault("bound", "every valid AVL tree of depth <= %d (<= %d nodes) before the operation" % (d, (1 << d) - 1))
    return U(name, "trees.c", entry, level="B", replay=RP, tiers=tiers, min_obl=5, unwind=max(d + 3, (1 << d) + 1),
             defines=["D=%d" % d] + list(defs), cbmc=["--object-bits", "10"], solver="cadical", **kw)
UNITS = []
for m in avl_shapes(3):
    b = "AVL tree shape 0x%02x (heap positions) of depth <= 3, keys and positions symbolic" % m
    UNITS.append(T("avl_insert_d3_s%02x" % m, "h_insert", 3, defs=["A_SIZE_POINTER=1", "SHAPE=0x%x" % m], functions=INS, bound=b, timeout=900))
    if m:
        UNITS.append(T("avl_remove_d3_s%02x" % m, "h_remove", 3, defs=["A_SIZE_POINTER=1", "SHAPE=0x%x" % m], functions=REM, bound=b, timeout=900))
UNITS += [
    U("avl_lemma_growth", "avl_lemma.c", "h_growth", level="L", functions=["a_avl_handle_growth", "a_avl_rotate", "a_avl_rotate2"], replay={"prog": "trees_search.c", "sources": ["avl.c", "rbt.c"], "mode": "avl", "timeout": 600}, min_obl=3, unwind=5,
      cbmc=["--object-bits", "10"], solver="cadical", timeout=600, key=["handle_growth"]),
    U("avl_lemma_shrink", "avl_lemma.c", "h_shrink", level="L", functions=["a_avl_handle_shrink", "a_avl_rotate", "a_avl_rotate2"], replay={"prog": "trees_search.c", "sources": ["avl.c", "rbt.c"], "mode": "avl", "timeout": 600}, min_obl=3, unwind=5,
      cbmc=["--object-bits", "10"], solver="cadical", timeout=600, key=["handle_shrink"]),
    U("avl_lemma_splice", "avl_lemma.c", "h_splice", level="L", functions=["a_avl_handle_remove", "a_avl_new_child", "a_avl_set_parent"], min_obl=3, unwind=7,
      replay={"prog": "trees_search.c", "sources": ["avl.c", "rbt.c"], "mode": "avl", "timeout": 600}, bound="successor at most 2 levels down the left spine of the right child (subtree heights unbounded)",
      cbmc=["--object-bits", "10"], solver="cadical", timeout=900, key=["handle_remove"]),
    U("avl_lemma_splice_remove", "avl_lemma.c", "h_splice", level="L", functions=["a_avl_remove", "a_avl_handle_remove", "a_avl_new_child", "a_avl_set_parent"], min_obl=3, unwind=7, defines=["VIA_REMOVE"], replace=["a_avl_handle_shrink/contract_a_avl_handle_shrink"],
      replay={"prog": "trees_search.c", "sources": ["avl.c", "rbt.c"], "mode": "avl", "timeout": 600}, bound="successor at most 2 levels down the left spine of the right child (subtree heights unbounded)",
      cbmc=["--object-bits", "10"], solver="cadical", timeout=900, key=["handle_remove"]),
] + [
    U("avl_lemma_" + nm, "avl_lemma.c", "h_" + nm, level="L", functions=fns, min_obl=3, unwind=12,
      replace=["a_avl_handle_growth/contract_a_avl_handle_growth", "a_avl_handle_shrink/contract_a_avl_handle_shrink"],
      replay={"prog": "trees_search.c", "sources": ["avl.c", "rbt.c"], "mode": "avl", "timeout": 600},
      cbmc=["--object-bits", "10"], solver="cadical", timeout=600, key=[k])
    for nm, fns, k in (("insert_first", ["a_avl_insert_adjust"], "insert_adjust: the state handed"), ("insert_first_root", ["a_avl_insert_adjust"], "parent is the root"),
                       ("unlink_simple", ["a_avl_remove"], "remove \\(simple unlink\\): the child replaces"), ("unlink_simple_root", ["a_avl_remove"], "the child becomes the root"))
] + [
    U("avl_packed_accessors", "trees.c", "h_packed", level="P", functions=["a_avl_set_parent_factor", "a_avl_set_parent", "a_avl_set_factor", "a_avl_parent", "a_avl_factor", "a_avl_init"], replay=RP, min_obl=3, defines=["D=2"], cbmc=["--object-bits", "10"]),
]
# depth-4 shapes: one unit takes 3-5 min, all 335 of them ~3 h on 16 cores.  The registered thorough tier runs a deterministic
# sample (every 16th shape in enumeration order; a unit needs 5-8 GB, so only a few run at once: ~1 h); VERIF_FULL_D4=1 selects all of them.
import os
_d4 = [m for m in avl_shapes(4) if m >= 0x80]  # depth <= 3 shapes are covered above
if not os.environ.get("VERIF_FULL_D4"):
    _d4 = _d4[::16]
for m in _d4:
    b = "AVL tree shape 0x%04x of depth 4 (<= 15 nodes), keys and positions symbolic" % m
    UNITS.append(T("avl_insert_d4_s%04x" % m, "h_insert", 4, tiers=("thorough",), defs=["A_SIZE_POINTER=1", "SHAPE=0x%x" % m], functions=INS, bound=b, timeout=1200, mem_est=9))
    UNITS.append(T("avl_remove_d4_s%04x" % m, "h_remove", 4, tiers=("thorough",), defs=["A_SIZE_POINTER=1", "SHAPE=0x%x" % m], functions=REM, bound=b, timeout=1200, mem_est=9))

from descent import descent_units
UNITS += descent_units("avl", "a_avl_search", "a_avl_insert", "a_avl_insert_adjust", [])
