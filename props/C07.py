"""C07: allocation failure never corrupts a container or leaks memory.
The fault clauses live in the per-operation harnesses of the containers (harness/seq.c, que.c, str.c): the allocator hook is a
model that MAY FAIL at every request (symbolic fault schedule verif_fail_mask: request i fails iff bit i is set - single faults at
every position and failure of all requests from a position onward are all instances), each operation asserts 'reports failure and
the container is unchanged' on the failing paths, and a ghost ledger counts live blocks. This module selects those units."""
import importlib.util, os
from vdriver import U

def _load(name):
    spec = importlib.util.spec_from_file_location("prop_" + name, os.path.join(os.path.dirname(os.path.abspath(__file__)), name + ".py"))
    m = importlib.util.module_from_spec(spec)
    spec.loader.exec_module(m)
    return m

PROPERTY = {
    "level": "other",
    "explanation": "fault enumeration inside bounded symbolic checks: every allocation request of every operation on a vector, buffer, queue or string may be the one that fails (symbolic fault schedule); failing paths must report failure and leave the container unchanged (so a later retry is the success case of the same triple), a ghost ledger shows that exactly the owned blocks are live after every operation and none after destruction",
    "trusted_base": ["cbmc 6.11.0 (SAT back end)", "allocator model verif_alloc: realloc/malloc/free protocol of a_alloc, fails according to a symbolic schedule, leaves the old block untouched on failure"],
    "assumptions": [
        "container sizes bounded as in C04/C05/C06 (capacity <= 3-4, queues <= 3 elements, strings <= 16 bytes) - level B units",
        "induction over histories: every operation is verified from an arbitrary valid state with an arbitrary fault schedule; 'released exactly once by the time the container is destroyed' = ledger invariant after every operation + ledger zero after dtor/die (paper composition)",
        "known finding (listed in known_findings.json): a_que_setz reports failure after the queue has already been emptied",
    ],
}
_sel = {
    "C04": ("insert", "push_fore", "push_back", "store", "setn", "push_sort", "new_die", "ctor_dtor"),
    "C05": ("que_push", "que_pull", "que_sort", "que_drop", "que_setz", "que_dtor"),
    "C06": ("str_setm", "str_catc", "str_catn", "str_cats", "str_cat", "str_exit", "str_new_die", "str_catf", "str_utf_catc",
            "str_big_setm", "str_big_catc", "str_big_catn", "str_big_catn0", "str_big_setn_exit"),
}
UNITS = []
for mod, names in _sel.items():
    for u in _load(mod).UNITS:
        if "quick" not in u.tiers:
            continue
        base = u.name.split("_", 1)[1] if mod == "C04" else u.name
        if base in names:
            UNITS.append(u)
