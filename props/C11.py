from vdriver import U

PROPERTY = {
    "level": "proof",
    "explanation": "verification build with every A_HAVE_* libm switch off, so the library's own fallback bodies are the verified text. "
                   "a_real_atan2: axis/quadrant logic for all non-NaN inputs (not both infinite) on top of an assumed contract for atan; "
                   "a_real_asinh/acosh/atanh/expm1/log1p: branch structure (NaN/inf/zero cases, domain edges, odd symmetry asinh(-x) = -asinh(x), atanh(-x) = -atanh(x), tiny-argument pass-through, which published formula in which range) with libm as uninterpreted functions under assumed contracts; "
                   "a_real_norm2/norm3/norm/norm_: +inf for an infinite component, NaN only for a NaN component, never negative, +0 for the zero vector, memory safety on tight blocks for strides 1..3; "
                   "copy/swap/fill/zero/push/roll helpers and their strided or block forms: exact bit-for-bit permutation/shift/fill semantics through a ghost witness cell, frame (cells between strided entries, source blocks), all lengths up to a small bound including 0 and 1; "
                   "sum/sum1/sum2/mean/dot and strided forms: equal to the defining left fold on the exact integer domain; coordinate conversions: call protocol",
    "trusted_base": [
        "cbmc 6.11.0 (IEEE-754 bit-precise float encoding, round-to-nearest; built-in fabs/isnan/isinf; byte-level memcpy/memmove models; malloc model)",
        "cvc5 for the floating-point obligations",
        "a_real = double, LP64; verification configuration /verif/config/a.verif.h (all A_HAVE_* libm switches off)",
        "libm by assumed contracts (stubs in harness/rmath.c; each function is an uninterpreted function of its argument, constrained where it is called): "
        "atan: NaN->NaN, result in [-pi/2, pi/2] as doubles, strictly of the sign of a non-zero argument, atan(+-0) = +-0; "
        "log: NaN for negative/NaN, -inf at 0, +0 at 1, negative finite on (0,1), positive finite on (1,inf), +inf at +inf; "
        "sqrt: NaN for negative/NaN, sqrt(+-0) = +-0, +inf at +inf, otherwise finite positive and on the same side of 1 as the argument (between 1 and x, resp. x and 1); "
        "exp: NaN->NaN, >= 0, <= 1 for x <= 0, >= 1 for x >= 0, finite for x <= 0; sin/cos: NaN for NaN/inf, otherwise in [-1, 1]",
    ],
    "assumptions": [
        "'returns the mathematical value to within a small multiple of machine precision, identically accurate whether bound to libm or to the fallback' (asinh, acosh, atanh, expm1, log1p, atan2, norms, coordinate conversions): not applicable - an accuracy statement needs real-analysis reasoning about rounded polynomial/log/sqrt evaluations that no contract within the solver's reach expresses; decided instead: the branch structure and special values of the fallback bodies",
        "'norms do not overflow or underflow when the true result is representable': not applicable (needs magnitude reasoning over IEEE quotients and products; no answer from the solver on such range facts)",
        "configurations: only the fallback setting of every A_HAVE_* switch is verified (with a switch on, the name is a macro alias of the libm function and no library code is compiled); real type double only (float: thorough tier not provided)",
        "atan2 for NaN arguments and for two infinite arguments is outside the quantifier (finite arguments): the fallback returns 0 or +-pi/2 for atan2(y, NaN) and NaN for atan2(+-inf, +-inf); signed-zero refinements of ISO C (atan2(-0, x<0) = -pi, atan2(+-0, -0) = +-pi) are not part of the statement: the fallback gives +pi and 0 there",
        "odd symmetry and the range-split formulas are relative to libm being a function (same argument, same result) - modelled by uninterpreted functions",
        "data movement and reductions bounded: lengths <= 8 (contiguous) / <= 4 (strided, block forms), strides 1..3, every length concrete on its path (case split) so that memcpy/memmove lengths are constants: units of level B",
        "sum/mean/dot equal their left fold only on the exact domain (integers |v| <= 2^10: every product and partial sum exact, so the verdict does not depend on the association); mean is the fold of entry*(1/n) and equals (sum)/n exactly for n in {1,2,4} (concrete vectors) - for other n the two differ by rounding",
        "fold_spot is a test on concrete vectors, not a proof: it backs fold/fold_strided, whose proof rests on code and reference building the same terms (for a wrong formula the solver may fail to produce a counterexample in time)",
        "the strided readers and writers advance their cursor once more after the last entry, i.e. they form (never access) a pointer up to c-1 cells beyond one-past-the-end of a tight block; cbmc's pointer check only judges accesses",
        "norm value units: n <= 3 (plain and stride 2); memory safety of norm/norm_: n <= 4, strides 1..3, with libm unconstrained",
        "ghost witness cell stands for the universal quantifier over array cells",
    ],
    "not_applicable_clauses": [
        "accuracy to a small multiple of machine precision (all special functions, norms, coordinate conversions)",
        "identical accuracy of the libm binding and the fallback",
        "norms do not overflow or underflow when the true result is representable",
    ],
    "parameters_concretised": ["lengths 0..8 and strides 1..3 per path (case split)", "A_HAVE_* switches: all off", "a_real = double"],
}
RP = {"native": True, "sources": []}   # harness/rmath.c includes src/a.c and src/math.c itself
def R(name, fns, **kw):
    kw.setdefault("timeout", 600)
    kw.setdefault("min_obl", 3)
    return U(name, "rmath.c", kw.pop("entry", "h_rm_" + name), functions=fns, replay=RP, **kw)
def F(name, fns, **kw):   # floating point: cvc5, one query per obligation
    kw.setdefault("solver", "cvc5"); kw.setdefault("split", 4)
    return R(name, fns, **kw)
MV = dict(unwind=12, level="B", cbmc=["--object-bits", "12"])
UNITS = [
    F("atan2", ["a_real_atan2"], key=["exactly \\+pi/2", "exactly -pi/2", "x > 0 gives atan", "lies in \\[pi/2, pi\\]", "lies in \\[-pi, -pi/2\\]"], min_obl=10, cost=30),
    F("asinh", ["a_real_asinh", "a_real_log1p"], key=["asinh: odd", "pass through"], cost=80),
    F("asinh_branches", ["a_real_asinh", "a_real_log1p"], key=["log\\|x\\| \\+ ln 2"], cost=50),
    F("acosh", ["a_real_acosh", "a_real_log1p"], key=["NaN below 1", "acosh\\(1\\) = \\+0"], min_obl=6, cost=30),
    F("atanh", ["a_real_atanh", "a_real_log1p"], key=["atanh: odd", "atanh\\(1\\) = \\+inf", "NaN outside"], min_obl=6, cost=100),
    F("atanh_branches", ["a_real_atanh", "a_real_log1p"], min_obl=2, cost=80),
    F("expm1_log1p", ["a_real_expm1", "a_real_log1p"], unwind=6, key=["-inf gives -1", "log1p\\(-1\\) = -inf"], min_obl=10, cost=80),
    F("norm2", ["a_real_norm2"], key=["NaN only if", "never negative", "zero vector"], cost=30),
    F("norm3", ["a_real_norm3"], key=["NaN only if", "never negative", "zero vector"], cost=30),
    F("coord", ["a_real_cart2pol", "a_real_pol2cart", "a_real_cart2sph", "a_real_sph2cart"], key=["cart2pol", "sph2cart"], min_obl=10, cost=30),
    R("norm_mem", ["a_real_norm", "a_real_norm_"], bound="n <= 4, strides 1..3; libm unconstrained, values not judged", defines=["VERIF_LIBM_ANY"],
      key=["array is only read"], min_obl=20, **dict(MV, cbmc=["--slice-formula", "--object-bits", "12"])),
    F("norm_val", ["a_real_norm"], unwind=12, level="B", bound="n <= 3", key=["NaN only if", "never negative", "zero vector"], min_obl=20, cost=120),
    F("norm_val_s2", ["a_real_norm_"], entry="h_rm_norm_val", defines=["CD=2"], unwind=12, level="B", bound="n <= 3, stride 2", key=["NaN only if", "never negative"], min_obl=20, cost=120),
    F("norm_val_s1", ["a_real_norm_"], entry="h_rm_norm_val", defines=["CD=1"], unwind=12, level="B", bound="n <= 3, stride 1", min_obl=20, tiers=("thorough",), timeout=1800),
    F("norm_val_s3", ["a_real_norm_"], entry="h_rm_norm_val", defines=["CD=3"], unwind=12, level="B", bound="n <= 3, stride 3", min_obl=20, tiers=("thorough",), timeout=1800),
    R("fold", ["a_real_sum", "a_real_sum1", "a_real_sum2", "a_real_mean", "a_real_dot"], unwind=12, level="B", bound="n <= 6; exact domain: integers |v| <= 2^10", solver="cvc5",
      key=["sum: left fold", "dot: left fold", "mean: left fold"], min_obl=50, cost=60),
    R("fold_strided", ["a_real_sum_", "a_real_sum1_", "a_real_sum2_", "a_real_mean_", "a_real_dot_"], unwind=12, level="B", bound="n <= 4, strides 1..3 (both strides of dot_); exact domain: integers |v| <= 2^10", solver="cvc5",
      key=["sum_: left fold", "dot_: left fold"], min_obl=50, cost=60),
    R("fold_spot", ["a_real_sum", "a_real_sum_", "a_real_sum1", "a_real_sum1_", "a_real_sum2", "a_real_sum2_", "a_real_mean", "a_real_mean_", "a_real_dot", "a_real_dot_"],
      bound="n <= 6 (strided: n <= 4, strides 1..3); two concrete integer vectors (a test backing fold / fold_strided)", key=["concrete vector", "dot_: left fold"], min_obl=50, **MV),
    R("copy", ["a_real_copy", "a_real_copy_"], bound="n <= 4, strides 1..3 on both sides", key=["destination entry i is source entry i", "between the strided destination entries"], min_obl=30, cost=50, **MV),
    R("swap", ["a_real_swap", "a_real_swap_"], bound="n <= 4, strides 1..3 on both sides", key=["left entry i is the old right entry i", "right entry i is the old left entry i"], min_obl=30, cost=80, **MV),
    R("fill_zero", ["a_real_fill", "a_real_zero"], bound="n <= 8", key=["fill: every entry", "zero: every entry"], min_obl=10, **MV),
    R("roll", ["a_real_roll_fore", "a_real_roll_back"], bound="n <= 8", key=["roll_fore: entry w", "roll_back: entry w"], min_obl=10, **MV),
    R("pushes", ["a_real_push_fore_", "a_real_push_back_"], bound="block_n <= 4, cache_n <= 5", key=["push_fore_: the block starts", "push_back_: the block ends"], min_obl=30, cost=50, **MV),
    R("rolls", ["a_real_roll_fore_", "a_real_roll_back_"], bound="1 <= block_n <= 4, shift_n <= 5", key=["roll_fore_: entry w", "roll_back_: entry w"], min_obl=30, cost=30, **MV),
    R("rolls_empty", ["a_real_roll_fore_", "a_real_roll_back_"], bound="block_n == 0, shift_n <= 2", key=["empty block is accepted"], min_obl=3, **MV),
    # the single-element shifts are C16's units (harness/tf.c); listed here because the property names the shift helpers
    U("push_fore", "tf.c", "h_push_fore", functions=["a_real_push_fore"], unwind=10, level="B", bound="n <= 8", key=["entry w is the old entry w-1"], min_obl=10, replay=RP, timeout=600),
    U("push_back", "tf.c", "h_push_back", functions=["a_real_push_back"], unwind=10, level="B", bound="n <= 8", key=["entry w is the old entry w\\+1"], min_obl=10, replay=RP, timeout=600),
]
