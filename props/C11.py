from vdriver import U

PROPERTY = {
    "level": "proof",
    "explanation": "placeholder",
    "trusted_base": [],
    "assumptions": [],
    "not_applicable_clauses": [],
}
RP = {"native": True, "sources": []}   # harness/rmath.c includes src/a.c and src/math.c itself
def R(name, fns, **kw):
    kw.setdefault("timeout", 120)
    kw.setdefault("min_obl", 3)
    return U(name, "rmath.c", kw.pop("entry", "h_rm_" + name), functions=fns, replay=RP, **kw)
def F(name, fns, **kw):   # loop-free floating point: cvc5, one query per obligation
    kw.setdefault("solver", "cvc5"); kw.setdefault("split", 4)
    return R(name, fns, **kw)
UNITS = [
    F("atan2", ["a_real_atan2"]),
    F("asinh", ["a_real_asinh", "a_real_log1p"]),
    F("acosh", ["a_real_acosh", "a_real_log1p"]),
    F("atanh", ["a_real_atanh", "a_real_log1p"]),
    F("expm1_log1p", ["a_real_expm1", "a_real_log1p"], unwind=6),
    F("norm2", ["a_real_norm2"]),
    F("norm3", ["a_real_norm3"]),
    F("coord", ["a_real_cart2pol", "a_real_pol2cart", "a_real_cart2sph", "a_real_sph2cart"]),
    R("norm", ["a_real_norm", "a_real_norm_"], unwind=12, level="B", bound="n <= 4, strides 1..3", solver="cvc5"),
    R("fold", ["a_real_sum", "a_real_sum1", "a_real_sum2", "a_real_mean", "a_real_dot"], unwind=12, level="B", bound="n <= 6; exact domain", solver="cvc5"),
    R("mean_pow2", ["a_real_mean"], unwind=12, level="B", bound="n in {1,2,4}; exact domain", solver="cvc5"),
    R("fold_strided", ["a_real_sum_", "a_real_sum1_", "a_real_sum2_", "a_real_mean_", "a_real_dot_"], unwind=12, level="B", bound="n <= 4, strides 1..3; exact domain", solver="cvc5"),
    R("fold_spot", ["a_real_sum"], unwind=12, level="B", bound="concrete vectors", cbmc=["--object-bits", "12"]),
    R("copy", ["a_real_copy", "a_real_copy_"], unwind=12, level="B", bound="n <= 4, strides 1..3", cbmc=["--object-bits", "12"]),
    R("swap", ["a_real_swap", "a_real_swap_"], unwind=12, level="B", bound="n <= 4, strides 1..3", cbmc=["--object-bits", "12"]),
    R("fill_zero", ["a_real_fill", "a_real_zero"], unwind=12, level="B", bound="n <= 8"),
    R("roll", ["a_real_roll_fore", "a_real_roll_back"], unwind=12, level="B", bound="n <= 8"),
    R("pushes", ["a_real_push_fore_", "a_real_push_back_"], unwind=12, level="B", bound="block_n <= 4, cache_n <= 5", cbmc=["--object-bits", "12"]),
    R("rolls", ["a_real_roll_fore_", "a_real_roll_back_"], unwind=12, level="B", bound="1 <= block_n <= 4, shift_n <= 5", cbmc=["--object-bits", "12"]),
    R("rolls_empty", ["a_real_roll_fore_", "a_real_roll_back_"], unwind=12, level="B", bound="block_n == 0, shift_n <= 2"),
]
