from vdriver import U

PROPERTY = {
    "level": "other",
    "explanation": "all documented iteration protocols run THROUGH THE REAL MACROS (in-order, reverse, pre-order, reverse pre-order, post-order, reverse post-order, fortear) on every binary-tree shape of depth <= 3 that each tree type can hold (symbolic shape), compared with recursive reference traversals of the same shape; successor/predecessor inverse for every node; tear-down: every element once, children before parents, tree empty at the end, and interrupted after any number of steps the remaining elements are still linked and reachable",
    "trusted_base": ["cbmc 6.11.0 (SAT back end CaDiCaL)"],
    "assumptions": [
        "tree depth <= 3 (<= 7 elements) quick; the iterator functions walk unbounded ancestor paths and have no callee that could carry a contract, so nothing unbounded is claimed for C03",
        "node layout with separate parent field (A_SIZE_POINTER=1), see C01/C02 for the packed-word accessor proofs",
        "tear-down is started from the root (next == NULL) as the fortear macro does",
    ],
}
RP = {"native": True}
def I(name, entry, rbt, d, tiers=("quick", "thorough"), **kw):
    return U(name, "trees.c", entry, level="B", replay=RP, tiers=tiers, min_obl=5, unwind=(1 << d) + 2, timeout=900,
             defines=(["TREE_RBT"] if rbt else []) + ["D=%d" % d, "A_SIZE_POINTER=1"], cbmc=["--object-bits", "10"], solver="cadical",
             bound="every %s shape of depth <= %d (<= %d elements)" % ("red-black tree" if rbt else "AVL tree", d, (1 << d) - 1), **kw)
AVL_IT = ["a_avl_head", "a_avl_tail", "a_avl_next", "a_avl_prev", "a_avl_pre_next", "a_avl_pre_prev", "a_avl_post_head", "a_avl_post_tail", "a_avl_post_next", "a_avl_post_prev"]
RBT_IT = [f.replace("a_avl", "a_rbt") for f in AVL_IT]
UNITS = [
    I("avl_iter_d3", "h_iter", 0, 3, functions=AVL_IT),
    I("rbt_iter_d3", "h_iter", 1, 3, functions=RBT_IT),
    I("avl_tear_d3", "h_tear", 0, 3, functions=["a_avl_tear"]),
    I("rbt_tear_d3", "h_tear", 1, 3, functions=["a_rbt_tear"]),
    I("avl_iter_d4", "h_iter", 0, 4, tiers=("thorough",), functions=AVL_IT),
    I("rbt_iter_d4", "h_iter", 1, 4, tiers=("thorough",), functions=RBT_IT),
    I("avl_tear_d4", "h_tear", 0, 4, tiers=("thorough",), functions=["a_avl_tear"]),
    I("rbt_tear_d4", "h_tear", 1, 4, tiers=("thorough",), functions=["a_rbt_tear"]),
]
