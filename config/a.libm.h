/* as a.verif.h but with every libm binding switched on (the default cmake configuration) */
#define A_SIZE_POINTER 8
#define A_BYTE_ORDER 1234
#ifndef A_SIZE_REAL
#define A_SIZE_REAL 8
#endif
#define A_HAVE_ASINH 1
#define A_HAVE_ACOSH 1
#define A_HAVE_ATANH 1
#define A_HAVE_EXPM1 1
#define A_HAVE_LOG1P 1
#define A_HAVE_ATAN2 1
#define A_HAVE_HYPOT 1
#define A_HAVE_CSQRT 1
#define A_HAVE_CPOW 1
#define A_HAVE_CEXP 1
#define A_HAVE_CLOG 1
#define A_HAVE_CSIN 1
#define A_HAVE_CCOS 1
#define A_HAVE_CTAN 1
#define A_HAVE_CSINH 1
#define A_HAVE_CCOSH 1
#define A_HAVE_CTANH 1
#define A_HAVE_CASIN 1
#define A_HAVE_CACOS 1
#define A_HAVE_CATAN 1
#define A_HAVE_CASINH 1
#define A_HAVE_CACOSH 1
#define A_HAVE_CATANH 1
