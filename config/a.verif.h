/* Configuration header of the verification build (replaces the cmake-generated a.cmake.h).
   LP64, little endian, a_real = double, every A_HAVE_* libm switch OFF so that the
   library's own fallback bodies are the code under contract (C10/C11). */
#ifndef A_SIZE_POINTER /* a unit may select the unpacked node layout with -DA_SIZE_POINTER=2 */
#define A_SIZE_POINTER 8
#endif
#define A_BYTE_ORDER 1234
#ifndef A_SIZE_REAL
#define A_SIZE_REAL 8
#endif
