/* Definitions of the A_VERIF_HOOK(<name>) sites of /repo (guard LIBA_VERIF).  Passed with -include.
   A hook expands at its site, so it may name the surrounding locals of the repository function.
   Every hook is empty unless the unit switches it on with a -D flag. */
#ifndef VERIF_HOOKS_H
#define VERIF_HOOKS_H

/* ---- ghost fold (C17): reference step on ghost state, reading the *parameter* pdata ---- */
#ifdef VERIF_FOLD
extern unsigned long verif_g;   /* ghost accumulator: left fold of the reference step */
extern unsigned long verif_i;   /* ghost index: number of bytes folded so far */
#define VERIF_BYTE(base) (((const unsigned char *)(base))[verif_i])
#include "contracts/crc_spec.h"
#define VERIF_TBL(i) table[i]
#define VERIF_HOOK_crc8_step   { verif_g = CRC8_STEP(verif_g, VERIF_BYTE(pdata), VERIF_TBL); ++verif_i; }
#define VERIF_HOOK_crc16m_step { verif_g = CRC16M_STEP(verif_g, VERIF_BYTE(pdata), VERIF_TBL); ++verif_i; }
#define VERIF_HOOK_crc16l_step { verif_g = CRC16L_STEP(verif_g, VERIF_BYTE(pdata), VERIF_TBL); ++verif_i; }
#define VERIF_HOOK_crc32m_step { verif_g = CRC32M_STEP(verif_g, VERIF_BYTE(pdata), VERIF_TBL); ++verif_i; }
#define VERIF_HOOK_crc32l_step { verif_g = CRC32L_STEP(verif_g, VERIF_BYTE(pdata), VERIF_TBL); ++verif_i; }
#define VERIF_HOOK_crc64m_step { verif_g = CRC64M_STEP(verif_g, VERIF_BYTE(pdata), VERIF_TBL); ++verif_i; }
#define VERIF_HOOK_crc64l_step { verif_g = CRC64L_STEP(verif_g, VERIF_BYTE(pdata), VERIF_TBL); ++verif_i; }
#define VERIF_HOOK_hash_bkdr_step  { verif_g = BKDR_STEP(verif_g, VERIF_BYTE(str_)); ++verif_i; }
#define VERIF_HOOK_hash_bkdr__step { verif_g = BKDR_STEP(verif_g, VERIF_BYTE(ptr_)); ++verif_i; }
#define VERIF_HOOK_hash_sdbm_step  { verif_g = SDBM_STEP(verif_g, VERIF_BYTE(str_)); ++verif_i; }
#define VERIF_HOOK_hash_sdbm__step { verif_g = SDBM_STEP(verif_g, VERIF_BYTE(ptr_)); ++verif_i; }
#else
#define VERIF_HOOK_crc8_step
#define VERIF_HOOK_crc16m_step
#define VERIF_HOOK_crc16l_step
#define VERIF_HOOK_crc32m_step
#define VERIF_HOOK_crc32l_step
#define VERIF_HOOK_crc64m_step
#define VERIF_HOOK_crc64l_step
#define VERIF_HOOK_hash_bkdr_step
#define VERIF_HOOK_hash_bkdr__step
#define VERIF_HOOK_hash_sdbm_step
#define VERIF_HOOK_hash_sdbm__step
#endif

/* ---- CRC table generators (C17): entry check at write time + ghost record of the witness entry ---- */
#ifdef VERIF_TBL_HOOK
extern unsigned verif_k;          /* ghost witness index (universally quantified) */
extern unsigned long verif_T;     /* ghost: value written to table[verif_k] */
extern int verif_good;            /* ghost: that value equalled the definition when it was written */
extern unsigned long verif_poly;  /* ghost: polynomial the generator loop actually used */
/* the definition (long division of the byte on a W-bit register), written as straight-line ghost code on a
   hook-local of exactly the register width: top bit out, shift, conditional subtraction of the polynomial */
#define VERIF_S1M(TOP) { verif_sig = (TOP) & verif_v; verif_v <<= 1; if (verif_sig) { verif_v ^= poly; } }
#define VERIF_S1L { verif_sig = verif_v & 1; verif_v >>= 1; if (verif_sig) { verif_v ^= poly; } }
#define VERIF_TBL_ENTRY_M(TY, W, TOP) { verif_poly = poly; if (c == verif_k) { TY verif_sig, verif_v = (TY)((TY)c << ((W) - 8)); \
    VERIF_S1M(TOP) VERIF_S1M(TOP) VERIF_S1M(TOP) VERIF_S1M(TOP) VERIF_S1M(TOP) VERIF_S1M(TOP) VERIF_S1M(TOP) VERIF_S1M(TOP) \
    verif_T = table[c]; verif_good = ((TY)value == verif_v && table[c] == (TY)value); } }
#define VERIF_TBL_ENTRY_L(TY) { verif_poly = poly; if (c == verif_k) { TY verif_sig, verif_v = (TY)c; \
    VERIF_S1L VERIF_S1L VERIF_S1L VERIF_S1L VERIF_S1L VERIF_S1L VERIF_S1L VERIF_S1L \
    verif_T = table[c]; verif_good = ((TY)value == verif_v && table[c] == (TY)value); } }
#define VERIF_HOOK_crc8m_init_entry  VERIF_TBL_ENTRY_M(unsigned char, 8, 0x80u)
#define VERIF_HOOK_crc8l_init_entry  VERIF_TBL_ENTRY_L(unsigned char)
#define VERIF_HOOK_crc16m_init_entry VERIF_TBL_ENTRY_M(unsigned short, 16, 0x8000u)
#define VERIF_HOOK_crc16l_init_entry VERIF_TBL_ENTRY_L(unsigned short)
#define VERIF_HOOK_crc32m_init_entry VERIF_TBL_ENTRY_M(unsigned int, 32, 0x80000000u)
#define VERIF_HOOK_crc32l_init_entry VERIF_TBL_ENTRY_L(unsigned int)
#define VERIF_HOOK_crc64m_init_entry VERIF_TBL_ENTRY_M(unsigned long, 64, 0x8000000000000000ul)
#define VERIF_HOOK_crc64l_init_entry VERIF_TBL_ENTRY_L(unsigned long)
#else
#define VERIF_HOOK_crc8m_init_entry
#define VERIF_HOOK_crc8l_init_entry
#define VERIF_HOOK_crc16m_init_entry
#define VERIF_HOOK_crc16l_init_entry
#define VERIF_HOOK_crc32m_init_entry
#define VERIF_HOOK_crc32l_init_entry
#define VERIF_HOOK_crc64m_init_entry
#define VERIF_HOOK_crc64l_init_entry
#endif

/* ---- Newton start value (C19): first arrival at the iteration head ---- */
#ifdef VERIF_SQRT_START
#define VERIF_HOOK_u32_sqrt_iter { __CPROVER_assert(x1 >= 1 && x / (x1 + 1) < x1 + 1, "sqrt32 start value is not below the root: x < (x1+1)^2"); __CPROVER_assert((unsigned long)x0 * 0 + (unsigned long)x1 <= 65536ul, "sqrt32 start value fits"); __CPROVER_assume(0); }
#define VERIF_HOOK_u64_sqrt_iter { __CPROVER_assert(x1 >= 1 && x / (x1 + 1) < x1 + 1, "sqrt64 start value is not below the root: x < (x1+1)^2"); __CPROVER_assert(x1 <= 4294967296ul, "sqrt64 start value fits"); __CPROVER_assume(0); }
#else
#define VERIF_HOOK_u32_sqrt_iter
#define VERIF_HOOK_u64_sqrt_iter
#endif

/* ---- loop-head cuts of the red-black fix-up loops (C02) ---- */
#ifdef VERIF_RBT_CUT
extern int verif_arrivals;
void verif_rbt_insert_head(void *root, void *node, void *parent);
void verif_rbt_remove_head(void *root, void *node, void *parent);
#define VERIF_HOOK_rbt_insert_adjust_head verif_rbt_insert_head(root, node, parent);
#define VERIF_HOOK_rbt_remove_adjust_head verif_rbt_remove_head(root, node, parent);
#else
#define VERIF_HOOK_rbt_insert_adjust_head
#define VERIF_HOOK_rbt_remove_adjust_head
#endif

#endif /* VERIF_HOOKS_H */
