/* Definitions of the A_VERIF_HOOK(<name>) sites of /repo (guard LIBA_VERIF).  Passed with -include.
   A hook expands at its site, so it may name the surrounding locals of the repository function.
   Every hook is empty unless the unit switches it on with a -D flag. */
#ifndef VERIF_HOOKS_H
#define VERIF_HOOKS_H

/* ---- ghost fold (C17): reference step on ghost state, reading the *parameter* pdata ---- */
#ifdef VERIF_FOLD
extern unsigned long verif_g;   /* ghost accumulator: left fold of the reference step */
extern unsigned long verif_i;   /* ghost index: number of bytes folded so far */
#define VERIF_BYTE(base) (((const unsigned char *)(base))[verif_i])
#define VERIF_HOOK_crc8_step   { verif_g = (unsigned char)table[(unsigned char)(verif_g ^ VERIF_BYTE(pdata))]; ++verif_i; }
#define VERIF_HOOK_crc16m_step { verif_g = (unsigned short)(((unsigned short)verif_g << 8) ^ table[(((unsigned short)verif_g >> 8) ^ VERIF_BYTE(pdata)) & 0xFF]); ++verif_i; }
#define VERIF_HOOK_crc16l_step { verif_g = (unsigned short)(((unsigned short)verif_g >> 8) ^ table[((unsigned short)verif_g ^ VERIF_BYTE(pdata)) & 0xFF]); ++verif_i; }
#define VERIF_HOOK_crc32m_step { verif_g = (unsigned int)(((unsigned int)verif_g << 8) ^ table[(((unsigned int)verif_g >> 24) ^ VERIF_BYTE(pdata)) & 0xFF]); ++verif_i; }
#define VERIF_HOOK_crc32l_step { verif_g = (unsigned int)(((unsigned int)verif_g >> 8) ^ table[((unsigned int)verif_g ^ VERIF_BYTE(pdata)) & 0xFF]); ++verif_i; }
#define VERIF_HOOK_crc64m_step { verif_g = (verif_g << 8) ^ table[((verif_g >> 56) ^ VERIF_BYTE(pdata)) & 0xFF]; ++verif_i; }
#define VERIF_HOOK_crc64l_step { verif_g = (verif_g >> 8) ^ table[(verif_g ^ VERIF_BYTE(pdata)) & 0xFF]; ++verif_i; }
#define VERIF_HOOK_hash_bkdr_step  { verif_g = (unsigned int)((unsigned int)verif_g * 131u + VERIF_BYTE(str_)); ++verif_i; }
#define VERIF_HOOK_hash_bkdr__step { verif_g = (unsigned int)((unsigned int)verif_g * 131u + VERIF_BYTE(ptr_)); ++verif_i; }
#define VERIF_HOOK_hash_sdbm_step  { verif_g = (unsigned int)((unsigned int)verif_g * 65599u + VERIF_BYTE(str_)); ++verif_i; }
#define VERIF_HOOK_hash_sdbm__step { verif_g = (unsigned int)((unsigned int)verif_g * 65599u + VERIF_BYTE(ptr_)); ++verif_i; }
#else
#define VERIF_HOOK_crc8_step
#define VERIF_HOOK_crc16m_step
#define VERIF_HOOK_crc16l_step
#define VERIF_HOOK_crc32m_step
#define VERIF_HOOK_crc32l_step
#define VERIF_HOOK_crc64m_step
#define VERIF_HOOK_crc64l_step
#define VERIF_HOOK_hash_bkdr_step
#define VERIF_HOOK_hash_bkdr__step
#define VERIF_HOOK_hash_sdbm_step
#define VERIF_HOOK_hash_sdbm__step
#endif

/* ---- Newton start value (C19): first arrival at the iteration head ---- */
#ifdef VERIF_SQRT_START
#define VERIF_HOOK_u32_sqrt_iter { __CPROVER_assert(x1 >= 1 && x / (x1 + 1) < x1 + 1, "sqrt32 start value is not below the root: x < (x1+1)^2"); __CPROVER_assert((unsigned long)x0 * 0 + (unsigned long)x1 <= 65536ul, "sqrt32 start value fits"); __CPROVER_assume(0); }
#define VERIF_HOOK_u64_sqrt_iter { __CPROVER_assert(x1 >= 1 && x / (x1 + 1) < x1 + 1, "sqrt64 start value is not below the root: x < (x1+1)^2"); __CPROVER_assert(x1 <= 4294967296ul, "sqrt64 start value fits"); __CPROVER_assume(0); }
#else
#define VERIF_HOOK_u32_sqrt_iter
#define VERIF_HOOK_u64_sqrt_iter
#endif

/* ---- loop-head cuts of the red-black fix-up loops (C02) ---- */
#ifdef VERIF_RBT_CUT
extern int verif_arrivals;
void verif_rbt_insert_head(void *root, void *node, void *parent);
void verif_rbt_remove_head(void *root, void *node, void *parent);
#define VERIF_HOOK_rbt_insert_adjust_head verif_rbt_insert_head(root, node, parent);
#define VERIF_HOOK_rbt_remove_adjust_head verif_rbt_remove_head(root, node, parent);
#else
#define VERIF_HOOK_rbt_insert_adjust_head
#define VERIF_HOOK_rbt_remove_adjust_head
#endif

#endif /* VERIF_HOOKS_H */
