/* Reference byte steps of the table-driven CRCs and hashes (shared by the ghost-fold hooks and the
   step lemmas) and the bit-by-bit definition the property refers to. T is a table-lookup macro. */
#ifndef VERIF_CRC_SPEC_H
#define VERIF_CRC_SPEC_H
#define CRC8_STEP(v, b, T)   ((unsigned char)T((unsigned char)((unsigned char)(v) ^ (unsigned char)(b))))
#define CRC16M_STEP(v, b, T) ((unsigned short)(((unsigned short)(v) << 8) ^ T(((((unsigned short)(v)) >> 8) ^ (unsigned char)(b)) & 0xFF)))
#define CRC16L_STEP(v, b, T) ((unsigned short)(((unsigned short)(v) >> 8) ^ T(((unsigned short)(v) ^ (unsigned char)(b)) & 0xFF)))
#define CRC32M_STEP(v, b, T) ((unsigned int)(((unsigned int)(v) << 8) ^ T(((((unsigned int)(v)) >> 24) ^ (unsigned char)(b)) & 0xFF)))
#define CRC32L_STEP(v, b, T) ((unsigned int)(((unsigned int)(v) >> 8) ^ T(((unsigned int)(v) ^ (unsigned char)(b)) & 0xFF)))
#define CRC64M_STEP(v, b, T) ((unsigned long)(((unsigned long)(v) << 8) ^ T(((((unsigned long)(v)) >> 56) ^ (unsigned char)(b)) & 0xFF)))
#define CRC64L_STEP(v, b, T) ((unsigned long)(((unsigned long)(v) >> 8) ^ T(((unsigned long)(v) ^ (unsigned char)(b)) & 0xFF)))
#define BKDR_STEP(v, b) ((unsigned int)((unsigned int)(v) * 131u + (unsigned char)(b)))
#define SDBM_STEP(v, b) ((unsigned int)((unsigned int)(v) * 65599u + (unsigned char)(b)))
#endif
