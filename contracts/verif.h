/* shared vocabulary of the harness translation units */
#ifndef VERIF_H
#define VERIF_H
#include <stddef.h>
#include <stdint.h>
#include <stdlib.h>

unsigned char nondet_u8(void);
unsigned short nondet_u16(void);
unsigned int nondet_u32(void);
unsigned long nondet_u64(void);
int nondet_int(void);
long nondet_long(void);
size_t nondet_size(void);
double nondet_double(void);
float nondet_float(void);
_Bool nondet_bool(void);
void *nondet_ptr(void);

/* ND(T, name, kind): a symbolic input.  Under cbmc it is nondeterministic; in a native replay build
   (-DVERIF_NATIVE) it takes the value cbmc's counterexample gave to the variable of that name. */
#ifndef VERIF_NATIVE
#define ND(T, name, kind) T name = (T)nondet_##kind()
#define ND_SET(lhs, name, kind) lhs = nondet_##kind()
#define ND_ARR(lhs, arr, k, kind) lhs = nondet_##kind() /* element k of a symbolic array; store it into arr[k] as well */
#else
#include "replay/rp.h"
#include <stdio.h>
static int verif_failed;
static double rp_nd_double(const char *n) { return rp_f64(n, 0); }
static float rp_nd_float(const char *n) { return (float)rp_f64(n, 0); }
static unsigned long rp_nd_u64(const char *n) { return rp_u64(n, 0); }
static unsigned int rp_nd_u32(const char *n) { return (unsigned int)rp_u64(n, 0); }
static unsigned short rp_nd_u16(const char *n) { return (unsigned short)rp_u64(n, 0); }
static unsigned char rp_nd_u8(const char *n) { return (unsigned char)rp_u64(n, 0); }
static int rp_nd_int(const char *n) { return (int)rp_i64(n, 0); }
static long rp_nd_long(const char *n) { return (long)rp_i64(n, 0); }
static size_t rp_nd_size(const char *n) { return (size_t)rp_u64(n, 0); }
static _Bool rp_nd_bool(const char *n) { return rp_u64(n, 0) != 0; }
#define ND(T, name, kind) T name = (T)rp_nd_##kind(#name)
#define ND_SET(lhs, name, kind) lhs = rp_nd_##kind(#name)
#define ND_ARR(lhs, arr, k, kind) lhs = rp_arr_u64(#arr, (int)(k), 0) /* integer arrays only */
#define VERIF_CANARY() do { if (verif_failed) { printf("REPLAY CONFIRMED: the real code violates the obligation(s) above for the counterexample input\n"); } } while (0)
#define ASSUME(c) do { if (!(c)) { printf("replay input does not satisfy the precondition %s\n", #c); \
        if (verif_failed) { printf("REPLAY CONFIRMED: the real code violates the obligation(s) above for the counterexample input (a later, unrelated witness precondition is not met)\n"); } \
        exit(verif_failed); } } while (0)
#define ASSERT(c, msg) do { if (!(c)) { printf("OBLIGATION VIOLATED: %s\n", msg); verif_failed = 1; } } while (0)
void VERIF_ENTRY(void);
int main(int argc, char **argv) { rp_init(argc, argv); VERIF_ENTRY(); return verif_failed; }
#endif

#ifndef VERIF_NATIVE
/* vacuity guard: must be reachable (is expected to FAIL); placed after the call under contract */
#define VERIF_CANARY() __CPROVER_assert(0, "VERIF_CANARY reachable")
#define ASSUME(c) __CPROVER_assume(c)
#define ASSERT(c, msg) __CPROVER_assert((c), msg)
#endif /* !VERIF_NATIVE */
#endif
