/* shared vocabulary of the harness translation units */
#ifndef VERIF_H
#define VERIF_H
#include <stddef.h>
#include <stdint.h>
#include <stdlib.h>

unsigned char nondet_u8(void);
unsigned short nondet_u16(void);
unsigned int nondet_u32(void);
unsigned long nondet_u64(void);
int nondet_int(void);
long nondet_long(void);
size_t nondet_size(void);
double nondet_double(void);
float nondet_float(void);
_Bool nondet_bool(void);
void *nondet_ptr(void);

/* vacuity guard: must be reachable (is expected to FAIL); placed after the call under contract */
#define VERIF_CANARY() __CPROVER_assert(0, "VERIF_CANARY reachable")
#define ASSUME(c) __CPROVER_assume(c)
#define ASSERT(c, msg) __CPROVER_assert((c), msg)
#endif
