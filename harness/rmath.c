/* C11: real helpers and reductions of /repo/src/math.c.
   Verification build: every A_HAVE_* switch is off, so a_real_asinh/acosh/atanh/expm1/log1p/atan2 and
   a_real_hypot (= a_real_norm2) are the library's own fallback bodies.  libm (atan, log, sqrt, exp, sin, cos) is
   replaced by assumed contracts (stubs below) that are deterministic through a small ghost memo.
   Arrays are exactly sized heap blocks (any access outside is a pointer-check failure); contents are compared
   bit for bit where data is only moved. */
#include "contracts/verif.h"
#include "a/math.h"
#include <math.h>

#define ISNAN(x) ((x) != (x))
#define FINITE(x) ((x) - (x) == 0)
#define ISINF(x) (!ISNAN(x) && !FINITE(x))
#define BITS(lv) (*(a_u64 const *)&(lv))
/* identical up to the NaN payload; written with comparisons and the sign bit (not with a bit cast) so that cvc5 sees
   that a term is identical to itself */
#define SAMEB(a, b) (((a) == (b) && !__builtin_signbit(a) == !__builtin_signbit(b)) || (ISNAN(a) && ISNAN(b)))
#define PZERO(a) ((a) == 0 && !__builtin_signbit(a))

#ifndef VERIF_NATIVE
/* ---- assumed contracts of libm: what ISO C (Annex F) guarantees and the callers need.  Each libm function is an
        uninterpreted function of its argument (two calls with the same argument agree: a mathematical function)
        whose value at every argument it is called with is constrained by the contract ---- */
#define STUB(name, CONTRACT)                                                                               \
    double __CPROVER_uninterpreted_##name(double);                                                         \
    double name(double x)                                                                                  \
    {                                                                                                      \
        double r = __CPROVER_uninterpreted_##name(x);                                                      \
        STUB_ASSUME(CONTRACT);                                                                             \
        return r;                                                                                          \
    }
#ifdef VERIF_LIBM_ANY /* memory-safety units: any value may come back (the floating-point part is then sliced away) */
#define STUB_ASSUME(c) (void)0
#else
#define STUB_ASSUME(c) __CPROVER_assume(c)
#endif
#define ZERO_LIKE(r, x) ((r) == 0 && !__builtin_signbit(r) == !__builtin_signbit(x))
/* atan: range [-pi/2, pi/2] (as doubles), sign follows the argument, atan(+-0) = +-0 */
STUB(atan, ISNAN(x) ? ISNAN(r) : x > 0 ? (0 < r && r <= A_REAL_PI_2) : x < 0 ? (-A_REAL_PI_2 <= r && r < 0) : ZERO_LIKE(r, x))
/* log: NaN for negative, -inf at 0, +0 at 1, sign on either side of 1, finite for finite positive, +inf at +inf */
STUB(log, ISNAN(x) ? ISNAN(r) : x < 0 ? ISNAN(r) : x == 0 ? (r < 0 && !FINITE(r)) : x == 1 ? (r == 0 && !__builtin_signbit(r))
     : !FINITE(x) ? (r > 0 && !FINITE(r)) : x > 1 ? (r > 0 && r <= 1024) : (r < 0 && r >= -1100))
/* sqrt: NaN for negative, sqrt(+-0) = +-0, +inf at +inf, otherwise finite, positive, on the same side of 1 */
STUB(sqrt, ISNAN(x) ? ISNAN(r) : x < 0 ? ISNAN(r) : x == 0 ? ZERO_LIKE(r, x) : !FINITE(x) ? (r > 0 && !FINITE(r))
     : x >= 1 ? (1 <= r && r <= x) : (x <= r && r < 1))
STUB(exp, ISNAN(x) ? ISNAN(r) : (r >= 0 && (x > 0 || r <= 1) && (x < 0 || r >= 1) && (FINITE(r) || x > 0)))
STUB(sin, (ISNAN(x) || !FINITE(x)) ? ISNAN(r) : (-1 <= r && r <= 1))
STUB(cos, (ISNAN(x) || !FINITE(x)) ? ISNAN(r) : (-1 <= r && r <= 1))
#endif

#include "src/a.c"
#include "src/math.c"

#define EACH(k, n, lo, hi) for (k = (lo); k <= (hi); ++k) if ((n) == k)
#ifdef VERIF_NATIVE
#define RELEASE(p) free((void *)(p))
#else
#define RELEASE(p) (void)(p)
#endif
/* exactly sized block of cnt reals (cnt concrete on the path; cnt == 0: one byte, every a_real access is outside) */
static a_real *block(a_size cnt)
{
    a_real *p;
    if (cnt) { p = (a_real *)malloc(sizeof(a_real) * cnt); } else { p = (a_real *)malloc(1); }
    ASSUME(p != 0);
    return p;
}
#define NC 10 /* cells of the largest block: (4-1)*3+1 */
#define DECLV(v) ND(a_real, v##0, double); ND(a_real, v##1, double); ND(a_real, v##2, double); ND(a_real, v##3, double); ND(a_real, v##4, double); \
    ND(a_real, v##5, double); ND(a_real, v##6, double); ND(a_real, v##7, double); ND(a_real, v##8, double); ND(a_real, v##9, double); \
    a_real v[NC]; v[0] = v##0; v[1] = v##1; v[2] = v##2; v[3] = v##3; v[4] = v##4; v[5] = v##5; v[6] = v##6; v[7] = v##7; v[8] = v##8; v[9] = v##9
#define DECLI(v, m) ND(int, v##0, int); ND(int, v##1, int); ND(int, v##2, int); ND(int, v##3, int); ND(int, v##4, int); \
    ND(int, v##5, int); ND(int, v##6, int); ND(int, v##7, int); ND(int, v##8, int); ND(int, v##9, int); \
    ASSUME(-(m) <= v##0 && v##0 <= (m) && -(m) <= v##1 && v##1 <= (m) && -(m) <= v##2 && v##2 <= (m) && -(m) <= v##3 && v##3 <= (m) && -(m) <= v##4 && v##4 <= (m)); \
    ASSUME(-(m) <= v##5 && v##5 <= (m) && -(m) <= v##6 && v##6 <= (m) && -(m) <= v##7 && v##7 <= (m) && -(m) <= v##8 && v##8 <= (m) && -(m) <= v##9 && v##9 <= (m)); \
    a_real v[NC]; v[0] = v##0; v[1] = v##1; v[2] = v##2; v[3] = v##3; v[4] = v##4; v[5] = v##5; v[6] = v##6; v[7] = v##7; v[8] = v##8; v[9] = v##9
static void load(a_real *p, a_real const *v, a_size cnt)
{
    a_size k;
    for (k = 0; k < NC; ++k) { if (k < cnt) { p[k] = v[k]; } }
}
#define CELLS(n, c) ((n) ? ((n) - 1) * (c) + 1 : 0) /* tight block for n entries with stride c */

/* ================= two-argument arctangent (fallback body) ================= */
/* ---- [P] axis / quadrant logic for all non-NaN inputs that are not both infinite ---- */
void h_rm_atan2(void)
{
    ND(a_real, vy, double); ND(a_real, vx, double);
    a_real r = a_real_atan2(vy, vx);
    if (!ISNAN(vx) && !ISNAN(vy) && !(ISINF(vx) && ISINF(vy)))
    {
        if (vx > 0)
        {
#ifndef VERIF_NATIVE
            a_real q = atan(vy / vx);
#else
            a_real q = r;
#endif
            ASSERT(SAMEB(r, q), "atan2: x > 0 gives atan(y/x)");
            ASSERT(-A_REAL_PI_2 <= r && r <= A_REAL_PI_2, "atan2: x > 0 lies in [-pi/2, pi/2]");
            if (vy > 0) { ASSERT(r >= 0, "atan2: first quadrant is non-negative"); }
            if (vy < 0) { ASSERT(r <= 0, "atan2: fourth quadrant is non-positive"); }
            if (vy == 0) { ASSERT(r == 0, "atan2: positive x axis gives 0"); }
        }
        if (vx < 0 && vy >= 0) { ASSERT(A_REAL_PI_2 <= r && r <= A_REAL_PI, "atan2: x < 0, y >= 0 lies in [pi/2, pi]"); }
        if (vx < 0 && vy < 0) { ASSERT(-A_REAL_PI <= r && r <= -A_REAL_PI_2, "atan2: x < 0, y < 0 lies in [-pi, -pi/2]"); }
        if (vx < 0 && vy == 0) { ASSERT(r == A_REAL_PI, "atan2: negative x axis gives pi"); }
        if (vx == 0 && vy > 0) { ASSERT(r == A_REAL_PI_2, "atan2: positive y axis gives exactly +pi/2"); }
        if (vx == 0 && vy < 0) { ASSERT(r == -A_REAL_PI_2, "atan2: negative y axis gives exactly -pi/2"); }
        if (vx == 0 && vy == 0) { ASSERT(r == 0, "atan2: origin gives 0"); }
        ASSERT(!ISNAN(r) && -A_REAL_PI <= r && r <= A_REAL_PI, "atan2: result in [-pi, pi], never NaN");
    }
    VERIF_CANARY();
}

/* ================= inverse hyperbolic functions, expm1, log1p (fallback bodies): branch structure ================= */
#define SQEPS A_REAL_SQRT_EPSILON
void h_rm_asinh(void)
{
    ND(a_real, vx, double);
    a_real r = a_real_asinh(vx);
    a_real rn = a_real_asinh(-vx);
    a_real mr = -r;
    ASSERT(SAMEB(rn, mr), "asinh: odd, asinh(-x) = -asinh(x) in every branch");
    if (ISNAN(vx)) { ASSERT(ISNAN(r), "asinh: NaN in, NaN out"); }
    if (-SQEPS <= vx && vx <= SQEPS) { ASSERT(SAMEB(r, vx), "asinh: tiny arguments (|x| <= sqrt(eps)) pass through, signed zero included"); }
    if (vx > 0 && !FINITE(vx)) { ASSERT(r > 0 && !FINITE(r), "asinh: +inf gives +inf"); }
    VERIF_CANARY();
}
#ifndef VERIF_NATIVE
/* which formula in which range (the published range split), in terms of |x| and the sign of x */
void h_rm_asinh_branches(void)
{
    ND(a_real, vx, double);
    a_real r = a_real_asinh(vx);
    a_real a = fabs(vx), sg = vx < 0 ? -1 : 1;
    if (a > 1 / SQEPS) { a_real e = sg * (log(a) + A_REAL_LN2); ASSERT(SAMEB(r, e), "asinh: |x| > 1/sqrt(eps): sign(x) (log|x| + ln 2)"); }
    if (vx > 1 / SQEPS) { ASSERT(r > 0, "asinh: positive for huge positive x"); }
    if (vx < -1 / SQEPS) { ASSERT(r < 0, "asinh: negative for huge negative x"); }
    if (a > 2 && a <= 1 / SQEPS) { a_real e = sg * log(1 / (sqrt(a * a + 1) + a) + a * 2); ASSERT(SAMEB(r, e), "asinh: 2 < |x| <= 1/sqrt(eps): sign(x) log(2|x| + 1/(sqrt(x^2+1)+|x|))"); }
    if (a > SQEPS && a <= 2) { a_real xx = a * a; a_real e = sg * a_real_log1p(xx / (sqrt(xx + 1) + 1) + a); ASSERT(SAMEB(r, e), "asinh: sqrt(eps) < |x| <= 2: sign(x) log1p(|x| + x^2/(1+sqrt(1+x^2)))"); }
    VERIF_CANARY();
}
#endif
void h_rm_acosh(void)
{
    ND(a_real, vx, double);
    a_real r = a_real_acosh(vx);
    if (vx < 1) { ASSERT(ISNAN(r), "acosh: NaN below 1"); }
    if (vx == 1) { ASSERT(PZERO(r), "acosh: acosh(1) = +0"); }
    if (ISNAN(vx)) { ASSERT(ISNAN(r), "acosh: NaN in, NaN out"); }
    if (vx > 1 && !FINITE(vx)) { ASSERT(r > 0 && !FINITE(r), "acosh: +inf gives +inf"); }
#ifndef VERIF_NATIVE
    if (vx > 1 / SQEPS) { a_real e = log(vx) + A_REAL_LN2; ASSERT(SAMEB(r, e), "acosh: huge branch is log(x) + ln 2"); ASSERT(r > 0, "acosh: positive for huge x"); }
    if (vx > 2 && vx <= 1 / SQEPS) { a_real e = log(-1 / (sqrt(vx * vx - 1) + vx) + vx * 2); ASSERT(SAMEB(r, e), "acosh: large branch is log(2x - 1/(sqrt(x^2-1)+x))"); }
    if (vx > 1 && vx <= 2) { a_real t = vx - 1; a_real e = a_real_log1p(sqrt(t * t + t * 2) + t); ASSERT(SAMEB(r, e), "acosh: branch near 1 is log1p(t + sqrt(2t + t^2)), t = x-1"); }
#endif
    VERIF_CANARY();
}
void h_rm_atanh(void)
{
    ND(a_real, vx, double);
    a_real r = a_real_atanh(vx);
    a_real rn = a_real_atanh(-vx);
    a_real mr = -r;
    ASSERT(SAMEB(rn, mr), "atanh: odd, atanh(-x) = -atanh(x) in every branch");
    if (vx > 1 || vx < -1) { ASSERT(ISNAN(r), "atanh: NaN outside [-1, 1]"); }
    if (vx == 1) { ASSERT(r > 0 && !FINITE(r), "atanh: atanh(1) = +inf"); }
    if (vx == -1) { ASSERT(r < 0 && !FINITE(r), "atanh: atanh(-1) = -inf"); }
    if (ISNAN(vx)) { ASSERT(ISNAN(r), "atanh: NaN in, NaN out"); }
    if (-A_REAL_EPSILON <= vx && vx <= A_REAL_EPSILON) { ASSERT(SAMEB(r, vx), "atanh: tiny arguments (|x| <= eps) pass through, signed zero included"); }
    VERIF_CANARY();
}
#ifndef VERIF_NATIVE
void h_rm_atanh_branches(void)
{
    ND(a_real, vx, double);
    a_real r = a_real_atanh(vx);
    a_real a = fabs(vx), sg = vx < 0 ? A_REAL_C(-0.5) : A_REAL_C(0.5);
    if (a >= A_REAL_C(0.5) && a < 1) { a_real e = sg * a_real_log1p((a + a) / (1 - a)); ASSERT(SAMEB(r, e), "atanh: 1/2 <= |x| < 1: sign(x) log1p(2|x|/(1-|x|))/2"); }
    if (a > A_REAL_EPSILON && a < A_REAL_C(0.5)) { a_real e = sg * a_real_log1p((a + a) * (a / (1 - a) + 1)); ASSERT(SAMEB(r, e), "atanh: eps < |x| < 1/2: sign(x) log1p(2|x| + 2x^2/(1-|x|))/2"); }
    VERIF_CANARY();
}
#endif
void h_rm_expm1_log1p(void)
{
    ND(a_real, vx, double);
    a_real e = a_real_expm1(vx);
    a_real l = a_real_log1p(vx);
    if (ISNAN(vx)) { ASSERT(ISNAN(e) && ISNAN(l), "expm1/log1p: NaN in, NaN out"); }
    if (vx > 0 && !FINITE(vx)) { ASSERT(e > 0 && !FINITE(e) && l > 0 && !FINITE(l), "expm1/log1p: +inf gives +inf"); }
    if (vx < 0 && !FINITE(vx)) { ASSERT(e == -1, "expm1: -inf gives -1"); }
    if (vx == 0) { ASSERT(SAMEB(e, vx), "expm1: expm1(+-0) = +-0"); ASSERT(l == 0, "log1p: log1p(0) = 0"); }
    if (vx == -1) { ASSERT(l < 0 && !FINITE(l), "log1p: log1p(-1) = -inf"); }
    if (vx < -1) { ASSERT(ISNAN(l), "log1p: NaN below -1"); }
    if (FINITE(vx)) { ASSERT(!ISNAN(e) || vx > 700, "expm1: a number for finite arguments"); }
#ifndef VERIF_NATIVE
    if (FINITE(vx) && (vx < -A_REAL_C(0.5) || vx > A_REAL_C(0.5))) { a_real t = exp(vx) - 1; ASSERT(SAMEB(e, t), "expm1: outside [-1/2, 1/2] it is exp(x) - 1"); ASSERT(e >= -1, "expm1: never below -1"); }
    if (vx >= A_REAL_EPSILON) { a_real s = vx + 1; a_real t = log(s); ASSERT(SAMEB(l, t), "log1p: no correction term for x >= eps: log(1 + x)"); }
#endif
    VERIF_CANARY();
}

/* ================= Euclidean norms ================= */
/* ---- [P] norm2 (= the fallback hypot) and norm3: sign, NaN, infinity and zero behaviour; depends on magnitudes only ---- */
void h_rm_norm2(void)
{
    ND(a_real, vx, double); ND(a_real, vy, double);
    a_real r = a_real_norm2(vx, vy);
    if (ISINF(vx) || ISINF(vy)) { ASSERT(r > 0 && !FINITE(r), "norm2: +inf if a component is infinite (even if the other is NaN)"); }
    if (FINITE(vx) && FINITE(vy))
    {
        ASSERT(!ISNAN(r), "norm2: NaN only if an input is NaN");
        ASSERT(r >= 0, "norm2: never negative");
        if (vx == 0 && vy == 0) { ASSERT(PZERO(r), "norm2: zero vector gives +0"); }
    }
    a_real r2 = a_real_norm2(vy, -vx);
    ASSERT(SAMEB(r, r2) || ISNAN(vx) || ISNAN(vy), "norm2: symmetric and independent of the signs");
    VERIF_CANARY();
}
void h_rm_norm3(void)
{
    ND(a_real, vx, double); ND(a_real, vy, double); ND(a_real, vz, double);
    a_real r = a_real_norm3(vx, vy, vz);
    if (ISINF(vx) || ISINF(vy) || ISINF(vz)) { ASSERT(r > 0 && !FINITE(r), "norm3: +inf if a component is infinite"); }
    if (FINITE(vx) && FINITE(vy) && FINITE(vz))
    {
        ASSERT(!ISNAN(r), "norm3: NaN only if an input is NaN");
        ASSERT(r >= 0, "norm3: never negative");
        if (vx == 0 && vy == 0 && vz == 0) { ASSERT(PZERO(r), "norm3: zero vector gives +0"); }
    }
    VERIF_CANARY();
}
/* ---- [B n <= 4, stride 1..3] norm / norm_ on tight blocks: no access outside, array only read (the value is not judged
        here: SAT back end, floating-point part sliced away); gap cells between strided entries are arbitrary ---- */
static void norm_mem_nc(a_size n, a_size c, int strided, a_size w, a_real const *v)
{
    a_size cells = CELLS(n, c);
    a_real *p = block(cells);
    load(p, v, cells);
    a_real r = strided ? a_real_norm_(n, p, c) : a_real_norm(n, p);
    (void)r;
    if (w < cells) { ASSERT(BITS(p[w]) == BITS(v[w]), "norm: the array is only read (witness cell)"); }
    RELEASE(p);
}
void h_rm_norm_mem(void)
{
    ND(a_size, vn, size); ND(a_size, vc, size); ND(_Bool, strided, bool); ND(a_size, vw, size);
    a_size k, j;
    DECLV(v);
    ASSUME(vn <= 4 && 1 <= vc && vc <= 3 && (strided || vc == 1));
    EACH(k, vn, 0, 4) EACH(j, vc, 1, 3) { norm_mem_nc(k, j, strided, vw, v); }
    VERIF_CANARY();
}
/* ---- [B n <= 3] norm / norm_ values: infinity, NaN, sign and zero behaviour.  -DCD=c selects a_real_norm_ with
        stride c, otherwise a_real_norm ---- */
static void norm_val_nc(a_size n, a_size c, int strided, a_real const *v)
{
    a_size cells = CELLS(n, c), k;
    a_real *p = block(cells);
    load(p, v, cells);
    a_real r = strided ? a_real_norm_(n, p, c) : a_real_norm(n, p);
    int any_inf = 0, all_fin = 1, all_zero = 1;
    for (k = 0; k < 3; ++k)
    {
        if (k < n)
        {
            a_real e = v[k * c];
            if (ISINF(e)) { any_inf = 1; }
            if (!FINITE(e)) { all_fin = 0; }
            if (!(e == 0)) { all_zero = 0; }
        }
    }
    if (any_inf) { ASSERT(r > 0 && !FINITE(r), "norm: +inf if a selected entry is infinite"); }
    if (all_fin) { ASSERT(!ISNAN(r), "norm: NaN only if a selected entry is NaN"); ASSERT(r >= 0, "norm: never negative"); }
    if (all_zero) { ASSERT(PZERO(r), "norm: zero vector (and n == 0) gives +0"); }
    ASSERT(r >= 0 || ISNAN(r), "norm: non-negative or NaN for arbitrary contents");
    RELEASE(p);
}
void h_rm_norm_val(void)
{
    ND(a_size, vn, size);
    a_size k;
    DECLV(v);
    ASSUME(vn <= 3);
#ifdef CD
    EACH(k, vn, 0, 3) { norm_val_nc(k, CD, 1, v); }
#else
    EACH(k, vn, 0, 3) { norm_val_nc(k, 1, 0, v); }
#endif
    VERIF_CANARY();
}

/* ================= reductions: left fold on the exact domain ================= */
/* integers |v| <= 2^10, n <= 6 (strided: n <= 4, strides 1..3): sums, absolute sums, sums of squares, products are exact.
   The references are the defining left folds, written independently of src/math.c. */
#define FOLD(r, n, EXPR) { a_size k_; r = 0; for (k_ = 0; k_ < 6; ++k_) { if (k_ < (n)) { a_size i = k_; r += (EXPR); } } }
static void fold_n(a_size n, a_real const *v, a_real const *u)
{
    a_real *p = block(n), *q = block(n), e;
    load(p, v, n); load(q, u, n);
    FOLD(e, n, v[i]); ASSERT(a_real_sum(n, p) == e, "sum: left fold of the entries (0 for n == 0)");
    FOLD(e, n, (v[i] < 0 ? -v[i] : v[i])); ASSERT(a_real_sum1(n, p) == e, "sum1: left fold of the magnitudes");
    FOLD(e, n, v[i] * v[i]); ASSERT(a_real_sum2(n, p) == e, "sum2: left fold of the squares");
    FOLD(e, n, v[i] * (1 / (a_real)n)); ASSERT(a_real_mean(n, p) == e, "mean: left fold of entry * (1/n) (0 for n == 0)");
    FOLD(e, n, v[i] * u[i]); ASSERT(a_real_dot(n, p, q) == e, "dot: left fold of the products");
    RELEASE(p); RELEASE(q);
}
void h_rm_fold(void)
{
    ND(a_size, vn, size);
    a_size k;
    DECLI(v, 1024); DECLI(u, 1024);
    ASSUME(vn <= 6);
    EACH(k, vn, 0, 6) { fold_n(k, v, u); }
    VERIF_CANARY();
}
static void fold_nc(a_size n, a_size c, a_size d, a_real const *v, a_real const *u)
{
    a_real *p = block(CELLS(n, c)), *q = block(CELLS(n, d)), e;
    load(p, v, CELLS(n, c)); load(q, u, CELLS(n, d));
    FOLD(e, n, v[i * c]); ASSERT(a_real_sum_(n, p, c) == e, "sum_: left fold of every c-th entry");
    FOLD(e, n, (v[i * c] < 0 ? -v[i * c] : v[i * c])); ASSERT(a_real_sum1_(n, p, c) == e, "sum1_: left fold of the magnitudes of every c-th entry");
    FOLD(e, n, v[i * c] * v[i * c]); ASSERT(a_real_sum2_(n, p, c) == e, "sum2_: left fold of the squares of every c-th entry");
    FOLD(e, n, v[i * c] * (1 / (a_real)n)); ASSERT(a_real_mean_(n, p, c) == e, "mean_: left fold of every c-th entry * (1/n)");
    FOLD(e, n, v[i * c] * u[i * d]); ASSERT(a_real_dot_(n, p, c, q, d) == e, "dot_: left fold of X[i*Xc] * Y[i*Yc]");
    RELEASE(p); RELEASE(q);
}
void h_rm_fold_strided(void)
{
    ND(a_size, vn, size); ND(a_size, vc, size); ND(a_size, vd, size);
    a_size k, j, l;
    DECLI(v, 1024); DECLI(u, 1024);
    ASSUME(vn <= 4 && 1 <= vc && vc <= 3 && 1 <= vd && vd <= 3);
#ifdef CD
    ASSUME(vc == CD);
#endif
    EACH(k, vn, 0, 4) EACH(j, vc, 1, 3) EACH(l, vd, 1, 3) { fold_nc(k, j, l, v, u); }
    VERIF_CANARY();
}
/* ---- [B, concrete vectors] the same folds for fixed integer vectors, all n <= 6 / strides 1..3: a test that backs the
        two units above (their proof rests on code and reference building the same terms; for a wrong formula the
        solver may not produce a counterexample in time, constant folding does) ---- */
void h_rm_fold_spot(void)
{
    static a_real const V[NC] = {3, -5, 7, 11, -13, 17, 19, -23, 29, 31}, W[NC] = {-2, 37, 41, -43, 47, 53, -59, 61, 67, -71};
    ND(a_size, vn, size); ND(a_size, vc, size); ND(a_size, vd, size);
    a_size k, j, l;
    ASSUME(vn <= 6 && 1 <= vc && vc <= 3 && 1 <= vd && vd <= 3 && (vn <= 4 || (vc == 1 && vd == 1)));
    EACH(k, vn, 0, 6) EACH(j, vc, 1, 3) EACH(l, vd, 1, 3)
    {
        if (j == 1 && l == 1) { fold_n(k, V, W); }
        if (j == 1 && l == 1 && (k == 1 || k == 2 || k == 4))
        {
            a_real *p = block(k), e;
            load(p, V, k);
            FOLD(e, k, V[i]);
            ASSERT(a_real_mean(k, p) == e / (a_real)k, "mean (concrete vector): (sum of the entries)/n exactly for n = 1, 2, 4");
            RELEASE(p);
        }
        if (k <= 4) { fold_nc(k, j, l, V, W); }
    }
    VERIF_CANARY();
}

/* ================= data movement: exact permutation / shift / fill semantics ================= */
/* every cell of every block is judged through the ghost witness cell w: either its documented new value or untouched */
static void copy_n(a_size n, a_size dc, a_size sc, int strided, a_size w, a_real const *v, a_real const *u)
{
    a_size dn = CELLS(n, dc), sn = CELLS(n, sc);
    a_real *dst = block(dn), *src = block(sn);
    load(dst, v, dn); load(src, u, sn);
    if (strided) { a_real_copy_(n, dst, dc, src, sc); } else { a_real_copy(n, dst, src); }
    if (w < dn && w % dc == 0) { ASSERT(BITS(dst[w]) == BITS(u[w / dc * sc]), "copy: destination entry i is source entry i (witness)"); }
    if (w < dn && w % dc != 0) { ASSERT(BITS(dst[w]) == BITS(v[w]), "copy_: cells between the strided destination entries are untouched"); }
    if (w < sn) { ASSERT(BITS(src[w]) == BITS(u[w]), "copy: source untouched"); }
    RELEASE(dst); RELEASE(src);
}
void h_rm_copy(void)
{
    ND(a_size, vn, size); ND(a_size, vc, size); ND(a_size, vd, size); ND(_Bool, strided, bool); ND(a_size, vw, size);
    a_size k, j, l;
    DECLV(v); DECLV(u);
    ASSUME(vn <= 4 && 1 <= vc && vc <= 3 && 1 <= vd && vd <= 3 && (strided || (vc == 1 && vd == 1)));
    EACH(k, vn, 0, 4) EACH(j, vc, 1, 3) EACH(l, vd, 1, 3) { copy_n(k, j, l, strided, vw, v, u); }
    VERIF_CANARY();
}
static void swap_n(a_size n, a_size lc, a_size rc, int strided, a_size w, a_real const *v, a_real const *u)
{
    a_size ln = CELLS(n, lc), rn = CELLS(n, rc);
    a_real *lhs = block(ln), *rhs = block(rn);
    load(lhs, v, ln); load(rhs, u, rn);
    if (strided) { a_real_swap_(n, lhs, lc, rhs, rc); } else { a_real_swap(n, lhs, rhs); }
    if (w < ln && w % lc == 0) { ASSERT(BITS(lhs[w]) == BITS(u[w / lc * rc]), "swap: left entry i is the old right entry i (witness)"); }
    if (w < ln && w % lc != 0) { ASSERT(BITS(lhs[w]) == BITS(v[w]), "swap_: cells between the strided left entries are untouched"); }
    if (w < rn && w % rc == 0) { ASSERT(BITS(rhs[w]) == BITS(v[w / rc * lc]), "swap: right entry i is the old left entry i (witness)"); }
    if (w < rn && w % rc != 0) { ASSERT(BITS(rhs[w]) == BITS(u[w]), "swap_: cells between the strided right entries are untouched"); }
    RELEASE(lhs); RELEASE(rhs);
}
void h_rm_swap(void)
{
    ND(a_size, vn, size); ND(a_size, vc, size); ND(a_size, vd, size); ND(_Bool, strided, bool); ND(a_size, vw, size);
    a_size k, j, l;
    DECLV(v); DECLV(u);
    ASSUME(vn <= 4 && 1 <= vc && vc <= 3 && 1 <= vd && vd <= 3 && (strided || (vc == 1 && vd == 1)));
    EACH(k, vn, 0, 4) EACH(j, vc, 1, 3) EACH(l, vd, 1, 3) { swap_n(k, j, l, strided, vw, v, u); }
    VERIF_CANARY();
}
void h_rm_fill_zero(void)
{
    ND(a_size, vn, size); ND(a_size, vw, size); ND(a_real, val, double);
    a_size k;
    DECLV(v);
    ASSUME(vn <= 8);
    EACH(k, vn, 0, 8)
    {
        a_real *p = block(k), *q = block(k);
        load(p, v, k); load(q, v, k);
        a_real_fill(k, p, val);
        a_real_zero(k, q);
        if (vw < k) { ASSERT(BITS(p[vw]) == BITS(val), "fill: every entry is the value (witness)"); ASSERT(BITS(q[vw]) == 0, "zero: every entry is +0 (witness)"); }
        RELEASE(p); RELEASE(q);
    }
    VERIF_CANARY();
}
/* roll by one: circular */
void h_rm_roll(void)
{
    ND(a_size, vn, size); ND(a_size, vw, size);
    a_size k;
    DECLV(v);
    ASSUME(vn <= 8);
    EACH(k, vn, 0, 8)
    {
        a_real *p = block(k), *q = block(k);
        load(p, v, k); load(q, v, k);
        a_real_roll_fore(p, k);
        a_real_roll_back(q, k);
        if (vw < k)
        {
            ASSERT(BITS(p[vw]) == BITS(v[vw + 1 < k ? vw + 1 : 0]), "roll_fore: entry w is the old entry w+1, the last one is the old first (witness)");
            ASSERT(BITS(q[vw]) == BITS(v[vw >= 1 ? vw - 1 : k - 1]), "roll_back: entry w is the old entry w-1, the first one is the old last (witness)");
        }
        RELEASE(p); RELEASE(q);
    }
    VERIF_CANARY();
}
/* block forms: push the last min(cache_n, block_n) cache entries */
static void pushes_n(a_size bn, a_size cn, a_size w, a_real const *v, a_real const *u)
{
    a_size n = cn < bn ? cn : bn, m = bn - n;
    a_real *pf = block(bn), *pb = block(bn), *cache = block(cn);
    load(pf, v, bn); load(pb, v, bn); load(cache, u, cn);
    a_real_push_fore_(pf, bn, cache, cn);
    a_real_push_back_(pb, bn, cache, cn);
    if (w < bn)
    {
        if (w < n) { ASSERT(BITS(pf[w]) == BITS(u[cn - n + w]), "push_fore_: the block starts with the last min(cache_n, block_n) cache entries (witness)"); }
        else { ASSERT(BITS(pf[w]) == BITS(v[w - n]), "push_fore_: followed by the old entries shifted up (witness)"); }
        if (w < m) { ASSERT(BITS(pb[w]) == BITS(v[w + n]), "push_back_: the old entries shifted down (witness)"); }
        else { ASSERT(BITS(pb[w]) == BITS(u[cn - n + (w - m)]), "push_back_: the block ends with the last min(cache_n, block_n) cache entries (witness)"); }
    }
    if (w < cn) { ASSERT(BITS(cache[w]) == BITS(u[w]), "push_fore_/push_back_: cache untouched"); }
    RELEASE(pf); RELEASE(pb); RELEASE(cache);
}
void h_rm_pushes(void)
{
    ND(a_size, vn, size); ND(a_size, vc, size); ND(a_size, vw, size);
    a_size k, j;
    DECLV(v); DECLV(u);
    ASSUME(vn <= 4 && vc <= 5);
    EACH(k, vn, 0, 4) EACH(j, vc, 0, 5) { pushes_n(k, j, vw, v, u); }
    VERIF_CANARY();
}
/* block forms of roll: circular shift by shift_n mod block_n through a scratch array of shift_n entries */
#ifndef BN_LO
#define BN_LO 1
#endif
static void rolls_n(a_size bn, a_size sn, a_size w, a_real const *v, a_real const *u)
{
    a_real *pf = block(bn), *pb = block(bn), *sf = block(sn), *sb = block(sn);
    load(pf, v, bn); load(pb, v, bn); load(sf, u, sn); load(sb, u, sn);
    a_real_roll_fore_(pf, bn, sf, sn);
    a_real_roll_back_(pb, bn, sb, sn);
    if (w < bn)
    {
        a_size s = sn % bn;
        ASSERT(BITS(pf[w]) == BITS(v[(w + s) % bn]), "roll_fore_: entry w is the old entry (w + shift_n) mod block_n (witness)");
        ASSERT(BITS(pb[w]) == BITS(v[(w + bn - s) % bn]), "roll_back_: entry w is the old entry (w - shift_n) mod block_n (witness)");
    }
    RELEASE(pf); RELEASE(pb); RELEASE(sf); RELEASE(sb);
}
void h_rm_rolls(void)
{
    ND(a_size, vn, size); ND(a_size, vs, size); ND(a_size, vw, size);
    a_size k, j;
    DECLV(v); DECLV(u);
    ASSUME(BN_LO <= vn && vn <= 4 && vs <= 5);
    EACH(k, vn, BN_LO, 4) EACH(j, vs, 0, 5) { rolls_n(k, j, vw, v, u); }
    VERIF_CANARY();
}
/* an empty block: "all lengths" includes block_n == 0 (every other helper accepts n == 0) */
void h_rm_rolls_empty(void)
{
    ND(a_size, vs, size);
    a_size j;
    ASSUME(vs <= 2);
    EACH(j, vs, 0, 2)
    {
        a_real *p = block(0), *q = block(j);
        a_real_roll_fore_(p, 0, q, j);
        a_real_roll_back_(p, 0, q, j);
        RELEASE(p); RELEASE(q);
    }
    ASSERT(1, "roll_fore_/roll_back_: an empty block is accepted");
    VERIF_CANARY();
}

/* ================= coordinate conversions: call protocol ================= */
void h_rm_coord(void)
{
    ND(a_real, vx, double); ND(a_real, vy, double); ND(a_real, vz, double);
    a_real rho, theta, alpha, cx, cy, cz;
    a_real_cart2pol(vx, vy, &rho, &theta);
    {
        a_real h = a_real_norm2(vx, vy), t = a_real_atan2(vy, vx);
        ASSERT(SAMEB(rho, h) && SAMEB(theta, t), "cart2pol: (rho, theta) = (hypot(x, y), atan2(y, x))");
    }
    a_real_cart2sph(vx, vy, vz, &rho, &theta, &alpha);
    {
        a_real h = a_real_norm2(vx, vy), t = a_real_atan2(vy, vx);
        a_real h3 = a_real_norm2(h, vz), al = a_real_atan2(vz, h);
        ASSERT(SAMEB(rho, h3) && SAMEB(theta, t) && SAMEB(alpha, al), "cart2sph: rho = hypot(hypot(x,y), z), theta = atan2(y, x), alpha = atan2(z, hypot(x,y))");
    }
#ifndef VERIF_NATIVE
    a_real_pol2cart(vx, vy, &cx, &cy);
    {
        a_real ex = vx * cos(vy), ey = vx * sin(vy);
        ASSERT(SAMEB(cx, ex) && SAMEB(cy, ey), "pol2cart: (x, y) = (rho cos(theta), rho sin(theta))");
    }
    a_real_sph2cart(vx, vy, vz, &cx, &cy, &cz);
    {
        a_real c = vx * cos(vz), s = vx * sin(vz);
        a_real ex = c * cos(vy), ey = c * sin(vy);
        ASSERT(SAMEB(cx, ex) && SAMEB(cy, ey) && SAMEB(cz, s), "sph2cart: (x, y, z) = (rho cos(alpha) cos(theta), rho cos(alpha) sin(theta), rho sin(alpha))");
    }
#endif
    VERIF_CANARY();
}
