/* C15 (trajectory part): cubic, quintic and septic polynomial trajectories of /repo/src/trajpoly3.c, trajpoly5.c,
   trajpoly7.c (evaluated by the real a_poly_eval_ of /repo/src/poly.c) */
#include "contracts/verif.h"
#include "a/a.h"

#define ISNAN(x) ((x) != (x))
#define BIGC 0x1p1000 /* coefficient magnitude for which the derivative vectors (factors <= 210) cannot overflow */
#define EQ(r, e) ((r) == (e) || (ISNAN(r) && ISNAN(e))) /* same value (both NaN counts as same) */
#define BITS(lv) (*(unsigned long const *)&(lv))

#ifndef VERIF_NATIVE
#include "src/a.c" /* a_copy (memcpy) for the c0 accessors; linked separately in the native replay build */
#endif
#include "src/poly.c"
#include "src/trajpoly3.c"
#include "src/trajpoly5.c"
#include "src/trajpoly7.c"

/* a0 * 0.5 * 2 == a0 needs a0 * 0.5 to be exact: everything except the odd subnormals */
#define HALVABLE(a) ((a) == 0 || (a) >= 0x1p-1021 || (a) <= -0x1p-1021 || ISNAN(a))

/* =====================================================================================================
   [P] generator: the initial data are stored exactly, for ALL arguments (NaN, infinities, ts <= 0 included)
   ===================================================================================================== */
void h_tp3_gen(void)
{
    ND(a_real, ts, double); ND(a_real, p0, double); ND(a_real, p1, double); ND(a_real, v0, double); ND(a_real, v1, double);
    a_trajpoly3 t;
    a_trajpoly3_gen(&t, ts, p0, p1, v0, v1);
    ASSERT(EQ(t.c[0], p0), "trajpoly3 gen: c[0] is the initial position");
    ASSERT(EQ(t.c[1], v0), "trajpoly3 gen: c[1] is the initial velocity");
    VERIF_CANARY();
}
void h_tp5_gen(void)
{
    ND(a_real, ts, double); ND(a_real, p0, double); ND(a_real, p1, double); ND(a_real, v0, double); ND(a_real, v1, double);
    ND(a_real, a0, double); ND(a_real, a1, double);
    a_trajpoly5 t;
    a_trajpoly5_gen(&t, ts, p0, p1, v0, v1, a0, a1);
    ASSERT(EQ(t.c[0], p0), "trajpoly5 gen: c[0] is the initial position");
    ASSERT(EQ(t.c[1], v0), "trajpoly5 gen: c[1] is the initial velocity");
    ASSERT(EQ(t.c[2], a0 / 2), "trajpoly5 gen: c[2] is half the initial acceleration (a0 / 2, correctly rounded)");
    VERIF_CANARY();
}
void h_tp7_gen(void)
{
    ND(a_real, ts, double); ND(a_real, p0, double); ND(a_real, p1, double); ND(a_real, v0, double); ND(a_real, v1, double);
    ND(a_real, a0, double); ND(a_real, a1, double); ND(a_real, j0, double); ND(a_real, j1, double);
    a_trajpoly7 t;
    a_trajpoly7_gen(&t, ts, p0, p1, v0, v1, a0, a1, j0, j1);
    ASSERT(EQ(t.c[0], p0), "trajpoly7 gen: c[0] is the initial position");
    ASSERT(EQ(t.c[1], v0), "trajpoly7 gen: c[1] is the initial velocity");
    ASSERT(EQ(t.c[2], a0 / 2), "trajpoly7 gen: c[2] is half the initial acceleration (a0 / 2, correctly rounded)");
    VERIF_CANARY();
}
/* c[3] = j0 / 6 holds on the exact domain only (the code multiplies by the rounded constant 1.0/6; for j0 = 7 the
   stored value is one ulp below 7/6 and jer(0) = 6.9999999999999991: reported as a finding) */
void h_tp7_gen_jerk(void)
{
    ND(int, k, int);
    ASSUME(-4096 <= k && k <= 4096);
    a_real j0 = 3 * (a_real)k * 0x1p-6; /* multiples of 3/64 */
    ND(a_real, ts, double); ND(a_real, p0, double); ND(a_real, p1, double); ND(a_real, v0, double); ND(a_real, v1, double);
    ND(a_real, a0, double); ND(a_real, a1, double); ND(a_real, j1, double);
    a_trajpoly7 t;
    a_trajpoly7_gen(&t, ts, p0, p1, v0, v1, a0, a1, j0, j1);
    ASSERT(t.c[3] == j0 / 6, "trajpoly7 gen: c[3] is a sixth of the initial jerk (exact domain: j0 a multiple of 3/64)");
    ASSERT(t.c[3] * 6 == j0, "trajpoly7 gen: 6 c[3] is the initial jerk (exact domain: j0 a multiple of 3/64)");
    VERIF_CANARY();
}

/* =====================================================================================================
   [P] time zero: for ANY context with coefficients of magnitude <= 2^1000 (so that the derivative vectors stay
   finite; Horner at 0 multiplies every partial value by 0, and inf * 0 is NaN) pos/vel/acc/jer at x = 0 are
   c[0], c[1], 2 c[2], 6 c[3]; with the generator clauses above: the requested initial values, exactly
   ===================================================================================================== */
#define LOADC(t, N)                                                                                     \
    ND(a_real, c0, double); ND(a_real, c1, double); ND(a_real, c2, double); ND(a_real, c3, double);     \
    ND(a_real, c4, double); ND(a_real, c5, double); ND(a_real, c6, double); ND(a_real, c7, double);     \
    {                                                                                                   \
        a_real const cc[8] = {c0, c1, c2, c3, c4, c5, c6, c7};                                          \
        unsigned i_;                                                                                    \
        for (i_ = 0; i_ < N; ++i_) { (t).c[i_] = cc[i_]; }                                              \
    }
#define ALLBOUND(t, N, out)                                                                             \
    {                                                                                                   \
        unsigned i_;                                                                                    \
        out = 1;                                                                                        \
        for (i_ = 0; i_ < N; ++i_) { if (!((t).c[i_] >= -BIGC && (t).c[i_] <= BIGC)) { out = 0; } }                             \
    }
void h_tp3_zero(void)
{
    a_trajpoly3 t; int fin;
    LOADC(t, 4)
    ALLBOUND(t, 4, fin)
    ASSUME(fin);
    ASSERT(a_trajpoly3_pos(&t, 0) == c0, "trajpoly3: pos(0) is c[0] (coefficients of magnitude <= 2^1000)");
    ASSERT(a_trajpoly3_vel(&t, 0) == c1, "trajpoly3: vel(0) is c[1] (coefficients of magnitude <= 2^1000)");
    ASSERT(EQ(a_trajpoly3_acc(&t, 0), c2 * 2), "trajpoly3: acc(0) is 2 c[2] (coefficients of magnitude <= 2^1000)");
    VERIF_CANARY();
}
void h_tp5_zero(void)
{
    a_trajpoly5 t; int fin;
    LOADC(t, 6)
    ALLBOUND(t, 6, fin)
    ASSUME(fin);
    ASSERT(a_trajpoly5_pos(&t, 0) == c0, "trajpoly5: pos(0) is c[0] (coefficients of magnitude <= 2^1000)");
    ASSERT(a_trajpoly5_vel(&t, 0) == c1, "trajpoly5: vel(0) is c[1] (coefficients of magnitude <= 2^1000)");
    ASSERT(EQ(a_trajpoly5_acc(&t, 0), c2 * 2), "trajpoly5: acc(0) is 2 c[2] (coefficients of magnitude <= 2^1000)");
    VERIF_CANARY();
}
void h_tp7_zero(void)
{
    a_trajpoly7 t; int fin;
    LOADC(t, 8)
    ALLBOUND(t, 8, fin)
    ASSUME(fin);
    ASSERT(a_trajpoly7_pos(&t, 0) == c0, "trajpoly7: pos(0) is c[0] (coefficients of magnitude <= 2^1000)");
    ASSERT(a_trajpoly7_vel(&t, 0) == c1, "trajpoly7: vel(0) is c[1] (coefficients of magnitude <= 2^1000)");
    ASSERT(EQ(a_trajpoly7_acc(&t, 0), c2 * 2), "trajpoly7: acc(0) is 2 c[2] (coefficients of magnitude <= 2^1000)");
    ASSERT(EQ(a_trajpoly7_jer(&t, 0), c3 * 6), "trajpoly7: jer(0) is 6 c[3] (coefficients of magnitude <= 2^1000)");
    VERIF_CANARY();
}

/* end to end: generate, then query at time zero.  Hypothesis on the OUTPUT of the generator: all coefficients
   of magnitude <= 2^1000 (they overflow for tiny ts / huge data, then every Horner value at 0 is NaN: reported as a finding). */
void h_tp3_init(void)
{
    ND(a_real, ts, double); ND(a_real, p0, double); ND(a_real, p1, double); ND(a_real, v0, double); ND(a_real, v1, double);
    a_trajpoly3 t; int fin;
    a_trajpoly3_gen(&t, ts, p0, p1, v0, v1);
    ALLBOUND(t, 4, fin)
    ASSUME(fin);
    ASSERT(a_trajpoly3_pos(&t, 0) == p0, "trajpoly3: the position at time zero is the requested initial position, exactly");
    ASSERT(a_trajpoly3_vel(&t, 0) == v0, "trajpoly3: the velocity at time zero is the requested initial velocity, exactly");
    VERIF_CANARY();
}
void h_tp5_init(void)
{
    ND(a_real, ts, double); ND(a_real, p0, double); ND(a_real, p1, double); ND(a_real, v0, double); ND(a_real, v1, double);
    ND(a_real, a0, double); ND(a_real, a1, double);
    a_trajpoly5 t; int fin;
    ASSUME(HALVABLE(a0));
    a_trajpoly5_gen(&t, ts, p0, p1, v0, v1, a0, a1);
    ALLBOUND(t, 6, fin)
    ASSUME(fin);
    ASSERT(a_trajpoly5_pos(&t, 0) == p0, "trajpoly5: the position at time zero is the requested initial position, exactly");
    ASSERT(a_trajpoly5_vel(&t, 0) == v0, "trajpoly5: the velocity at time zero is the requested initial velocity, exactly");
    ASSERT(a_trajpoly5_acc(&t, 0) == a0, "trajpoly5: the acceleration at time zero is the requested initial acceleration, exactly");
    VERIF_CANARY();
}
void h_tp7_init(void)
{
    ND(a_real, ts, double); ND(a_real, p0, double); ND(a_real, p1, double); ND(a_real, v0, double); ND(a_real, v1, double);
    ND(a_real, a0, double); ND(a_real, a1, double); ND(a_real, j1, double);
    ND(int, k, int);
    ASSUME(-4096 <= k && k <= 4096);
    a_real j0 = 3 * (a_real)k * 0x1p-6; /* exact domain for the jerk only: multiples of 3/64 */
    a_trajpoly7 t; int fin;
    ASSUME(HALVABLE(a0));
    a_trajpoly7_gen(&t, ts, p0, p1, v0, v1, a0, a1, j0, j1);
    ALLBOUND(t, 8, fin)
    ASSUME(fin);
    ASSERT(a_trajpoly7_pos(&t, 0) == p0, "trajpoly7: the position at time zero is the requested initial position, exactly");
    ASSERT(a_trajpoly7_vel(&t, 0) == v0, "trajpoly7: the velocity at time zero is the requested initial velocity, exactly");
    ASSERT(a_trajpoly7_acc(&t, 0) == a0, "trajpoly7: the acceleration at time zero is the requested initial acceleration, exactly");
    ASSERT(a_trajpoly7_jer(&t, 0) == j0, "trajpoly7: the jerk at time zero is the requested initial jerk (exact domain: j0 a multiple of 3/64)");
    VERIF_CANARY();
}

/* =====================================================================================================
   [P] call protocol: for ANY context (all doubles) and ANY x, pos/vel/acc/jer are the Horner evaluation
   (a_poly_eval_, decided in harness/poly.c) of exactly the vectors the accessors c0/c1/c2/c3 deliver
   ===================================================================================================== */
#define PROTO(NAME, T, N, JER)                                                                          \
    void h_##NAME##_proto(void)                                                                         \
    {                                                                                                   \
        T t;                                                                                            \
        LOADC(t, N)                                                                                     \
        ND(a_real, x, double);                                                                          \
        a_real d1[N - 1], d2[N - 2];                                                                    \
        a_##NAME##_c1(&t, d1);                                                                          \
        a_##NAME##_c2(&t, d2);                                                                          \
        ASSERT(EQ(a_##NAME##_pos(&t, x), a_poly_eval_(t.c, t.c + N, x)), #NAME ": pos(x) is the Horner value of the stored coefficients"); \
        ASSERT(EQ(a_##NAME##_vel(&t, x), a_poly_eval_(d1, d1 + (N - 1), x)), #NAME ": vel(x) is the Horner value of the c1 accessor's vector"); \
        ASSERT(EQ(a_##NAME##_acc(&t, x), a_poly_eval_(d2, d2 + (N - 2), x)), #NAME ": acc(x) is the Horner value of the c2 accessor's vector"); \
        JER                                                                                             \
        VERIF_CANARY();                                                                                 \
    }
PROTO(trajpoly3, a_trajpoly3, 4, )
PROTO(trajpoly5, a_trajpoly5, 6, )
PROTO(trajpoly7, a_trajpoly7, 8,
      a_real d3[5];
      a_trajpoly7_c3(&t, d3);
      ASSERT(EQ(a_trajpoly7_jer(&t, x), a_poly_eval_(d3, d3 + 5, x)), "trajpoly7: jer(x) is the Horner value of the c3 accessor's vector");)

/* c0 accessor: a bit-exact copy of the stored coefficients into an exactly sized array (SAT back end: memcpy) */
#define COPY0(NAME, T, N)                                                                               \
    void h_##NAME##_c0(void)                                                                            \
    {                                                                                                   \
        T t;                                                                                            \
        LOADC(t, N)                                                                                     \
        a_real d0[N];                                                                                   \
        unsigned i;                                                                                     \
        a_##NAME##_c0(&t, d0);                                                                          \
        for (i = 0; i < N; ++i) { ASSERT(BITS(d0[i]) == BITS(t.c[i]), #NAME ": the c0 accessor copies the position coefficients"); } \
        VERIF_CANARY();                                                                                 \
    }
COPY0(trajpoly3, a_trajpoly3, 4)
COPY0(trajpoly5, a_trajpoly5, 6)
COPY0(trajpoly7, a_trajpoly7, 8)

/* =====================================================================================================
   [B exact domain] the accessor vectors are the successive derivatives: entry k of c1/c2/c3 is
   (k+1) c[k+1], (k+1)(k+2) c[k+2], (k+1)(k+2)(k+3) c[k+3]; coefficients m/16 with |m| <= 2^12 (all products exact)
   ===================================================================================================== */
#define LOADX(t, N)                                                                                     \
    ND(int, m0, int); ND(int, m1, int); ND(int, m2, int); ND(int, m3, int);                             \
    ND(int, m4, int); ND(int, m5, int); ND(int, m6, int); ND(int, m7, int);                             \
    {                                                                                                   \
        int const mm[8] = {m0, m1, m2, m3, m4, m5, m6, m7};                                             \
        unsigned i_;                                                                                    \
        for (i_ = 0; i_ < 8; ++i_) { ASSUME(-4096 <= mm[i_] && mm[i_] <= 4096); }                       \
        for (i_ = 0; i_ < N; ++i_) { (t).c[i_] = (a_real)mm[i_] * 0x1p-4; }                             \
    }
#define DERIV(NAME, T, N, JER)                                                                          \
    void h_##NAME##_deriv(void)                                                                         \
    {                                                                                                   \
        T t;                                                                                            \
        LOADX(t, N)                                                                                     \
        a_real d1[N - 1], d2[N - 2];                                                                    \
        unsigned k;                                                                                     \
        a_##NAME##_c1(&t, d1);                                                                          \
        a_##NAME##_c2(&t, d2);                                                                          \
        for (k = 0; k + 1 < N; ++k) { ASSERT(d1[k] == (a_real)(k + 1) * t.c[k + 1], #NAME ": c1[k] == (k+1) c[k+1] (first derivative)"); } \
        for (k = 0; k + 2 < N; ++k) { ASSERT(d2[k] == (a_real)((k + 1) * (k + 2)) * t.c[k + 2], #NAME ": c2[k] == (k+1)(k+2) c[k+2] (second derivative)"); } \
        JER                                                                                             \
        VERIF_CANARY();                                                                                 \
    }
DERIV(trajpoly3, a_trajpoly3, 4, )
DERIV(trajpoly5, a_trajpoly5, 6, )
DERIV(trajpoly7, a_trajpoly7, 8,
      a_real d3[5];
      a_trajpoly7_c3(&t, d3);
      for (k = 0; k + 3 < 8; ++k) { ASSERT(d3[k] == (a_real)((k + 1) * (k + 2) * (k + 3)) * t.c[k + 3], "trajpoly7: c3[k] == (k+1)(k+2)(k+3) c[k+3] (third derivative)"); })

/* =====================================================================================================
   [B exact domain] end-time boundary conditions, as a guard on the closed-form constants: ts = TS (a power of two,
   one unit per value), integer boundary data of magnitude <= DM, jerks multiples of 3.  On this domain every
   coefficient is a dyadic rational with few bits and every Horner step is exact (checked natively, 3e6 samples),
   so the end-time values equal the requested ones exactly.
   ===================================================================================================== */
#ifndef TS
#define TS 2
#endif
#ifndef DM
#define DM 4
#endif
#define SMALLINT(name) ND(int, name, int); ASSUME(-(DM) <= name && name <= (DM))
/* TSCALE: durations far from 1 (TS = 2^-60 or 2^60): velocities, accelerations and jerks are scaled by 1/TS, 1/TS^2, 1/TS^3, which
   multiplies every intermediate of the TS = 1 computation by a power of two - the domain stays exact */
#ifdef TSCALE
#define VS (1 / (a_real)(TS))
#else
#define VS 1
#endif
#define AS (VS * VS)
#define JS (VS * VS * VS)
void h_tp3_final(void)
{
    SMALLINT(ip0); SMALLINT(ip1); SMALLINT(iv0); SMALLINT(iv1);
    a_real const ts = TS, p0 = ip0, p1 = ip1, v0 = iv0 * VS, v1 = iv1 * VS;
    a_trajpoly3 t;
    a_trajpoly3_gen(&t, ts, p0, p1, v0, v1);
    ASSERT(a_trajpoly3_pos(&t, ts) == p1, "trajpoly3: the position at the end time is the requested final position (exact domain)");
    ASSERT(a_trajpoly3_vel(&t, ts) == v1, "trajpoly3: the velocity at the end time is the requested final velocity (exact domain)");
    VERIF_CANARY();
}
void h_tp5_final(void)
{
    SMALLINT(ip0); SMALLINT(ip1); SMALLINT(iv0); SMALLINT(iv1); SMALLINT(ia0); SMALLINT(ia1);
    a_real const ts = TS, p0 = ip0, p1 = ip1, v0 = iv0 * VS, v1 = iv1 * VS, a0 = ia0 * AS, a1 = ia1 * AS;
    a_trajpoly5 t;
    a_trajpoly5_gen(&t, ts, p0, p1, v0, v1, a0, a1);
    ASSERT(a_trajpoly5_pos(&t, ts) == p1, "trajpoly5: the position at the end time is the requested final position (exact domain)");
    ASSERT(a_trajpoly5_vel(&t, ts) == v1, "trajpoly5: the velocity at the end time is the requested final velocity (exact domain)");
    ASSERT(a_trajpoly5_acc(&t, ts) == a1, "trajpoly5: the acceleration at the end time is the requested final acceleration (exact domain)");
    VERIF_CANARY();
}
void h_tp7_final(void)
{
    SMALLINT(ip0); SMALLINT(ip1); SMALLINT(iv0); SMALLINT(iv1); SMALLINT(ia0); SMALLINT(ia1); SMALLINT(ij0); SMALLINT(ij1);
    a_real const ts = TS, p0 = ip0, p1 = ip1, v0 = iv0 * VS, v1 = iv1 * VS, a0 = ia0 * AS, a1 = ia1 * AS, j0 = 3 * ij0 * JS, j1 = 3 * ij1 * JS;
    a_trajpoly7 t;
    a_trajpoly7_gen(&t, ts, p0, p1, v0, v1, a0, a1, j0, j1);
    ASSERT(a_trajpoly7_pos(&t, ts) == p1, "trajpoly7: the position at the end time is the requested final position (exact domain)");
    ASSERT(a_trajpoly7_vel(&t, ts) == v1, "trajpoly7: the velocity at the end time is the requested final velocity (exact domain)");
    ASSERT(a_trajpoly7_acc(&t, ts) == a1, "trajpoly7: the acceleration at the end time is the requested final acceleration (exact domain)");
    ASSERT(a_trajpoly7_jer(&t, ts) == j1, "trajpoly7: the jerk at the end time is the requested final jerk (exact domain)");
    VERIF_CANARY();
}
