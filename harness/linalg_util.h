/* helpers shared by the linear-algebra harness translation units (C09: harness/linalg.c, C08: harness/linalg_fact.c) */
#ifndef VERIF_LINALG_UTIL_H
#define VERIF_LINALG_UTIL_H
#include "contracts/verif.h"
#include "a/a.h"

/* ND_INTS / ND_U64S / ND_U32S(name, K): an array of K symbolic inputs.  Under cbmc every element is
   nondeterministic; in a native replay the driver passes the elements cbmc chose as name=[v0, v1, ...]. */
#ifndef VERIF_NATIVE
#define ND_INTS(name, K) int name[K]; { unsigned i_; for (i_ = 0; i_ < (unsigned)(K); ++i_) { name[i_] = nondet_int(); } }
#define ND_U64S(name, K) unsigned long name[K]; { unsigned i_; for (i_ = 0; i_ < (unsigned)(K); ++i_) { name[i_] = nondet_u64(); } }
#define ND_U32S(name, K) unsigned name[K]; { unsigned i_; for (i_ = 0; i_ < (unsigned)(K); ++i_) { name[i_] = nondet_u32(); } }
#else
#define ND_INTS(name, K) int name[K]; { unsigned i_; for (i_ = 0; i_ < (unsigned)(K); ++i_) { name[i_] = (int)rp_arr_u64(#name, (int)i_, 0); } }
#define ND_U64S(name, K) unsigned long name[K]; { unsigned i_; for (i_ = 0; i_ < (unsigned)(K); ++i_) { name[i_] = (unsigned long)rp_arr_u64(#name, (int)i_, 0); } }
#define ND_U32S(name, K) unsigned name[K]; { unsigned i_; for (i_ = 0; i_ < (unsigned)(K); ++i_) { name[i_] = (unsigned)rp_arr_u64(#name, (int)i_, 0); } }
#endif

/* bit patterns: "exactly" means bit for bit (signed zeros, NaN payloads and all) */
#if A_SIZE_REAL == 4
typedef unsigned int real_bits;
#else
typedef unsigned long real_bits;
#endif
static real_bits bits_of(a_real x) { union { a_real r; real_bits u; } v; v.u = 0; v.r = x; return v.u; }
static a_real real_of(real_bits u) { union { a_real r; real_bits u; } v; v.u = u; return v.r; }
#define SAME(x, y) (bits_of(x) == bits_of(y))
#define IS0(x) (bits_of(x) == 0)             /* +0.0 */
#define IS1(x) SAME((x), (a_real)1)

/* exactly sized block of cnt reals: every access outside is a pointer-check failure (cbmc) / an ASan report (replay) */
static a_real *block(a_size cnt)
{
    a_real *p = (a_real *)malloc(cnt * sizeof(a_real));
    ASSUME(p != 0);
    return p;
}
static a_uint *ublock(a_size cnt)
{
    a_uint *p = (a_uint *)malloc(cnt * sizeof(a_uint));
    ASSUME(p != 0);
    return p;
}
#endif
