/* C08: log-determinant routines as a call protocol: a_real_{plu,ldl,llt}_lndet evaluate log exactly once per
   diagonal element, on |d| for plu/ldl (the determinant may be negative) and on d for the Cholesky factor (twice the
   sum), and return the sum of what log returned, accumulated in index order.  log itself is a recording stub. */
#include "contracts/verif.h"
#include "a/linalg.h"
#define NL 3
int verif_nlog;
double verif_logarg[NL + 1], verif_logret[NL + 1];
#ifndef VERIF_NATIVE
double log(double x)
{
    double r = nondet_double();
    __CPROVER_assert(verif_nlog < NL, "lndet: at most one log per diagonal element");
    verif_logarg[verif_nlog] = x; verif_logret[verif_nlog] = r; ++verif_nlog;
    return r;
}
double sqrt(double x) { (void)x; return nondet_double(); }
#endif
#include "src/math.c"
#include "src/linalg.c"
#include "src/linalg_plu.c"
#include "src/linalg_ldl.c"
#include "src/linalg_llt.c"
#define SAME(a, b) ((a) == (b) || ((a) != (a) && (b) != (b)))
static double absd(double x) { return x < 0 ? -x : x; }
#define CHECK_LNDET(FN, n, ARG, SCALE, what)                                                           \
    do {                                                                                               \
        a_uint k_;                                                                                     \
        double want_ = 0;                                                                              \
        verif_nlog = 0;                                                                                \
        double got_ = FN(n, A);                                                                        \
        ASSERT(verif_nlog == (int)(n), what ": exactly one log per diagonal element");                 \
        for (k_ = 0; k_ < NL; ++k_) { if (k_ < (n)) { ASSERT(SAME(verif_logarg[k_], ARG(A[k_ * (n) + k_])), what ": log is taken of the stated function of the diagonal element"); want_ = want_ + verif_logret[k_]; } } \
        ASSERT(SAME(got_, SCALE(want_)), what ": the result is the sum of the logarithms in index order"); \
    } while (0)
#define ID(x) (x)
#define TWICE(x) ((x) * 2)
void h_lndet(void)
{
    double A[NL * NL];
    unsigned i;
    ND(unsigned, n, u32);
    ASSUME(n >= 1 && n <= NL);
    for (i = 0; i < NL * NL; ++i) { double v; ND_ARR(v, A, i, double); A[i] = v; }
    if (n == 1) { CHECK_LNDET(a_real_plu_lndet, 1, absd, ID, "plu_lndet"); CHECK_LNDET(a_real_ldl_lndet, 1, absd, ID, "ldl_lndet"); CHECK_LNDET(a_real_llt_lndet, 1, ID, TWICE, "llt_lndet"); }
    if (n == 2) { CHECK_LNDET(a_real_plu_lndet, 2, absd, ID, "plu_lndet"); CHECK_LNDET(a_real_ldl_lndet, 2, absd, ID, "ldl_lndet"); CHECK_LNDET(a_real_llt_lndet, 2, ID, TWICE, "llt_lndet"); }
    if (n == 3) { CHECK_LNDET(a_real_plu_lndet, 3, absd, ID, "plu_lndet"); CHECK_LNDET(a_real_ldl_lndet, 3, absd, ID, "ldl_lndet"); CHECK_LNDET(a_real_llt_lndet, 3, ID, TWICE, "llt_lndet"); }
    VERIF_CANARY();
}
