/* C09: matrix product, transposes and structure kernels of /repo/src/linalg.c.
   Bounded units: all shapes with every dimension in 1..MAXD, contents symbolic.  The shape is a symbolic input
   (m, n, ...), but the library routine is entered once per shape of the bound with literal dimensions (guarded by
   "the symbolic shape is this one"): with symbolic dimensions inside the routine the pointer-walking loops cost
   minutes per kernel (eye1: 113 s), with literal ones well under a second.
   Every matrix/vector handed to the library is an exactly sized malloc block, so any access outside it is a
   failed pointer check (cbmc) or an AddressSanitizer report (native replay); inputs are compared with their
   snapshot after the call (frame). */
#include "harness/linalg_util.h"
#include "a/linalg.h"
#include "src/linalg.c"

#ifndef MAXD
#define MAXD 3
#endif
#define MAXE (MAXD * MAXD)
#define DIM(d) ASSUME(1 <= (d) && (d) <= MAXD)

/* entry points: symbolic shape and contents, one call of the test body t_<name> per shape of the bound */
#define ENTRY1(name) void h_##name(void) { ND(a_uint, n, u32); DIM(n); ND_U64S(a, MAXE); \
        { a_uint N; for (N = 1; N <= MAXD; ++N) { if (n == N) { t_##name(N, a); } } } VERIF_CANARY(); }
#define ENTRY2(name) void h_##name(void) { ND(a_uint, m, u32); ND(a_uint, n, u32); DIM(m); DIM(n); ND_U64S(a, MAXE); \
        { a_uint M, N; for (M = 1; M <= MAXD; ++M) { for (N = 1; N <= MAXD; ++N) { if (m == M && n == N) { t_##name(M, N, a); } } } } VERIF_CANARY(); }

/* block of cnt reals holding the bit patterns src[0..cnt) */
static a_real *filled(unsigned long const *src, a_size cnt)
{
    a_real *p = block(cnt);
    a_size i;
    for (i = 0; i < cnt; ++i) { p[i] = real_of((real_bits)src[i]); }
    return p;
}
/* result block: arbitrary prior contents under cbmc (an element that is not written cannot satisfy its clause),
   a fixed poison value in the native replay */
static a_real *result(a_size cnt)
{
    a_real *p = block(cnt);
#ifdef VERIF_NATIVE
    a_size i;
    for (i = 0; i < cnt; ++i) { p[i] = (a_real)-77.25; }
#endif
    return p;
}
#define AT(a, i) real_of((real_bits)(a)[i])
/* frame of an input block */
#define UNCHANGED(P, a, cnt, msg) { a_size i_; for (i_ = 0; i_ < (cnt); ++i_) { ASSERT(SAME((P)[i_], AT(a, i_)), msg); } }

/* ---- transposes ---- */
static void t_T1(a_uint n, unsigned long const *a)
{
    a_real *A = filled(a, (a_size)n * n);
    a_uint r, c;
    a_real_T1(n, A);
    for (r = 0; r < n; ++r) { for (c = 0; c < n; ++c) {
        ASSERT(SAME(A[r * n + c], AT(a, c * n + r)), "T1: element (r,c) of the result is bit for bit element (c,r) of the input");
    } }
    a_real_T1(n, A);
    UNCHANGED(A, a, n * n, "T1: applying the in-place transpose twice restores the matrix");
    free(A);
}
ENTRY1(T1)

static void t_T2(a_uint m, a_uint n, unsigned long const *a)
{
    a_real *A = filled(a, (a_size)m * n);
    a_real *T = result((a_size)n * m);
    a_real *B = result((a_size)m * n);
    a_uint r, c;
    a_real_T2(m, n, A, T);
    for (r = 0; r < m; ++r) { for (c = 0; c < n; ++c) {
        ASSERT(SAME(T[c * m + r], AT(a, r * n + c)), "T2: element (c,r) of the n x m result is bit for bit element (r,c) of the m x n input (m < n, m = n, m > n)");
    } }
    UNCHANGED(A, a, m * n, "T2: input matrix unchanged");
    a_real_T2(n, m, T, B);
    UNCHANGED(B, a, m * n, "T2: transposing the transpose gives back the matrix");
    free(A); free(T); free(B);
}
ENTRY2(T2)

/* T1 and T2 agree on square matrices and undo each other */
static void t_T1_T2(a_uint n, unsigned long const *a)
{
    a_real *A = filled(a, (a_size)n * n);
    a_real *T = result((a_size)n * n);
    a_uint i;
    a_real_T2(n, n, A, T);
    a_real_T1(n, A);
    for (i = 0; i < n * n; ++i) { ASSERT(SAME(A[i], T[i]), "T1/T2: in-place and out-of-place transpose of a square matrix agree"); }
    a_real_T1(n, T);
    UNCHANGED(T, a, n * n, "T1/T2: T1 undoes T2");
    free(A); free(T);
}
ENTRY1(T1_T2)

/* ---- constant patterns ---- */
#define PATTERN(E, m, n, is1, msg1, msg0) { a_uint r, c; for (r = 0; r < (m); ++r) { for (c = 0; c < (n); ++c) { \
        if (is1) { ASSERT(IS1((E)[r * (n) + c]), msg1); } else { ASSERT(IS0((E)[r * (n) + c]), msg0); } } } }

static void t_eye1(a_uint n, unsigned long const *a)
{
    a_real *E = result((a_size)n * n);
    (void)a;
    a_real_eye1(n, E);
    PATTERN(E, n, n, r == c, "eye1: one on the diagonal", "eye1: zero off the diagonal");
    free(E);
}
ENTRY1(eye1)
static void t_eye2(a_uint m, a_uint n, unsigned long const *a)
{
    a_real *E = result((a_size)m * n);
    (void)a;
    a_real_eye2(m, n, E);
    PATTERN(E, m, n, r == c, "eye2: one on the diagonal of the m x n matrix (m < n, m = n, m > n)", "eye2: zero off the diagonal of the m x n matrix (m < n, m = n, m > n)");
    free(E);
}
ENTRY2(eye2)
static void t_tri1(a_uint n, unsigned long const *a)
{
    a_real *L = result((a_size)n * n);
    (void)a;
    a_real_tri1(n, L);
    PATTERN(L, n, n, c <= r, "tri1: one on and below the diagonal", "tri1: zero above the diagonal");
    free(L);
}
ENTRY1(tri1)
static void t_tri2(a_uint m, a_uint n, unsigned long const *a)
{
    a_real *L = result((a_size)m * n);
    (void)a;
    a_real_tri2(m, n, L);
    PATTERN(L, m, n, c <= r, "tri2: one on and below the diagonal of the m x n matrix (m < n, m = n, m > n)", "tri2: zero above the diagonal of the m x n matrix (m < n, m = n, m > n)");
    free(L);
}
ENTRY2(tri2)

/* ---- diagonal construction / extraction ---- */
static void t_diag(a_uint n, unsigned long const *a)
{
    a_real *d = filled(a, n);
    a_real *A = result((a_size)n * n);
    a_uint r, c;
    a_real_diag(n, d, A);
    for (r = 0; r < n; ++r) { for (c = 0; c < n; ++c) {
        if (r == c) { ASSERT(SAME(A[r * n + c], AT(a, r)), "diag: diagonal element r is bit for bit element r of the vector"); }
        else { ASSERT(IS0(A[r * n + c]), "diag: zero off the diagonal"); }
    } }
    UNCHANGED(d, a, n, "diag: input vector unchanged");
    free(d); free(A);
}
ENTRY1(diag)
static void t_diag1(a_uint n, unsigned long const *a)
{
    a_real *A = filled(a, (a_size)n * n);
    a_real *d = result(n);
    a_uint i;
    a_real_diag1(n, A, d);
    for (i = 0; i < n; ++i) { ASSERT(SAME(d[i], AT(a, i * n + i)), "diag1: element i of the vector is bit for bit the diagonal element (i,i)"); }
    UNCHANGED(A, a, n * n, "diag1: input matrix unchanged");
    free(A); free(d);
}
ENTRY1(diag1)
static void t_diag2(a_uint m, a_uint n, unsigned long const *a)
{
    a_uint const M = m < n ? m : n;
    a_real *A = filled(a, (a_size)m * n);
    a_real *d = result(M); /* exactly min(m,n) elements */
    a_uint i;
    a_real_diag2(m, n, A, d);
    for (i = 0; i < M; ++i) { ASSERT(SAME(d[i], AT(a, i * n + i)), "diag2: element i < min(m,n) of the vector is bit for bit the diagonal element (i,i) of the m x n matrix"); }
    UNCHANGED(A, a, m * n, "diag2: input matrix unchanged");
    free(A); free(d);
}
ENTRY2(diag2)

/* ---- triangular extraction: keep(r,c) selects the copied part, unit(r,c) the forced ones, everything else +0 ---- */
#define TRI_CHECK(R, m, n, keep, unit, name) { a_uint r, c; for (r = 0; r < (m); ++r) { for (c = 0; c < (n); ++c) { \
        if (unit) { ASSERT(IS1((R)[r * (n) + c]), name ": diagonal forced to one"); } \
        else if (keep) { ASSERT(SAME((R)[r * (n) + c], AT(a, r * (n) + c)), name ": element inside the triangle is bit for bit the input element at the same position"); } \
        else { ASSERT(IS0((R)[r * (n) + c]), name ": element outside the triangle is zero"); } } } }
#define TRI_SQUARE(fn, keep, unit, name) \
    static void t_##fn(a_uint n, unsigned long const *a) \
    { \
        a_real *A = filled(a, (a_size)n * n); \
        a_real *R = result((a_size)n * n); \
        a_real_##fn(n, A, R); \
        TRI_CHECK(R, n, n, keep, unit, name) \
        UNCHANGED(A, a, n * n, name ": input matrix unchanged"); \
        free(A); free(R); \
    } \
    ENTRY1(fn)
#define TRI_RECT(fn, keep, name) \
    static void t_##fn(a_uint m, a_uint n, unsigned long const *a) \
    { \
        a_real *A = filled(a, (a_size)m * n); \
        a_real *R = result((a_size)m * n); \
        a_real_##fn(m, n, A, R); \
        TRI_CHECK(R, m, n, keep, 0, name " (m x n; m < n, m = n, m > n)") \
        UNCHANGED(A, a, m * n, name ": input matrix unchanged"); \
        free(A); free(R); \
    } \
    ENTRY2(fn)
TRI_SQUARE(triL, c <= r, 0, "triL")
TRI_SQUARE(triL1, c < r, c == r, "triL1")
TRI_RECT(triL2, c <= r, "triL2")
TRI_SQUARE(triU, c >= r, 0, "triU")
TRI_SQUARE(triU1, c > r, c == r, "triU1")
TRI_RECT(triU2, c >= r, "triU2")

/* ---- products on the exact domain: integer entries |x| <= XMAX, so every product and partial sum is an
   integer far below 2^53 and the result does not depend on the accumulation order.  The expected element is
   written as the IEEE expression 0 + x0*y0 + x1*y1 + ... in increasing inner index, which is also the order
   of all four kernels. ---- */
#ifndef XMAX
#define XMAX 1024
#endif
/* the inner dimension can be restricted per unit (KLO <= c_r <= KHI) to keep the solver queries small */
#ifndef KLO
#define KLO 1
#endif
#ifndef KHI
#define KHI MAXD
#endif
static a_real *ifilled(int const *src, a_size cnt)
{
    a_real *p = block(cnt);
    a_size i;
    for (i = 0; i < cnt; ++i) { p[i] = (a_real)src[i]; }
    return p;
}
/* equal as IEEE values (or both NaN, which cannot happen on the exact domain; written this way the claim is an
   identity of terms and the solver need not first prove that the sums are numbers) */
#define FEQ(u, v) ((u) == (v) || ((u) != (u) && (v) != (v)))
#define IUNCHANGED(P, a, cnt, msg) { a_size i_; for (i_ = 0; i_ < (cnt); ++i_) { ASSERT((P)[i_] == (a_real)(a)[i_], msg); } }
/* XI: index of element (r,k) of op(X) in X's storage; YI: index of element (k,c) of op(Y) in Y's storage */
#define PRODUCT(fn, CALL, XI, YI, YSLACK, name) \
    static void t_##fn(a_uint row, a_uint c_r, a_uint col, int const *x, int const *y) \
    { \
        a_real *X = ifilled(x, (a_size)row * c_r); \
        a_real *Y = ifilled(y, (a_size)c_r * col + (YSLACK)); \
        a_real *Z = result((a_size)row * col); \
        a_real E[MAXE]; \
        a_uint r, c, k; \
        for (r = 0; r < row; ++r) { for (c = 0; c < col; ++c) { \
            a_real e = 0; \
            for (k = 0; k < c_r; ++k) { e += X[XI] * Y[YI]; } \
            E[r * col + c] = e; \
        } } \
        CALL; \
        for (r = 0; r < row; ++r) { for (c = 0; c < col; ++c) { \
            ASSERT(FEQ(Z[r * col + c], E[r * col + c]), name ": element (r,c) of the row x col result is the sum over the inner index k of op(X)(r,k) * op(Y)(k,c)"); \
        } } \
        IUNCHANGED(X, x, row * c_r, name ": first operand unchanged"); \
        IUNCHANGED(Y, y, c_r * col + (YSLACK), name ": second operand unchanged"); \
        free(X); free(Y); free(Z); \
    } \
    void h_##fn(void) \
    { \
        ND(a_uint, row, u32); ND(a_uint, c_r, u32); ND(a_uint, col, u32); DIM(row); ASSUME(KLO <= c_r && c_r <= KHI); DIM(col); \
        ND_INTS(x, MAXE); ND_INTS(y, MAXE + MAXD); \
        { unsigned i; for (i = 0; i < MAXE; ++i) { ASSUME(-XMAX <= x[i] && x[i] <= XMAX); } for (i = 0; i < MAXE + MAXD; ++i) { ASSUME(-XMAX <= y[i] && y[i] <= XMAX); } } \
        { a_uint R, K, C; for (R = 1; R <= MAXD; ++R) { for (K = KLO; K <= KHI; ++K) { for (C = 1; C <= MAXD; ++C) { \
            if (row == R && c_r == K && col == C) { t_##fn(R, K, C, x, y); } } } } } \
        VERIF_CANARY(); \
    }
PRODUCT(mulmm, a_real_mulmm(row, c_r, col, X, Y, Z), r * c_r + k, k * col + c, 0, "mulmm (Z = X Y)")
PRODUCT(mulTm, a_real_mulTm(c_r, row, col, X, Y, Z), k * row + r, k * col + c, 0, "mulTm (Z = X^T Y)")
PRODUCT(mulmT, a_real_mulmT(row, col, c_r, X, Y, Z), r * c_r + k, c * c_r + k, 0, "mulmT (Z = X Y^T)")
/* a_real_mulTT walks column k of Y with "for (y = Y + k; y < y_; y += c_r)" where y_ = Y + col * c_r: on leaving the
   loop y = y_ + k, up to c_r - 1 elements BEYOND one-past-the-end of Y.  The pointer is only compared, never
   dereferenced, so this is not a clause of C09 (no access outside), but forming it is undefined in ISO C (6.5.6p8)
   and cbmc's pointer check reports the relation "y < y_" (and leaves every later check of the routine without a
   verdict).  Y therefore gets c_r - 1 cells of slack here; the slack cells hold arbitrary integers, are compared with
   their snapshot after the call (no write), and a read from them would change a sum (value clause). */
PRODUCT(mulTT, a_real_mulTT(row, c_r, col, X, Y, Z), k * row + r, c * c_r + k, c_r - 1, "mulTT (Z = X^T Y^T)")
