/* C02, unbounded part: inductive-step lemmas for the red-black fix-up loops a_rbt_remove_adjust and
   a_rbt_insert_adjust of /repo/src/rbt.c (default, packed node layout).

   The loops climb an unbounded ancestor path, so the step  { J } body { J' or (exit and Post) }  is checked on a
   WINDOW: the nodes the body can reach are real objects, every subtree hanging off the window is a boundary
   root (real node, may be recoloured black / re-parented, children never touched) summarised by ghost data:
   the black height BELOW it and whether its children are black.  All summaries are symbolic, so one run covers
   trees of every size.  The loop-head hook (A_VERIF_HOOK in src/rbt.c, guard LIBA_VERIF) replaces the loop's
   `node` on the FIRST arrival by the window's node (so the body runs from an arbitrary state satisfying J, not
   only from the function's entry state) and on the SECOND arrival asserts J for the new focus and stops.
   The post-state is judged by a fixed number of passes over the concrete window objects. */
#include "contracts/verif.h"

typedef struct a_rbt_node_ a_rbt_node_fwd;
int verif_arrivals;
void *verif_enter_node;
void verif_second_arrival(void *root, void *node, void *parent);
#define VERIF_HOOK_STEP { if (verif_arrivals++ == 0) { node = (a_rbt_node *)verif_enter_node; } else { verif_second_arrival(root, node, parent); } }
#ifdef LEMMA_REMOVE
#undef VERIF_HOOK_rbt_remove_adjust_head
#define VERIF_HOOK_rbt_remove_adjust_head VERIF_HOOK_STEP
#endif
#ifdef LEMMA_INSERT
#undef VERIF_HOOK_rbt_insert_adjust_head
#define VERIF_HOOK_rbt_insert_adjust_head VERIF_HOOK_STEP
#endif
#ifdef LEMMA_UNLINK
void verif_at_fixup_head(void *node, void *parent);
#undef VERIF_HOOK_rbt_remove_adjust_head
#define VERIF_HOOK_rbt_remove_adjust_head { verif_at_fixup_head(node, parent); }
#endif
#include "a/rbt.h"
/* the fix-up code states facts about the sibling's children with A_ASSUME: here they are proof obligations */
#undef A_ASSUME
#define A_ASSUME(x) __CPROVER_assert((x) != 0, "A_ASSUME in the library source holds")
#include "src/rbt.c"

typedef struct { a_rbt_node n; int key; } wn;
#define HMAX 0x100000
#define NW 7
#define NB 8
static wn *Wn[NW]; static int nw;                 /* window nodes, parents before children */
static wn *Bn[NB]; static int nb;                 /* boundary roots */
static int Bg[NB]; static _Bool Bcb[NB];          /* ghost: black height below the boundary root; its children are black */
static int Wbh[NW], Wok[NW], Wmn[NW], Wmx[NW], Wsz[NW];
static a_rbt root;

static int widx(a_rbt_node const *x) { int i, r = -1; for (i = 0; i < NW; ++i) { if (i < nw && x == &Wn[i]->n) { r = i; } } return r; }
static int bidx(a_rbt_node const *x) { int i, r = -1; for (i = 0; i < NB; ++i) { if (i < nb && x == &Bn[i]->n) { r = i; } } return r; }
static int blackp(a_rbt_node const *x) { return x == A_NULL || a_rbt_color(x) != 0; }
static int known(a_rbt_node const *x) { return x == A_NULL || widx(x) >= 0 || bidx(x) >= 0; }
static int bh_of(a_rbt_node const *x) { int w = widx(x), b = bidx(x); return x == A_NULL ? 0 : w >= 0 ? Wbh[w] : b >= 0 ? Bg[b] + (blackp(x) ? 1 : 0) : -1000; }
static int ok_of(a_rbt_node const *x) { int w = widx(x), b = bidx(x); return x == A_NULL ? 1 : w >= 0 ? Wok[w] : b >= 0 ? (blackp(x) || Bcb[b]) : 0; }
static int mn_of(a_rbt_node const *x) { int w = widx(x); return w >= 0 ? Wmn[w] : ((wn const *)x)->key; }
static int mx_of(a_rbt_node const *x) { int w = widx(x); return w >= 0 ? Wmx[w] : ((wn const *)x)->key; }
static int sz_of(a_rbt_node const *x) { int w = widx(x); return x == A_NULL ? 0 : w >= 0 ? Wsz[w] : 1; }
/* recompute the summaries of the window nodes through the ACTUAL links (window depth <= NW) */
static void passes(void)
{
    int p, i;
    for (i = 0; i < NW; ++i) { Wbh[i] = 0; Wok[i] = 0; Wsz[i] = 1; if (i < nw) { Wmn[i] = Wmx[i] = Wn[i]->key; } }
    for (p = 0; p < NW - 1; ++p)
    {
        for (i = NW - 1; i >= 0; --i)
        {
            if (i < nw)
            {
                a_rbt_node *x = &Wn[i]->n, *l = x->left, *r = x->right;
                int ok = known(l) && known(r) && !(l && l == r);
                if (ok)
                {
                    ok = ok_of(l) && ok_of(r) && bh_of(l) == bh_of(r);                 /* equal black heights */
                    if (!blackp(x) && !(blackp(l) && blackp(r))) { ok = 0; }         /* no red node has a red child */
                    if (l && !(mx_of(l) < Wn[i]->key)) { ok = 0; }                   /* search order */
                    if (r && !(Wn[i]->key < mn_of(r))) { ok = 0; }
                    if (l && a_rbt_parent(l) != x) { ok = 0; }                       /* parent links point back */
                    if (r && a_rbt_parent(r) != x) { ok = 0; }
                    Wbh[i] = bh_of(l) + (blackp(x) ? 1 : 0);
                    Wmn[i] = l ? mn_of(l) : Wn[i]->key;
                    Wmx[i] = r ? mx_of(r) : Wn[i]->key;
                    Wsz[i] = 1 + sz_of(l) + sz_of(r);
                }
                Wok[i] = ok;
            }
        }
    }
}
static void setc(a_rbt_node *x, a_rbt_node *c, int side) { if (side < 0) { x->left = c; } else { x->right = c; } }
static a_rbt_node *getc(a_rbt_node *x, int side) { return side < 0 ? x->left : x->right; }

#define NDC(name) ND(unsigned, name, u32); ASSUME(name <= 1)
#define NDG(name) ND(int, name, int); ASSUME(0 <= name && name <= HMAX)
static void link_opt(wn *parent, wn *child, int side, _Bool exists, unsigned colour)
{
    setc(&parent->n, exists ? &child->n : (a_rbt_node *)A_NULL, side);
    child->n.left = child->n.right = A_NULL;
    a_rbt_set_parent_color(&child->n, &parent->n, colour);
}
#ifdef LEMMA_REMOVE
/* ---- window of the removal fix-up: G? - P - { N (deficient, side d), S (sibling) }; S - { SN (near nephew, side d),
        SF (far nephew) }; SN - { SNN (side d), SNF }; SF, SNN, SNF, and the children of SNN/SNF/SF are boundaries ---- */
static wn nG, nP, nS, nSN, nSF, nSNN, nSNF;                       /* window nodes (G only as an anchor) */
static wn bN, bSNNn, bSNNf, bSNFn, bSNFf, bSFn, bSFf;            /* boundary roots */
static int d;                                                     /* side of the deficient child below P */
static _Bool hasG; static int sideG;
static int bh_old, cP_old, size0;
static a_rbt_node *Gl0, *Gr0; static a_uptr Gword0;
static int second_seen;

static a_rbt_node *topnode(void) { return hasG ? getc(&nG.n, sideG) : root.node; }
static int frame_G(void) { return !hasG || (nG.n.parent_ == Gword0 && getc(&nG.n, -sideG) == (sideG < 0 ? Gr0 : Gl0)); }

void verif_second_arrival(void *root_, void *node, void *parent)
{
    /* the loop continues one level up: J_rem(G, P) */
    (void)root_;
    second_seen = 1;
    passes();
    __CPROVER_assert(hasG && node == (void *)&nP.n && parent == (void *)&nG.n, "remove_adjust step (continue): the focus moves to the parent, whose parent exists");
    __CPROVER_assert(a_rbt_color(&nP.n) == 1, "remove_adjust step (continue): the new node is black");
    __CPROVER_assert(topnode() == &nP.n && a_rbt_parent(&nP.n) == &nG.n && frame_G(), "remove_adjust step (continue): nothing above the window changed");
    __CPROVER_assert(ok_of(&nP.n), "remove_adjust step (continue): the subtree below the new node is a valid red-black search tree");
    __CPROVER_assert(bh_of(&nP.n) == bh_old - 1, "remove_adjust step (continue): its paths are exactly one black node short - the loop invariant one level up");
    __CPROVER_assert(sz_of(&nP.n) == size0, "remove_adjust step (continue): no element lost or duplicated");
    __CPROVER_assume(0);
}

void h_remove_step(void)
{
    ND(int, d_, int); ND(_Bool, hasG_, bool); ND(int, sideG_, int);
    ASSUME((d_ == -1 || d_ == 1) && (sideG_ == -1 || sideG_ == 1));
    d = d_; hasG = hasG_; sideG = sideG_;
    NDC(cG); NDC(cP); NDC(cS); NDC(cSN); NDC(cSF); NDC(cSNN); NDC(cSNF);
    NDC(cN); NDC(c1); NDC(c2); NDC(c3); NDC(c4); NDC(c5); NDC(c6);
    ND(_Bool, eN, bool); ND(_Bool, eSN, bool); ND(_Bool, eSF, bool); ND(_Bool, eSNN, bool); ND(_Bool, eSNF, bool);
    ND(_Bool, e1, bool); ND(_Bool, e2, bool); ND(_Bool, e3, bool); ND(_Bool, e4, bool); ND(_Bool, e5, bool); ND(_Bool, e6, bool);
    NDG(gN); NDG(g1); NDG(g2); NDG(g3); NDG(g4); NDG(g5); NDG(g6);
    ND(_Bool, kN, bool); ND(_Bool, k1, bool); ND(_Bool, k2, bool); ND(_Bool, k3, bool); ND(_Bool, k4, bool); ND(_Bool, k5, bool); ND(_Bool, k6, bool);
    /* window and boundary tables */
    Wn[0] = &nP; Wn[1] = &nS; Wn[2] = &nSN; Wn[3] = &nSF; Wn[4] = &nSNN; Wn[5] = &nSNF; nw = 6;
    Bn[0] = &bN; Bn[1] = &bSNNn; Bn[2] = &bSNNf; Bn[3] = &bSNFn; Bn[4] = &bSNFf; Bn[5] = &bSFn; Bn[6] = &bSFf; nb = 7;
    Bg[0] = gN; Bg[1] = g1; Bg[2] = g2; Bg[3] = g3; Bg[4] = g4; Bg[5] = g5; Bg[6] = g6;
    Bcb[0] = kN; Bcb[1] = k1; Bcb[2] = k2; Bcb[3] = k3; Bcb[4] = k4; Bcb[5] = k5; Bcb[6] = k6;
    /* in-order keys for d < 0:  N P SNNn SNN SNNf SN SNFn SNF SNFf S SFn SF SFf ; mirrored for d > 0 */
#define K(r) (d < 0 ? (r) : 14 - (r))
    bN.key = K(1); nP.key = K(2); bSNNn.key = K(3); nSNN.key = K(4); bSNNf.key = K(5); nSN.key = K(6); bSNFn.key = K(7);
    nSNF.key = K(8); bSNFf.key = K(9); nS.key = K(10); bSFn.key = K(11); nSF.key = K(12); bSFf.key = K(13); nG.key = 100;
    /* links */
    nG.n.left = nG.n.right = A_NULL; a_rbt_set_parent_color(&nG.n, A_NULL, cG);
    nP.n.left = nP.n.right = A_NULL; a_rbt_set_parent_color(&nP.n, hasG ? &nG.n : (a_rbt_node *)A_NULL, cP);
    if (hasG) { setc(&nG.n, &nP.n, sideG); root.node = &nG.n; } else { root.node = &nP.n; }
    link_opt(&nP, &bN, d, eN, cN);
    link_opt(&nP, &nS, -d, 1, cS);                  /* the sibling exists (the deficient side is one black node short) */
    link_opt(&nS, &nSN, d, eSN, cSN);
    link_opt(&nS, &nSF, -d, eSF, cSF);
    link_opt(&nSN, &nSNN, d, eSN && eSNN, cSNN);
    link_opt(&nSN, &nSNF, -d, eSN && eSNF, cSNF);
    link_opt(&nSNN, &bSNNn, d, e1, c1);
    link_opt(&nSNN, &bSNNf, -d, e2, c2);
    link_opt(&nSNF, &bSNFn, d, e3, c3);
    link_opt(&nSNF, &bSNFf, -d, e4, c4);
    link_opt(&nSF, &bSFn, d, e5, c5);
    link_opt(&nSF, &bSFf, -d, e6, c6);
    Gl0 = nG.n.left; Gr0 = nG.n.right; Gword0 = nG.n.parent_;
    /* J_rem(P, N): N is black (or absent); both subtrees of P are valid; paths through N are one black node short;
       no red-red between P and its children / its parent */
    passes();
    ASSUME(ok_of(&nS.n) && ok_of(eN ? &bN.n : (a_rbt_node *)A_NULL));
    ASSUME(!eN || cN == 1);
    ASSUME((eN ? gN + 1 : 0) + 1 == bh_of(&nS.n));
    ASSUME(cP == 1 || cS == 1);
    ASSUME(!hasG || cG == 1 || cP == 1);
    ASSUME(hasG || cP == 1);                        /* a root is black */
    bh_old = bh_of(&nS.n) + (cP ? 1 : 0);
    cP_old = (int)cP;
    size0 = 1 + (eN ? 1 : 0) + sz_of(&nS.n);
    verif_arrivals = 0; second_seen = 0;
    verif_enter_node = eN ? (void *)&bN.n : (void *)A_NULL;
    a_rbt_remove_adjust(&root, &nP.n);
    /* the loop terminated inside the window: the deficiency is repaired */
    {
        a_rbt_node *t = topnode();
        passes();
        ASSERT(known(t) && t != A_NULL && widx(t) >= 0, "remove_adjust step (done): the subtree root is a window node");
        ASSERT(a_rbt_parent(t) == (hasG ? &nG.n : (a_rbt_node *)A_NULL) && frame_G() && (hasG ? root.node == &nG.n : 1), "remove_adjust step (done): parent link of the subtree root, nothing above the window changed");
        ASSERT(ok_of(t), "remove_adjust step (done): the window is a valid red-black search tree (no red-red, equal black heights, order, parent links)");
        ASSERT(bh_of(t) == bh_old || (!hasG && t == &nP.n && bh_of(t) == bh_old - 1), "remove_adjust step (done): the black height seen from above is restored (at the root the whole tree may become one lower)");
        ASSERT(blackp(t) || cP_old == 0, "remove_adjust step (done): the subtree root is red only if the old one was (no new red-red with the grandparent, black root)");
        ASSERT(sz_of(t) == size0, "remove_adjust step (done): no element lost or duplicated");
    }
    VERIF_CANARY();
}

#endif /* LEMMA_REMOVE */

/* ---- window of the insertion fix-up: GG? - G? - { P? (side ps), U? (uncle) }; P - { N (side ns), PC? }; N - { NL?, NR? }.
        G, P, N are window nodes; U, PC, NL, NR are boundary roots (U may be recoloured black) ---- */
#ifdef LEMMA_INSERT
static wn iGG, iG, iP, iN;
static wn iU, iPC, iNL, iNR;
static int ps, ns;
static _Bool hasP, hasGp, hasGG; static int sideGG;
static int ibh_old, isize0; static unsigned cGG_;
static a_uptr GGword0; static a_rbt_node *GGother0;
static wn *itop_anchor(void) { return hasGG ? &iGG : (wn *)0; }
static a_rbt_node *itop(void) { return hasGG ? getc(&iGG.n, sideGG) : root.node; }
static int iframe(void) { return !hasGG || (iGG.n.parent_ == GGword0 && getc(&iGG.n, -sideGG) == GGother0 && root.node == &iGG.n); }
void verif_second_arrival(void *root_, void *node, void *parent)
{
    /* colour flip (uncle red): the loop continues at the grandparent: J_ins(G) */
    (void)root_;
    passes();
    __CPROVER_assert(hasP && hasGp && node == (void *)&iG.n, "insert_adjust step (continue): the focus moves to the grandparent");
    __CPROVER_assert(parent == (void *)(hasGG ? &iGG.n : (a_rbt_node *)A_NULL) && a_rbt_parent(&iG.n) == (hasGG ? &iGG.n : (a_rbt_node *)A_NULL), "insert_adjust step (continue): its parent is the great-grandparent");
    __CPROVER_assert(a_rbt_color(&iG.n) == 0, "insert_adjust step (continue): the new node is red - the loop invariant");
    __CPROVER_assert(itop() == &iG.n && iframe(), "insert_adjust step (continue): nothing above the window changed");
    __CPROVER_assert(ok_of(&iG.n), "insert_adjust step (continue): below the new node the tree is a valid red-black search tree");
    __CPROVER_assert(bh_of(&iG.n) == ibh_old, "insert_adjust step (continue): black heights are unchanged");
    __CPROVER_assert(sz_of(&iG.n) == isize0, "insert_adjust step (continue): no element lost or duplicated");
    __CPROVER_assume(0);
}
void h_insert_step(void)
{
    ND(int, ps_, int); ND(int, ns_, int); ND(int, sideGG_, int);
    ND(_Bool, hasP_, bool); ND(_Bool, hasG_, bool); ND(_Bool, hasGG_, bool);
    ASSUME((ps_ == -1 || ps_ == 1) && (ns_ == -1 || ns_ == 1) && (sideGG_ == -1 || sideGG_ == 1));
    ps = ps_; ns = ns_; sideGG = sideGG_; hasP = hasP_; hasGp = hasP_ && hasG_; hasGG = hasP_ && hasG_ && hasGG_;
    NDC(cGG); NDC(cG); NDC(cP); NDC(cU); NDC(cPC); NDC(cNL); NDC(cNR);
    ND(_Bool, eU, bool); ND(_Bool, ePC, bool); ND(_Bool, eNL, bool); ND(_Bool, eNR, bool);
    NDG(gU); NDG(gPC); NDG(gNL); NDG(gNR);
    ND(_Bool, kU, bool); ND(_Bool, kPC, bool); ND(_Bool, kNL, bool); ND(_Bool, kNR, bool);
    cGG_ = cGG;
    nw = 0;
    if (hasGp) { Wn[nw++] = &iG; }
    if (hasP) { Wn[nw++] = &iP; }
    Wn[nw++] = &iN;
    Bn[0] = &iU; Bn[1] = &iPC; Bn[2] = &iNL; Bn[3] = &iNR; nb = 4;
    Bg[0] = gU; Bg[1] = gPC; Bg[2] = gNL; Bg[3] = gNR;
    Bcb[0] = kU; Bcb[1] = kPC; Bcb[2] = kNL; Bcb[3] = kNR;
    iGG.key = 1000; iG.key = 100; iU.key = ps < 0 ? 150 : 50; iP.key = ps < 0 ? 50 : 150;
    iN.key = iP.key + 20 * ns; iPC.key = iP.key - 20 * ns; iNL.key = iN.key - 5; iNR.key = iN.key + 5;
    if (!hasP) { iN.key = 100; iNL.key = 95; iNR.key = 105; }
    /* links */
    iGG.n.left = iGG.n.right = iG.n.left = iG.n.right = iP.n.left = iP.n.right = iN.n.left = iN.n.right = A_NULL;
    a_rbt_set_parent_color(&iGG.n, A_NULL, cGG);
    a_rbt_set_parent_color(&iG.n, hasGG ? &iGG.n : (a_rbt_node *)A_NULL, cG);
    a_rbt_set_parent_color(&iP.n, hasGp ? &iG.n : (a_rbt_node *)A_NULL, cP);
    a_rbt_set_parent_color(&iN.n, hasP ? &iP.n : (a_rbt_node *)A_NULL, 0);        /* the node is red: loop invariant */
    if (hasGG) { setc(&iGG.n, &iG.n, sideGG); root.node = &iGG.n; }
    else if (hasGp) { root.node = &iG.n; }
    else if (hasP) { root.node = &iP.n; }
    else { root.node = &iN.n; }
    if (hasGp) { setc(&iG.n, &iP.n, ps); link_opt(&iG, &iU, -ps, eU, cU); }
    if (hasP) { setc(&iP.n, &iN.n, ns); link_opt(&iP, &iPC, -ns, ePC, cPC); }
    link_opt(&iN, &iNL, -1, eNL, cNL);
    link_opt(&iN, &iNR, 1, eNR, cNR);
    GGword0 = iGG.n.parent_; GGother0 = getc(&iGG.n, -sideGG);
    /* J_ins(N): valid everywhere except a possible red-red between N and its parent, or N being a red root */
    passes();
    ASSUME(ok_of(eNL ? &iNL.n : (a_rbt_node *)A_NULL) && ok_of(eNR ? &iNR.n : (a_rbt_node *)A_NULL));
    ASSUME(blackp(iN.n.left) && blackp(iN.n.right) && bh_of(iN.n.left) == bh_of(iN.n.right)); /* N's own subtree is valid */
    if (hasP)
    {
        ASSUME(ok_of(ePC ? &iPC.n : (a_rbt_node *)A_NULL) && bh_of(iN.n.left) == bh_of(getc(&iP.n, -ns)));
        ASSUME(cP == 1 || blackp(getc(&iP.n, -ns)));                             /* the only red-red allowed is P - N */
        ASSUME(hasGp || cP == 1);                                                 /* a root is black */
    }
    if (hasGp)
    {
        ASSUME(ok_of(eU ? &iU.n : (a_rbt_node *)A_NULL));
        ASSUME(bh_of(iN.n.left) + (cP ? 1 : 0) == bh_of(getc(&iG.n, -ps)));
        ASSUME(cG == 1 || (cP == 1 && blackp(getc(&iG.n, -ps))));              /* G red only with black children */
        ASSUME(hasGG || cG == 1);
        ASSUME(!hasGG || cGG == 1 || cG == 1);
    }
    ibh_old = hasGp ? bh_of(getc(&iG.n, -ps)) + (cG ? 1 : 0) : hasP ? bh_of(iN.n.left) + 1 : bh_of(iN.n.left);
    isize0 = 1 + (eNL ? 1 : 0) + (eNR ? 1 : 0) + (hasP ? 1 + (ePC ? 1 : 0) : 0) + (hasGp ? 1 + (eU ? 1 : 0) : 0);
    verif_arrivals = 0;
    verif_enter_node = (void *)&iN.n;
    a_rbt_insert_adjust(&root, &iN.n);
    {
        a_rbt_node *t = itop();
        passes();
        ASSERT(t != A_NULL && widx(t) >= 0, "insert_adjust step (done): the subtree root is a window node");
        ASSERT(a_rbt_parent(t) == (hasGG ? &iGG.n : (a_rbt_node *)A_NULL) && iframe(), "insert_adjust step (done): parent link of the subtree root, nothing above the window changed");
        ASSERT(ok_of(t), "insert_adjust step (done): the window is a valid red-black search tree (no red-red, equal black heights, order, parent links)");
        ASSERT(bh_of(t) == ibh_old || (!hasP && bh_of(t) == ibh_old + 1), "insert_adjust step (done): black height seen from above unchanged (a red root turned black makes the whole tree one higher)");
        ASSERT(blackp(t) || (hasGG && cGG_ == 1), "insert_adjust step (done): the subtree root is red only below a black parent; a root is black");
        ASSERT(sz_of(t) == isize0, "insert_adjust step (done): no element lost or duplicated");
    }
    VERIF_CANARY();
}
#endif

/* ---- lemma for a_rbt_remove (the unlink cases and the decision to start the fix-up):
        G? - X { A (left subtree, boundary), spine s0 = C (right child) - s1 - s2 ... down the left spine to the
        successor S (spine depth 0..3 materialised, every spine node's right subtree a boundary; S->left absent,
        S->right = child2 boundary) }.  Obligation: either the function ends with a valid red-black search tree of
        the old black height, or it reaches the head of the fix-up loop in a state satisfying that loop's invariant
        J_rem (checked at the loop-head hook, where the run is cut: the step lemma takes over from there). ---- */
#ifdef LEMMA_UNLINK
static wn uG, uX, uS0, uS1, uS2, uS3;           /* window nodes: anchor, node to remove, spine (successor = last used) */
static wn uA, uR0, uR1, uR2, uR3;               /* boundaries: X's left subtree, right subtrees of the spine nodes (uR<depth> = child2) */
static _Bool uhasG; static int usideG; static int depth;
static int ubh_old, usize0; static unsigned ucX;
static a_uptr uGword0; static a_rbt_node *uGother0;
static a_rbt_node *deficit_parent; static int deficit_side;   /* phantom: that NULL child counts as one black node */
static a_rbt_node *utop(void) { return uhasG ? getc(&uG.n, usideG) : root.node; }
static int uframe(void) { return !uhasG || (uG.n.parent_ == uGword0 && getc(&uG.n, -usideG) == uGother0 && root.node == &uG.n); }
/* passes() variant that accounts for the phantom black leaf */
static int bh_child(a_rbt_node *x, int side) { a_rbt_node *c = getc(x, side); return (c == A_NULL && x == deficit_parent && side == deficit_side) ? 1 : bh_of(c); }
static void upasses(void)
{
    int p, i;
    for (i = 0; i < NW; ++i) { Wbh[i] = 0; Wok[i] = 0; Wsz[i] = 1; if (i < nw) { Wmn[i] = Wmx[i] = Wn[i]->key; } }
    for (p = 0; p < NW - 1; ++p)
    {
        for (i = NW - 1; i >= 0; --i)
        {
            if (i < nw)
            {
                a_rbt_node *x = &Wn[i]->n, *l = x->left, *r = x->right;
                int ok = known(l) && known(r) && !(l && l == r);
                if (ok)
                {
                    ok = ok_of(l) && ok_of(r) && bh_child(x, -1) == bh_child(x, 1);
                    if (!blackp(x) && !(blackp(l) && blackp(r))) { ok = 0; }
                    if (l && !(mx_of(l) < Wn[i]->key)) { ok = 0; }
                    if (r && !(Wn[i]->key < mn_of(r))) { ok = 0; }
                    if (l && a_rbt_parent(l) != x) { ok = 0; }
                    if (r && a_rbt_parent(r) != x) { ok = 0; }
                    Wbh[i] = bh_child(x, -1) + (blackp(x) ? 1 : 0);
                    Wmn[i] = l ? mn_of(l) : Wn[i]->key;
                    Wmx[i] = r ? mx_of(r) : Wn[i]->key;
                    Wsz[i] = 1 + sz_of(l) + sz_of(r);
                }
                Wok[i] = ok;
            }
        }
    }
}
static void judge(const char *unused)
{
    (void)unused;
}
void verif_second_arrival(void *root_, void *node, void *parent) { (void)root_; (void)node; (void)parent; __CPROVER_assume(0); }
static int hook_seen;
/* first arrival at the head of the fix-up loop: J_rem(parent, node = NULL) must hold */
void verif_at_fixup_head(void *node_, void *parent_)
{
    a_rbt_node *node = (a_rbt_node *)node_, *parent = (a_rbt_node *)parent_;
    a_rbt_node *t = utop();
    hook_seen = 1;
    if (uhasG && parent == &uG.n)
    {
        /* the removed node was a black leaf: its place below its parent is now empty and one black node short */
        __CPROVER_assert(node == A_NULL && usize0 == 1 && ucX == 1 && t == A_NULL, "remove: a fix-up at the removed node's parent happens exactly when a black leaf was removed");
        __CPROVER_assert(uG.n.parent_ == uGword0 && getc(&uG.n, -usideG) == uGother0, "remove: nothing else above changed");
    }
    else
    {
        __CPROVER_assert(node == A_NULL && parent != A_NULL && widx(parent) >= 0, "remove: the fix-up starts at a window node with an absent child");
        __CPROVER_assert(parent->left == A_NULL || parent->right == A_NULL, "remove: the deficient child of the fix-up's parent is absent");
        /* which side is deficient: the fix-up treats the left side as the node's side unless node == parent->right (== NULL) */
        deficit_parent = parent;
        deficit_side = (parent->right == A_NULL) ? 1 : -1;
        /* X has been unlinked: judge the remaining window nodes */
        { int i, j = 0; wn *keep[NW]; for (i = 0; i < NW; ++i) { if (i < nw && Wn[i] != &uX) { keep[j++] = Wn[i]; } } for (i = 0; i < NW; ++i) { if (i < j) { Wn[i] = keep[i]; } } nw = j; }
        upasses();
        __CPROVER_assert(t != A_NULL && widx(t) >= 0 && a_rbt_parent(t) == (uhasG ? &uG.n : (a_rbt_node *)A_NULL) && uframe(), "remove: the successor (or child) took the removed node's place below the same parent");
        __CPROVER_assert(ok_of(t), "remove: at the start of the fix-up the tree is valid except that paths through the absent child are one black node short (the fix-up loop's invariant)");
        __CPROVER_assert(bh_of(t) == ubh_old, "remove: ... and every other path has the old black height");
        __CPROVER_assert(blackp(t) || ucX == 0, "remove: the node in the removed node's place has the removed node's colour");
        __CPROVER_assert(sz_of(t) == usize0 - 1, "remove: exactly the removed element is gone");
    }
    __CPROVER_assume(0);
}
#undef VERIF_HOOK_STEP
void h_unlink(void)
{
    ND(int, depth_, int); ND(_Bool, hasG_, bool); ND(int, sideG_, int);
#ifndef MAXDEPTH
#define MAXDEPTH 2
#endif
    ASSUME(depth_ >= 0 && depth_ <= MAXDEPTH && (sideG_ == -1 || sideG_ == 1));
    depth = depth_; uhasG = hasG_; usideG = sideG_;
    NDC(cG); NDC(cX); NDC(c0); NDC(c1); NDC(c2); NDC(c3);
    NDC(cA); NDC(d0); NDC(d1); NDC(d2); NDC(d3);
    ND(_Bool, eA, bool); ND(_Bool, e0, bool); ND(_Bool, e1, bool); ND(_Bool, e2, bool); ND(_Bool, e3, bool);
    NDG(gA); NDG(g0); NDG(g1); NDG(g2); NDG(g3);
    ND(_Bool, kA, bool); ND(_Bool, k0, bool); ND(_Bool, k1, bool); ND(_Bool, k2, bool); ND(_Bool, k3, bool);
    ND(_Bool, one_child_left, bool); ND(_Bool, no_right, bool);
    ucX = cX;
    wn *sp[4]; sp[0] = &uS0; sp[1] = &uS1; sp[2] = &uS2; sp[3] = &uS3;
    wn *rb[4]; rb[0] = &uR0; rb[1] = &uR1; rb[2] = &uR2; rb[3] = &uR3;
    unsigned cs[4]; cs[0] = c0; cs[1] = c1; cs[2] = c2; cs[3] = c3;
    unsigned ds[4]; ds[0] = d0; ds[1] = d1; ds[2] = d2; ds[3] = d3;
    _Bool es[4]; es[0] = e0; es[1] = e1; es[2] = e2; es[3] = e3;
    int i;
    nw = 0; Wn[nw++] = &uX;
    for (i = 0; i < 4; ++i) { if (!no_right && i <= depth) { Wn[nw++] = sp[i]; } }
    Bn[0] = &uA; Bn[1] = &uR0; Bn[2] = &uR1; Bn[3] = &uR2; Bn[4] = &uR3; nb = 5;
    Bg[0] = gA; Bg[1] = g0; Bg[2] = g1; Bg[3] = g2; Bg[4] = g3;
    Bcb[0] = kA; Bcb[1] = k0; Bcb[2] = k1; Bcb[3] = k2; Bcb[4] = k3;
    /* keys: A < X < s_depth < ... < s1 < s0, right subtree of s_i just above s_i */
    uG.key = 1000; uA.key = 10; uX.key = 20;
    for (i = 0; i < 4; ++i) { sp[i]->key = 100 - 20 * i; rb[i]->key = 100 - 20 * i + 5; }
    /* links */
    uG.n.left = uG.n.right = A_NULL; a_rbt_set_parent_color(&uG.n, A_NULL, cG);
    uX.n.left = uX.n.right = A_NULL; a_rbt_set_parent_color(&uX.n, uhasG ? &uG.n : (a_rbt_node *)A_NULL, cX);
    if (uhasG) { setc(&uG.n, &uX.n, usideG); root.node = &uG.n; } else { root.node = &uX.n; }
    link_opt(&uX, &uA, -1, eA, cA);
    if (!no_right)
    {
        link_opt(&uX, &uS0, 1, 1, c0);
        for (i = 0; i < 4; ++i)
        {
            if (i <= depth)
            {
                link_opt(sp[i], rb[i], 1, es[i], ds[i]);
                if (i < depth) { link_opt(sp[i], sp[i + 1], -1, 1, cs[i + 1]); }
            }
        }
    }
    uGword0 = uG.n.parent_; uGother0 = getc(&uG.n, -usideG);
    /* which of the three entry shapes: no left child / left child only / two children */
    ASSUME(!one_child_left || (eA && no_right));
    ASSUME(one_child_left || !no_right || !eA || 1);
    /* the whole window is a valid red-black tree */
    deficit_parent = A_NULL;
    upasses();
    ASSUME(ok_of(&uX.n));
    ASSUME(!uhasG || cG == 1 || cX == 1);
    ASSUME(uhasG || cX == 1);
    ubh_old = bh_of(&uX.n);
    usize0 = sz_of(&uX.n);
    hook_seen = 0;
    a_rbt_remove(&root, &uX.n);
    {
        /* no fix-up was needed: the result is a valid tree of the old black height */
        a_rbt_node *t = utop();
        /* X is no longer a window node of the tree: judge the remaining nodes */
        int j = 0;
        wn *keep[NW];
        for (i = 0; i < NW; ++i) { if (i < nw && Wn[i] != &uX) { keep[j++] = Wn[i]; } }
        for (i = 0; i < NW; ++i) { if (i < j) { Wn[i] = keep[i]; } }
        nw = j;
        deficit_parent = A_NULL;
        upasses();
        ASSERT(uframe(), "remove: nothing above the removed node changed");
        if (usize0 == 1) { ASSERT(t == A_NULL, "remove: removing the only element of the subtree leaves it empty"); }
        else
        {
            ASSERT(t != A_NULL && known(t) && a_rbt_parent(t) == (uhasG ? &uG.n : (a_rbt_node *)A_NULL), "remove: the replacement hangs below the removed node's parent");
            ASSERT(ok_of(t), "remove (no fix-up needed): the tree is a valid red-black search tree");
            ASSERT(bh_of(t) == ubh_old, "remove (no fix-up needed): black height unchanged");
            ASSERT(sz_of(t) == usize0 - 1, "remove: exactly the removed element is gone");
            ASSERT(blackp(t) || ucX == 0 || uhasG, "remove: a root stays black");
        }
    }
    VERIF_CANARY();
}
#endif
