/* C05 (part 2) / C07: queue (src/que.c, include/a/que.h) against an abstract double-ended sequence.
   An arbitrary well-formed queue: ring of n <= 3 heap nodes with symbolic payloads (element size 4), recycle
   pool of capacity 0 or 8 holding c <= 2 recycled nodes.  Every operation is compared with the abstract
   sequence (payload values AND node addresses: element addresses stay fixed while enqueued), the ring is walked
   in both directions, and the allocator model may fail at every request (C07) with a ledger of live blocks. */
#include "contracts/verif.h"
#include "a/que.h"

#define SIZ 4
#define MAXQ 3
#define MAXC 2
#define NODESZ (sizeof(a_list) + SIZ)

int verif_live, verif_alloc_failed, verif_requests;
unsigned verif_fail_mask;
#ifndef VERIF_NATIVE
static void *sized_malloc(a_size size)
{
    void *p = A_NULL;
    _Bool found = 0;
    if (size == NODESZ) { p = malloc(NODESZ); found = 1; }
    else if (size == sizeof(a_list) + 8) { p = malloc(sizeof(a_list) + 8); found = 1; }   /* node after a_que_setz(8) */
    else if (size == 8 * sizeof(void *)) { p = malloc(8 * sizeof(void *)); found = 1; }   /* pool array grown from 0 */
    else if (size == 16 * sizeof(void *)) { p = malloc(16 * sizeof(void *)); found = 1; } /* pool array grown from 8 */
    else if (size == sizeof(a_que)) { p = malloc(sizeof(a_que)); found = 1; }
    __CPROVER_assert(found, "allocator model: the requested size is one of the modelled sizes");
    __CPROVER_assume(found && p != A_NULL);
    return p;
}
static void *verif_alloc(void *addr, a_size size)
{
    if (size == 0)
    {
        if (addr) { free(addr); --verif_live; }
        return A_NULL;
    }
    if (verif_requests < 32 && ((verif_fail_mask >> verif_requests++) & 1)) { verif_alloc_failed = 1; return A_NULL; }
    unsigned char *p = (unsigned char *)sized_malloc(size);
    if (addr)
    {
        a_size old = __CPROVER_OBJECT_SIZE(addr), k;
        __CPROVER_assert(old <= 32, "allocator model: only nodes and the two-entry pool array are ever re-allocated here");
        for (k = 0; k < 32; ++k) { if (k < old && k < size) { p[k] = ((unsigned char *)addr)[k]; } }
        free(addr);
    }
    else { ++verif_live; }
    return p;
}
#else
static void *verif_alloc(void *addr, a_size size)
{
    if (!size) { if (addr) { free(addr); --verif_live; } return 0; }
    if (verif_requests < 32 && ((verif_fail_mask >> verif_requests++) & 1)) { verif_alloc_failed = 1; return 0; }
    if (!addr) { ++verif_live; }
    return realloc(addr, size);
}
#endif
#include "src/a.c"
#include "src/que.c"

/* ---- the queue under test and its abstract view ---- */
static a_que Q;
static a_list *node0[MAXQ];   /* node addresses of the elements before the operation, front to back */
static int val0[MAXQ];        /* their payloads */
static a_list *pool0[MAXC];   /* recycled nodes before the operation */
static a_size n0, c0, m0;     /* count, pool cursor, pool capacity before the operation */
static a_list **parr0;

static void mkq(a_que *q, a_size n, a_size c, a_size m, a_list **nodes, int *vals, a_list **pool)
{
    unsigned k;
    a_list *prev = &q->head_;
    q->siz_ = SIZ; q->num_ = n; q->cur_ = c; q->mem_ = m;
    q->ptr_ = m == 0 ? (a_list **)A_NULL : m == 2 ? (a_list **)malloc(2 * sizeof(void *)) : (a_list **)malloc(8 * sizeof(void *));
    ASSUME(m == 0 || q->ptr_ != A_NULL);
    if (m) { ++verif_live; }
    for (k = 0; k < MAXQ; ++k)
    {
        if (k < n)
        {
            a_list *x = (a_list *)malloc(NODESZ);
            ASSUME(x != A_NULL);
            ++verif_live;
            prev->next = x; x->prev = prev; prev = x;
            nodes[k] = x;
            *(int *)(x + 1) = vals[k];
        }
    }
    prev->next = &q->head_;
    q->head_.prev = prev;
    for (k = 0; k < MAXC; ++k)
    {
        if (k < c)
        {
            a_list *x = (a_list *)malloc(NODESZ);
            ASSUME(x != A_NULL);
            ++verif_live;
            x->next = x->prev = x;
            q->ptr_[k] = x;
            pool[k] = x;
        }
    }
}
static void mk(void)
{
    unsigned k;
    a_alloc = verif_alloc;
    verif_live = 0; verif_alloc_failed = 0; verif_requests = 0;
    { ND(unsigned, fail_mask, u32); verif_fail_mask = fail_mask; }
    ND(a_size, n_, size); ND(a_size, c_, size); ND(a_size, m_, size);
    ASSUME(n_ <= MAXQ && (m_ == 0 || m_ == 2 || m_ == 8) && c_ <= MAXC && c_ <= m_); /* pool capacity 2: a nearly full pool (reachable states have multiples of 8; the code never relies on that) */
    n0 = n_; c0 = c_; m0 = m_;
    for (k = 0; k < MAXQ; ++k) { int v; ND_ARR(v, val0, k, int); val0[k] = v; }
    mkq(&Q, n0, c0, m0, node0, val0, pool0);
    parr0 = Q.ptr_;
}
/* the ring of q is exactly nodes[0..n): forward walk, backward links, closure, count */
static int is_que(a_que *q, a_list **nodes, unsigned n)
{
    unsigned k; int ok = 1;
    a_list *it = &q->head_;
    for (k = 0; k < MAXQ + 1; ++k) { if (k < n) { if (it->next != nodes[k] || nodes[k]->prev != it) { ok = 0; } it = nodes[k]; } }
    if (it->next != &q->head_ || q->head_.prev != it) { ok = 0; }
    if (q->num_ != n) { ok = 0; }
    return ok;
}
static int payload_kept(a_list **nodes, int *vals, unsigned n)
{
    unsigned k; int ok = 1;
    for (k = 0; k < MAXQ + 1; ++k) { if (k < n && nodes[k] != A_NULL && *(int *)(nodes[k] + 1) != vals[k]) { ok = 0; } }
    return ok;
}
static a_list *seq[MAXQ + 1]; static int sval[MAXQ + 1]; static unsigned sn; /* expected sequence after the operation */
static void seq_init(void) { unsigned k; sn = (unsigned)n0; for (k = 0; k < MAXQ; ++k) { if (k < n0) { seq[k] = node0[k]; sval[k] = val0[k]; } } }
static void seq_ins(unsigned pos, a_list *x, int v) { unsigned k; for (k = MAXQ; k > 0; --k) { if (k > pos && k <= sn) { seq[k] = seq[k - 1]; sval[k] = sval[k - 1]; } } seq[pos] = x; sval[pos] = v; ++sn; }
static void seq_del(unsigned pos) { unsigned k; for (k = 0; k < MAXQ; ++k) { if (k >= pos && k + 1 < sn) { seq[k] = seq[k + 1]; sval[k] = sval[k + 1]; } } --sn; }
#define UNCHANGED(what)                                                                                \
    do {                                                                                               \
        seq_init();                                                                                    \
        ASSERT(is_que(&Q, seq, sn) && payload_kept(seq, sval, sn), what ": ring and payloads unchanged"); \
        ASSERT(Q.cur_ == c0 && Q.mem_ == m0 && Q.ptr_ == parr0 && Q.siz_ == SIZ, what ": pool and element size unchanged"); \
    } while (0)
#define LEDGER() do { \
        ASSERT(verif_live == (int)(Q.num_ + Q.cur_ + (Q.ptr_ ? 1 : 0)), "ledger: live blocks are exactly the enqueued nodes, the pooled nodes and the pool array"); \
        { ND(unsigned, lw, u32); ND(unsigned, lv, u32); if (lw < Q.cur_) { ASSERT(Q.ptr_[lw] != A_NULL, "ledger: every pooled slot holds a node (no block is lost from the pool)"); \
          if (lv < lw) { ASSERT(Q.ptr_[lv] != Q.ptr_[lw], "ledger: no node is pooled twice"); } } } \
    } while (0)
static int in_old_ring(a_list *x) { unsigned k; int r = 0; for (k = 0; k < MAXQ; ++k) { if (k < n0 && node0[k] == x) { r = 1; } } return r; }

/* ---- push / insert ---- */
static void chk_push(void *r, unsigned pos)
{
    if (r == A_NULL)
    {
        ASSERT(verif_alloc_failed && c0 == 0, "push: refuses only when a node had to be allocated and the allocation failed");
        UNCHANGED("failed push");
    }
    else
    {
        a_list *x = (a_list *)r - 1;
        ASSERT(!in_old_ring(x), "push: a node is never handed out while still enqueued");
        if (c0 > 0) { ASSERT(x == pool0[c0 - 1] && Q.cur_ == c0 - 1, "push: recycles the most recently pooled node and removes it from the pool"); }
        else { ASSERT(Q.cur_ == 0, "push: fresh node, pool untouched"); }
        seq_init();
        seq_ins(pos, x, 0);
        ASSERT(is_que(&Q, seq, sn), "push/insert: the new element sits at the requested position, ring well linked, count + 1");
        seq_del(pos);
        ASSERT(payload_kept(seq, sval, sn), "push/insert: existing elements keep their addresses and contents");
    }
    LEDGER();
}
void h_push(void)
{
    mk();
    ND(unsigned, op, u32); ND(a_size, idx, size);
    ASSUME(op < 3);
    if (op == 0) { chk_push(a_que_push_fore(&Q), 0); }
    else if (op == 1) { chk_push(a_que_push_back(&Q), (unsigned)n0); }
    else { chk_push(a_que_insert(&Q, idx), idx < n0 ? (unsigned)idx : (unsigned)n0); }
    VERIF_CANARY();
}

/* ---- pull / remove ---- */
static void chk_pull(void *r, unsigned pos)
{
    if (n0 == 0) { ASSERT(r == A_NULL, "pull: empty queue yields null"); UNCHANGED("pull on empty"); }
    else if (r == A_NULL)
    {
        ASSERT(verif_alloc_failed && c0 == m0, "pull: refuses only when the pool had to grow and the allocation failed");
        UNCHANGED("failed pull");
    }
    else
    {
        ASSERT(r == (void *)(node0[pos] + 1) && *(int *)r == val0[pos], "pull/remove: returns the removed element intact");
        ASSERT(Q.cur_ == c0 + 1 && Q.ptr_[c0] == node0[pos], "pull/remove: the node goes to the recycle pool");
        seq_init();
        seq_del(pos);
        ASSERT(is_que(&Q, seq, sn) && payload_kept(seq, sval, sn), "pull/remove: the others keep order, addresses and contents; ring well linked, count - 1");
    }
    LEDGER();
}
void h_pull(void)
{
    mk();
    ND(unsigned, op, u32); ND(a_size, idx, size);
    ASSUME(op < 3);
    if (op == 0) { chk_pull(a_que_pull_fore(&Q), 0); }
    else if (op == 1) { chk_pull(a_que_pull_back(&Q), n0 ? (unsigned)n0 - 1 : 0); }
    else { chk_pull(a_que_remove(&Q, idx), idx < n0 ? (unsigned)idx : (n0 ? (unsigned)n0 - 1 : 0)); }
    VERIF_CANARY();
}

/* ---- indexed access from either end ---- */
void h_at(void)
{
    mk();
    ND(long, idx, long);
    void *r = a_que_at(&Q, idx);
    if (idx >= 0) { ASSERT(r == ((a_size)idx < n0 ? (void *)(node0[idx] + 1) : A_NULL), "at: element idx from the front, null beyond the end"); }
    else if ((a_size)(-(idx + 1)) < n0) { ASSERT(r == (void *)(node0[n0 - (a_size)(-(idx + 1)) - 1] + 1), "at: -1 is the last element, -count the first"); }
    else { ASSERT(r == A_NULL, "at: null beyond the front"); }
    ASSERT(a_que_fore(&Q) == (n0 ? (void *)(node0[0] + 1) : A_NULL) && a_que_back(&Q) == (n0 ? (void *)(node0[n0 - 1] + 1) : A_NULL), "fore/back: first/last element or null");
    UNCHANGED("access");
    VERIF_CANARY();
}

/* ---- element swap (any two distinct elements, adjacent or not) ---- */
void h_swap_elem(void)
{
    mk();
    ND(unsigned, i, u32); ND(unsigned, j, u32);
    ASSUME(i < n0 && j < n0 && i != j);
    a_que_swap_(node0[i] + 1, node0[j] + 1);
    seq_init();
    { a_list *t = seq[i]; int v = sval[i]; seq[i] = seq[j]; sval[i] = sval[j]; seq[j] = t; sval[j] = v; }
    ASSERT(is_que(&Q, seq, sn) && payload_kept(seq, sval, sn), "element swap: the two elements exchange positions (addresses and contents travel with the nodes), ring well linked");
    VERIF_CANARY();
}

/* ---- whole-queue swap ---- */
void h_swap_que(void)
{
    mk();
    a_que R; a_list *rn[MAXQ]; int rv[MAXQ]; a_list *rp[MAXC];
    ND(a_size, rn_, size); ND(int, rv0, int);
    ASSUME(rn_ <= 1);
    rv[0] = rv0;
    mkq(&R, rn_, 0, 0, rn, rv, rp);
    a_que_swap(&Q, &R);
    ASSERT(is_que(&R, node0, (unsigned)n0) && payload_kept(node0, val0, (unsigned)n0), "queue swap: the right object now holds the left contents, ring attached to its own sentinel");
    ASSERT(is_que(&Q, rn, (unsigned)rn_) && payload_kept(rn, rv, (unsigned)rn_), "queue swap: the left object now holds the right contents, ring attached to its own sentinel");
    ASSERT(R.cur_ == c0 && R.mem_ == m0 && R.ptr_ == parr0 && Q.cur_ == 0 && Q.mem_ == 0 && Q.ptr_ == A_NULL, "queue swap: pools travel with the contents");
    VERIF_CANARY();
}

/* ---- sorted insertion variants (payload ints) ---- */
static int cmp_int(void const *l, void const *r) { int a = *(int const *)l, b = *(int const *)r; return (a > b) - (a < b); }
static int sorted0(unsigned from, unsigned to) { unsigned k; int ok = 1; for (k = 0; k + 1 < MAXQ; ++k) { if (k >= from && k + 1 < to && val0[k] > val0[k + 1]) { ok = 0; } } return ok; }
void h_sort(void)
{
    mk();
    ND(unsigned, op, u32);
    ASSUME(op < 3);
    unsigned k, p = 0;
    seq_init();
    if (op == 0)
    {
        ASSUME(sorted0(1, (unsigned)n0));
        a_que_sort_fore(&Q, cmp_int);
        if (n0 > 1) { for (k = 1; k < MAXQ; ++k) { if (k < n0 && val0[k] < val0[0]) { ++p; } } seq_del(0); seq_ins(p, node0[0], val0[0]); }
        ASSERT(is_que(&Q, seq, sn) && payload_kept(seq, sval, sn), "sort_fore: the first element moves behind all strictly smaller ones, nothing lost");
    }
    else if (op == 1)
    {
        ASSUME(n0 == 0 || sorted0(0, (unsigned)n0 - 1));
        a_que_sort_back(&Q, cmp_int);
        if (n0 > 1) { for (k = 0; k + 1 < MAXQ; ++k) { if (k + 1 < n0 && val0[k] <= val0[n0 - 1]) { ++p; } } seq_del((unsigned)n0 - 1); seq_ins(p, node0[n0 - 1], val0[n0 - 1]); }
        ASSERT(is_que(&Q, seq, sn) && payload_kept(seq, sval, sn), "sort_back: the last element moves behind all elements not greater than it, nothing lost");
    }
    else
    {
        ND(int, key, int);
        ASSUME(sorted0(0, (unsigned)n0));
        void *r = a_que_push_sort(&Q, &key, cmp_int);
        if (r == A_NULL) { ASSERT(verif_alloc_failed && c0 == 0, "push_sort: refuses only when the node allocation failed"); UNCHANGED("failed push_sort"); }
        else
        {
            for (k = 0; k < MAXQ; ++k) { if (k < n0 && val0[k] <= key) { ++p; } }
            ASSERT(!in_old_ring((a_list *)r - 1), "push_sort: a node is never handed out while still enqueued");
            seq_ins(p, (a_list *)r - 1, 0);
            ASSERT(is_que(&Q, seq, sn), "push_sort: the new element sits behind all elements not greater than the key");
            seq_del(p);
            ASSERT(payload_kept(seq, sval, sn), "push_sort: existing elements keep addresses and contents");
        }
        LEDGER();
    }
    VERIF_CANARY();
}

/* ---- drop, element-size change, destruction ---- */
void h_drop(void)
{
    mk();
    int rc = a_que_drop(&Q, 0);
    if (rc != A_SUCCESS) { ASSERT(rc == A_OMEMORY && verif_alloc_failed, "drop: fails only when the pool could not grow"); UNCHANGED("failed drop"); }
    else
    {
        ASSERT(Q.num_ == 0 && Q.head_.next == &Q.head_ && Q.head_.prev == &Q.head_, "drop: the queue is empty");
        ASSERT(Q.cur_ == c0 + n0 && Q.cur_ <= Q.mem_, "drop: every element's node is in the recycle pool");
        { ND(unsigned, w, u32); if (w < n0) { ASSERT(Q.ptr_[c0 + w] == node0[w], "drop: nodes are pooled front to back"); } }
    }
    LEDGER();
    VERIF_CANARY();
}
void h_setz(void)
{
    mk();
    ND(a_size, z, size);
    ASSUME(z == 0 || z == 2 || z == 4 || z == 8);
    ASSUME(n0 + c0 <= 2); /* every pooled node is re-allocated: keep the number of blocks small */
    int rc = a_que_setz(&Q, z, 0);
    if (rc != A_SUCCESS)
    {
        ASSERT(rc == A_OMEMORY && verif_alloc_failed, "setz: fails only when an allocation failed");
        ASSERT(Q.num_ == n0 && Q.head_.next == (n0 ? node0[0] : &Q.head_) && Q.siz_ == SIZ, "failed setz: the queue still holds its elements and its element size");
    }
    else
    {
        ASSERT(Q.num_ == 0 && Q.head_.next == &Q.head_ && Q.siz_ == (z ? z : 1), "setz: queue emptied, element size changed (zero treated as one)");
        ASSERT(Q.cur_ == c0 + n0, "setz: all nodes pooled");
#ifndef VERIF_NATIVE
        { ND(unsigned, w, u32); if (w < Q.cur_ && z == 8) { ASSERT(__CPROVER_OBJECT_SIZE(Q.ptr_[w]) >= sizeof(a_list) + 8, "setz: every pooled node can hold an element of the new size"); } }
#endif
    }
    LEDGER();
    VERIF_CANARY();
}
void h_dtor(void)
{
    mk();
    a_que_dtor(&Q, 0);
    ASSERT(verif_live == 0, "dtor: every block obtained from the allocator is released exactly once");
    ASSERT(Q.ptr_ == A_NULL && Q.mem_ == 0, "dtor: pool released");
    a_que *p = a_que_new(SIZ);
    if (p == A_NULL) { ASSERT(verif_alloc_failed && verif_live == 0, "new: fails only when the allocation failed, nothing leaked"); }
    else
    {
        ASSERT(verif_live == 1 && p->num_ == 0 && p->cur_ == 0 && p->mem_ == 0 && p->head_.next == &p->head_ && p->siz_ == SIZ, "new: empty queue");
        (void)a_que_push_back(p);
        (void)a_que_pull_fore(p);
        (void)a_que_push_fore(p);
        a_que_die(p, 0);
        ASSERT(verif_live == 0, "die: everything released, whatever failed in between");
    }
    VERIF_CANARY();
}
