/* C04, unbounded part: the pieces of the vector/buffer code that can be proved for ALL sizes:
   a_swap (src/a.c) under a loop contract, the capacity growth of a_vec_setm under a loop contract, and the
   loop-free accessors with fully symbolic fields. */
#include "contracts/verif.h"
#include "a/vec.h"
#include "a/buf.h"

/* ghost witness for a_swap: byte verif_w of both blocks */
a_size verif_w;
unsigned char verif_l0, verif_r0; /* original bytes at the witness position */

/* allocator stub for the growth proof: succeeds or fails, never touches memory (the block contents are C04-bounded / C07) */
int verif_alloc_calls;
a_size verif_alloc_size;
_Bool verif_alloc_ok;
static unsigned char verif_arena[16];
static void *stub_alloc(void *addr, a_size size)
{
    (void)addr;
    ++verif_alloc_calls;
    verif_alloc_size = size;
    return verif_alloc_ok && size ? (void *)verif_arena : A_NULL;
}

#ifndef VERIF_NATIVE
void contract_a_swap(void *lhs_, void *rhs_, a_size siz)
    __CPROVER_requires(siz <= 0x10000ul && verif_w < siz)
    __CPROVER_requires(__CPROVER_is_fresh(lhs_, siz) && __CPROVER_is_fresh(rhs_, siz))
    __CPROVER_requires(((unsigned char *)lhs_)[verif_w] == verif_l0 && ((unsigned char *)rhs_)[verif_w] == verif_r0)
    __CPROVER_assigns(__CPROVER_object_whole(lhs_), __CPROVER_object_whole(rhs_))
    __CPROVER_ensures(((unsigned char *)lhs_)[verif_w] == verif_r0 && ((unsigned char *)rhs_)[verif_w] == verif_l0);
#endif

#include "src/a.c"
#include "src/vec.c"

/* ---- [P] a_swap: every byte of the two blocks is exchanged (ghost witness byte), for every size ---- */
void h_swap_bytes(void)
{
    void *l, *r;
    a_size n;
    a_swap(l, r, n);
    VERIF_CANARY();
}

/* ---- [P] a_vec_setm: growth policy for every capacity up to 2^40 ---- */
void h_setm_growth(void)
{
    a_vec v;
    ND(a_size, siz, size); ND(a_size, num, size); ND(a_size, cap, size); ND(a_size, want, size); ND(_Bool, ok, bool);
    a_size mem = cap;
#ifdef PSIZ
    ASSUME(siz == PSIZ); /* element size concretised (symbolic x symbolic products are out of the solver's reach) */
#endif
    ASSUME(siz >= 1 && siz <= 0x10000 && num <= mem && mem <= 0x10000000000ul && want <= 0x10000000000ul);
    v.siz_ = siz; v.num_ = num; v.mem_ = mem; v.ptr_ = mem ? (void *)(verif_arena + 8) : A_NULL;
    void *p0 = v.ptr_;
    a_alloc = stub_alloc;
    verif_alloc_calls = 0; verif_alloc_ok = ok;
    int rc = a_vec_setm(&v, want);
    if (want <= mem)
    {
        ASSERT(rc == A_SUCCESS && verif_alloc_calls == 0 && v.mem_ == mem && v.ptr_ == p0, "setm: a request within the capacity changes nothing and allocates nothing");
    }
    else if (rc == A_SUCCESS)
    {
        ASSERT(verif_alloc_calls == 1 && ok, "setm: exactly one allocation request");
        ASSERT(v.mem_ >= want && v.mem_ % sizeof(void *) == 0, "setm: the new capacity covers the request and is rounded up to the pointer size");
        ASSERT(v.mem_ <= want + (want >> 1) + 1 + sizeof(void *), "setm: growth stays within 1.5x + 1 of the request (rounded)");
        ASSERT(verif_alloc_size == v.siz_ * v.mem_ && v.ptr_ == (void *)verif_arena, "setm: the block is requested for capacity * element size and committed");
    }
    else
    {
        ASSERT(rc == A_OMEMORY && !ok && verif_alloc_calls == 1, "setm: failure is reported exactly when the allocation failed");
        ASSERT(v.mem_ == mem && v.ptr_ == p0, "setm: on failure the old block and capacity are kept");
    }
    ASSERT(v.num_ == num && v.siz_ == siz, "setm: count and element size untouched");
    VERIF_CANARY();
}

/* ---- [P] accessors with fully symbolic fields: pure address arithmetic inside the owned capacity ---- */
void h_accessors(void)
{
    a_vec v;
    static unsigned char base[1];
    ND(a_size, siz, size); ND(a_size, num, size); ND(a_size, mem, size); ND(a_size, idx, size); ND(long, sidx, long);
#ifdef PSIZ
    ASSUME(siz == PSIZ);
#endif
    ASSUME(siz >= 1 && siz <= 0x10000 && num <= mem && mem <= 0x100000000ul);
    v.siz_ = siz; v.num_ = num; v.mem_ = mem; v.ptr_ = base;
    ASSERT(a_vec_at(&v, idx) == (idx < mem ? (void *)(base + siz * idx) : A_NULL), "at: slot idx inside the capacity, null otherwise (all indices)");
    ASSERT(a_vec_top(&v) == (num ? (void *)(base + siz * (num - 1)) : A_NULL), "top: last element or null");
    ASSERT(a_vec_end(&v) == (void *)(base + siz * num), "end: one past the last element");
    if (sidx >= 0) { ASSERT(a_vec_of(&v, sidx) == ((a_size)sidx < mem ? (void *)(base + siz * (a_size)sidx) : A_NULL), "of: non-negative index like at"); }
    else if ((a_size)(-(sidx + 1)) < num) { ASSERT(a_vec_of(&v, sidx) == (void *)(base + siz * (num - (a_size)(-(sidx + 1)) - 1)), "of: -1 is the last element"); }
    ASSERT(a_vec_num(&v) == num && a_vec_mem(&v) == mem && a_vec_siz(&v) == siz && a_vec_ptr(&v) == (void *)base, "field accessors");
    VERIF_CANARY();
}
