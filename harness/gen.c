/* C16: coefficient generators of the RC filters: for positive finite cut-off frequency and sample time the
   coefficient is a number (never NaN) and not negative - the sign/NaN part of "maps into [0,1]"; the upper bound 1
   needs a monotonicity fact about IEEE division and is not decided. */
#include "contracts/verif.h"
#include "a/lpf.h"
#include "a/hpf.h"
#define FINITE(x) ((x) - (x) == 0)
void h_gen(void)
{
    ND(a_real, fc, double); ND(a_real, ts, double);
    ASSUME(FINITE(fc) && FINITE(ts) && fc > 0 && ts > 0);
    a_real l = a_lpf_gen(fc, ts), h = a_hpf_gen(fc, ts);
    ASSERT(l == l, "lpf_gen: a number for every positive finite fc, ts (also when fc*ts overflows or underflows)");
    ASSERT(l >= 0, "lpf_gen: not negative");
    ASSERT(h == h, "hpf_gen: a number for every positive finite fc, ts");
    ASSERT(h >= 0, "hpf_gen: not negative");
    VERIF_CANARY();
}
