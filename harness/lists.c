/* C05 (part 1): intrusive circular list (include/a/list.h) and singly linked list (include/a/slist.h)
   against abstract sequences.  Rings are built from a pool of NN nodes: ring A = sentinel nd[0] + la nodes,
   ring B = sentinel nd[1] + lb nodes, the remaining pool nodes are free singletons.  Every primitive is loop-free
   and touches only the named nodes and their neighbours, so rings of <= 3 nodes with every choice of positions
   enumerate all aliasing patterns of the window (sentinel adjacent / same node / neighbours); longer rings differ
   only in nodes the primitive cannot reach (frame).  After the operation both rings are walked forwards, compared
   with the abstract sequence, and every node on the walk is checked for x->next->prev == x. */
#include "contracts/verif.h"
#include "a/list.h"
#include "a/slist.h"

#define NN 7   /* pool: 2 sentinels + 5 nodes */
#define ML 3   /* la + lb <= ML, so at least two free nodes remain */
static a_list nd[NN];
static unsigned char SA[NN], SB[NN]; /* abstract sequences (pool indices) */
static unsigned la, lb;

static void ring(unsigned h, unsigned char const *s, unsigned n) /* build the ring of sentinel h with content s[0..n) */
{
    unsigned k;
    a_list *prev = &nd[h];
    for (k = 0; k < NN; ++k) { if (k < n) { prev->next = &nd[s[k]]; nd[s[k]].prev = prev; prev = &nd[s[k]]; } }
    prev->next = &nd[h];
    nd[h].prev = prev;
}
static void mk(void)
{
    unsigned k;
    ND(unsigned, la_, u32); ND(unsigned, lb_, u32);
    ASSUME(la_ + lb_ <= ML && la_ <= ML && lb_ <= ML);
    la = la_; lb = lb_;
    for (k = 0; k < NN; ++k) { nd[k].next = nd[k].prev = &nd[k]; } /* free nodes are singletons */
    for (k = 0; k < ML; ++k) { if (k < la) { SA[k] = (unsigned char)(2 + k); } }
    for (k = 0; k < ML; ++k) { if (k < lb) { SB[k] = (unsigned char)(2 + la + k); } }
    ring(0, SA, la);
    ring(1, SB, lb);
}
#define FREE1 (2 + la + lb)     /* first free pool node */
#define FREE2 (3 + la + lb)
/* the ring of sentinel h is exactly s[0..n): forward walk, backward links, closure */
static int is_ring(unsigned h, unsigned char const *s, unsigned n)
{
    unsigned k; int ok = 1;
    a_list *it = &nd[h];
    for (k = 0; k < NN; ++k)
    {
        if (k < n)
        {
            if (it->next != &nd[s[k]] || nd[s[k]].prev != it) { ok = 0; }
            it = &nd[s[k]];
        }
    }
    if (it->next != &nd[h] || nd[h].prev != it) { ok = 0; }
    return ok;
}
static void ins(unsigned char *s, unsigned *n, unsigned pos, unsigned char v) /* abstract insert */
{
    unsigned k;
    for (k = NN - 1; k > 0; --k) { if (k > pos && k <= *n) { s[k] = s[k - 1]; } }
    s[pos] = v;
    ++*n;
}
static void del(unsigned char *s, unsigned *n, unsigned pos) /* abstract remove */
{
    unsigned k;
    for (k = 0; k + 1 < NN; ++k) { if (k >= pos && k + 1 < *n) { s[k] = s[k + 1]; } }
    --*n;
}
#define CHECK(msg) ASSERT(is_ring(0, SA, la) && is_ring(1, SB, lb), msg)
#define FREE_UNTOUCHED(i) ASSERT(nd[i].next == &nd[i] && nd[i].prev == &nd[i], "a node not involved keeps its links")

/* ---- adding ---- */
void h_list_add(void)
{
    mk();
    ND(unsigned, op, u32); ND(unsigned, pos, u32);
    ASSUME(op < 4 && pos <= la);
    unsigned x = FREE1, spare = FREE2;
    a_list *before = pos == 0 ? &nd[0] : &nd[SA[pos - 1]]; /* element in front of the insertion point (sentinel = position -1) */
    a_list *after = pos == la ? &nd[0] : &nd[SA[pos]];
    if (op == 0) { a_list_add_next(&nd[0], &nd[x]); ins(SA, &la, 0, (unsigned char)x); }
    else if (op == 1) { a_list_add_prev(&nd[0], &nd[x]); ins(SA, &la, la, (unsigned char)x); }
    else if (op == 2) { a_list_add_node(after, before, &nd[x]); ins(SA, &la, pos, (unsigned char)x); } /* between tail=before and head=after */
    else { a_list_add_next(before, &nd[x]); ins(SA, &la, pos, (unsigned char)x); }                 /* behind an arbitrary element */
    CHECK("add: the node appears at the requested position, both rings well linked");
    FREE_UNTOUCHED(spare);
    VERIF_CANARY();
}

/* ---- deleting ---- */
void h_list_del(void)
{
    mk();
    ND(unsigned, op, u32); ND(unsigned, i, u32); ND(unsigned, j, u32);
    ASSUME(op < 4 && la >= 1 && i < la && j < la && i <= j);
    a_list *ni = &nd[SA[i]];
    unsigned victim = SA[i], k, spare = FREE1;
    if (op == 0) { a_list_del_node(ni); del(SA, &la, i); }
    else if (op == 1) { ASSUME(i + 1 < la); victim = SA[i + 1]; a_list_del_next(ni); del(SA, &la, i + 1); }  /* removes the element behind i */
    else if (op == 2) { ASSUME(i >= 1); victim = SA[i - 1]; a_list_del_prev(ni); del(SA, &la, i - 1); }       /* removes the element in front of i */
    else { a_list *nj = &nd[SA[j]]; a_list_del_(ni, nj); for (k = 0; k < ML; ++k) { if (k <= j - i) { del(SA, &la, i); } } } /* section i..j */
    CHECK("del: exactly the named node(s) leave the ring, both rings well linked");
    (void)victim;
    FREE_UNTOUCHED(spare);
    VERIF_CANARY();
}

/* ---- replacing ---- */
void h_list_set(void)
{
    mk();
    ND(unsigned, op, u32); ND(unsigned, i, u32); ND(unsigned, j, u32);
    ASSUME(op < 2 && la >= 1 && i < la && j < la && i <= j);
    unsigned x = FREE1, y = FREE2, k;
    if (op == 0) { a_list_set_node(&nd[SA[i]], &nd[x]); SA[i] = (unsigned char)x; }
    else
    {
        /* replace the section i..j by the chain x-y */
        nd[x].next = &nd[y]; nd[y].prev = &nd[x];
        a_list_set_(&nd[SA[i]], &nd[SA[j]], &nd[x], &nd[y]);
        for (k = 0; k < ML; ++k) { if (k <= j - i) { del(SA, &la, i); } }
        ins(SA, &la, i, (unsigned char)y);
        ins(SA, &la, i, (unsigned char)x);
    }
    CHECK("set: the named node/section is replaced in place, both rings well linked");
    VERIF_CANARY();
}

/* ---- moving a whole list, rotating ---- */
void h_list_mov_rot(void)
{
    mk();
    ND(unsigned, op, u32);
    ASSUME(op < 4);
    unsigned k;
    if (op == 0 || op == 1)
    {
        ASSUME(lb >= 1); /* a non-empty list is moved; its sentinel is left behind and must be re-initialised by the caller */
        unsigned n0 = lb;
        if (op == 0) { a_list_mov_next(&nd[0], &nd[1]); for (k = 0; k < ML; ++k) { if (k < n0) { ins(SA, &la, k, SB[k]); } } }
        else { a_list_mov_prev(&nd[0], &nd[1]); for (k = 0; k < ML; ++k) { if (k < n0) { ins(SA, &la, la, SB[k]); } } }
        ASSERT(is_ring(0, SA, la), "mov: the other list's nodes are spliced in at the front/back in order, ring well linked");
    }
    else
    {
        if (op == 2) { a_list_rot_next(&nd[0]); if (la >= 1) { unsigned char last = SA[la - 1]; del(SA, &la, la - 1); ins(SA, &la, 0, last); } }
        else { a_list_rot_prev(&nd[0]); if (la >= 1) { unsigned char first = SA[0]; del(SA, &la, 0); ins(SA, &la, la, first); } }
        CHECK("rot: the last/first node moves to the other end (an empty or one-node ring is its own rotation)");
    }
    VERIF_CANARY();
}

/* ---- swapping nodes and sections that are disjoint and not adjacent ---- */
void h_list_swap(void)
{
    mk();
    ND(unsigned, op, u32); ND(unsigned, i, u32); ND(unsigned, j, u32);
    ASSUME(op < 3);
    if (op == 0)
    {
        ASSUME(i < la && j < la && i + 2 <= j); /* same ring, at least one node between them */
        a_list_swap_node(&nd[SA[i]], &nd[SA[j]]);
        { unsigned char t = SA[i]; SA[i] = SA[j]; SA[j] = t; }
    }
    else if (op == 1)
    {
        ASSUME(i < la && j < lb); /* different rings */
        a_list_swap_node(&nd[SA[i]], &nd[SB[j]]);
        { unsigned char t = SA[i]; SA[i] = SB[j]; SB[j] = t; }
    }
    else
    {
        ASSUME(la >= 2 && lb >= 1 && i < la && i + 1 < la && j < lb); /* section (i, i+1) of A against the single node j of B */
        a_list_swap_(&nd[SA[i]], &nd[SA[i + 1]], &nd[SB[j]], &nd[SB[j]]);
        { unsigned char a0 = SA[i], a1 = SA[i + 1], b0 = SB[j];
          del(SA, &la, i + 1); SA[i] = b0; SB[j] = a0; ins(SB, &lb, j + 1, a1); }
    }
    CHECK("swap: the two nodes/sections exchange places, both rings well linked");
    VERIF_CANARY();
}

/* ---- link / loop / ctor: the two-field primitives ---- */
void h_list_link(void)
{
    a_list a, b;
    a.next = a.prev = b.next = b.prev = A_NULL;
    a_list_link(&a, &b);
    ASSERT(a.next == &b && b.prev == &a && a.prev == A_NULL && b.next == A_NULL, "link: head->next = tail, tail->prev = head, nothing else");
    a_list_loop(&a, &b);
    ASSERT(a.prev == &b && b.next == &a && a.next == &b && b.prev == &a, "loop: head->prev = tail, tail->next = head, nothing else");
    a_list_ctor(&a); a_list_init(&b);
    ASSERT(a.next == &a && a.prev == &a && b.next == &b && b.prev == &b, "ctor/init: self-linked empty ring");
    a_list_dtor(&a);
    ASSERT(a.next == &a && a.prev == &a, "dtor: self-linked");
    VERIF_CANARY();
}

/* ==================== singly linked list ==================== */
#define SN 6
static a_slist_node sn[SN];
static a_slist L, M;
static unsigned char QL[SN], QM[SN];
static unsigned ll, lm;
static void schain(a_slist *l, unsigned char const *s, unsigned n)
{
    unsigned k;
    a_slist_node *prev = &l->head;
    for (k = 0; k < SN; ++k) { if (k < n) { prev->next = &sn[s[k]]; prev = &sn[s[k]]; } }
    prev->next = A_NULL;
    l->tail = prev;
}
static void smk(void)
{
    unsigned k;
    ND(unsigned, ll_, u32); ND(unsigned, lm_, u32);
    ASSUME(ll_ + lm_ <= 4 && ll_ <= 3 && lm_ <= 3);
    ll = ll_; lm = lm_;
    for (k = 0; k < SN; ++k) { sn[k].next = A_NULL; }
    for (k = 0; k < 3; ++k) { if (k < ll) { QL[k] = (unsigned char)k; } }
    for (k = 0; k < 3; ++k) { if (k < lm) { QM[k] = (unsigned char)(ll + k); } }
    schain(&L, QL, ll);
    schain(&M, QM, lm);
}
static int is_slist(a_slist *l, unsigned char const *s, unsigned n)
{
    unsigned k; int ok = 1;
    a_slist_node *it = &l->head;
    for (k = 0; k < SN; ++k) { if (k < n) { if (it->next != &sn[s[k]]) { ok = 0; } it = &sn[s[k]]; } }
    if (it->next != A_NULL) { ok = 0; }
    if (l->tail != it) { ok = 0; } /* the tail designates the last node (the head sentinel when empty) */
    return ok;
}
void h_slist(void)
{
    smk();
    ND(unsigned, op, u32); ND(unsigned, pos, u32);
    ASSUME(op < 7);
    unsigned x = ll + lm, k; /* a free node */
    if (op == 0) { a_slist_add_head(&L, &sn[x]); ins(QL, &ll, 0, (unsigned char)x); }
    else if (op == 1) { a_slist_add_tail(&L, &sn[x]); ins(QL, &ll, ll, (unsigned char)x); }
    else if (op == 2) { ASSUME(pos <= ll); a_slist_add(&L, pos == 0 ? &L.head : &sn[QL[pos - 1]], &sn[x]); ins(QL, &ll, pos, (unsigned char)x); }
    else if (op == 3) { a_slist_del_head(&L); if (ll >= 1) { del(QL, &ll, 0); } }
    else if (op == 4) { ASSUME(pos <= ll); a_slist_del(&L, pos == 0 ? &L.head : &sn[QL[pos - 1]]); if (pos < ll) { del(QL, &ll, pos); } } /* removes the node behind prev, if any */
    else if (op == 5) { a_slist_rot(&L); if (ll >= 2) { unsigned char first = QL[0]; del(QL, &ll, 0); ins(QL, &ll, ll, first); } }
    else
    {
        /* move all of M into L behind position pos-1 */
        ASSUME(pos <= ll);
        unsigned n0 = lm;
        a_slist_mov(&M, &L, pos == 0 ? &L.head : &sn[QL[pos - 1]]);
        for (k = 0; k < 3; ++k) { if (k < n0) { ins(QL, &ll, pos + k, QM[k]); } }
    }
    ASSERT(is_slist(&L, QL, ll), "slist: content is the abstract sequence and the tail designates the last node");
    if (op != 6) { ASSERT(is_slist(&M, QM, lm), "slist: the other list is untouched"); }
    VERIF_CANARY();
}
void h_slist_ctor(void)
{
    a_slist l;
    a_slist_ctor(&l);
    ASSERT(l.head.next == A_NULL && l.tail == &l.head, "slist ctor: empty, tail designates the head sentinel");
    a_slist_node n;
    a_slist_add_tail(&l, &n);
    ASSERT(l.head.next == &n && n.next == A_NULL && l.tail == &n, "slist: first node appended");
    a_slist_dtor(&l);
    ASSERT(l.head.next == A_NULL && l.tail == &l.head, "slist dtor: empty again");
    VERIF_CANARY();
}
