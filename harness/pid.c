/* C12: PID controllers of /repo/src/pid.c, pid_neuro.c, pid_fuzzy.c (Hoare triples over IEEE doubles) */
#include "contracts/verif.h"
#include "a/pid.h"
#include "a/pid_neuro.h"
#include "a/pid_fuzzy.h"

/* contract assumed for a_pid_fuzzy_out_ inside the fuzzy step functions: it only re-tunes the three
   working gains (its scratch-buffer frame is C13's obligation) */
void a_pid_fuzzy_out_(a_pid_fuzzy *ctx, a_real ec, a_real e);
#ifndef VERIF_NATIVE
void contract_a_pid_fuzzy_out_(a_pid_fuzzy *ctx, a_real ec, a_real e)
    __CPROVER_requires(__CPROVER_rw_ok(ctx, sizeof(*ctx)))
    __CPROVER_assigns(ctx->pid.kp, ctx->pid.ki, ctx->pid.kd);
#endif

#include "src/pid.c"
#include "src/pid_neuro.c"
#include "src/pid_fuzzy.c"

#define ISNAN(x) ((x) != (x))
#define FINITE(x) ((x) - (x) == 0)
static a_real sat(a_real x, a_real lo, a_real hi) { return lo < x ? (x < hi ? x : hi) : lo; } /* documented clamp; NaN -> lo */

/* arbitrary controller state (every field any double, including NaN and infinities) except the limits */
#define DECL_STATE                                                                                     \
    ND(a_real, kp, double); ND(a_real, ki, double); ND(a_real, kd, double);                            \
    ND(a_real, summax, double); ND(a_real, summin, double); ND(a_real, sum, double);                   \
    ND(a_real, outmax, double); ND(a_real, outmin, double); ND(a_real, out, double);                   \
    ND(a_real, var, double); ND(a_real, fdb0, double); ND(a_real, err0, double);                       \
    ND(a_real, set, double); ND(a_real, fdb, double);
#define LOAD(c)                                                                                        \
    (c).kp = kp; (c).ki = ki; (c).kd = kd; (c).summax = summax; (c).summin = summin; (c).sum = sum;    \
    (c).outmax = outmax; (c).outmin = outmin; (c).out = out; (c).var = var; (c).fdb = fdb0; (c).err = err0;
#define LIMITS_OK ASSUME(!ISNAN(outmin) && !ISNAN(outmax) && outmin <= outmax)
#define FRAME_GAINS(c) ((c).kp == kp || ISNAN(kp)) && ((c).ki == ki || ISNAN(ki)) && ((c).kd == kd || ISNAN(kd))
#define FRAME_LIMITS(c) ((c).summax == summax || ISNAN(summax)) && ((c).summin == summin || ISNAN(summin)) && (c).outmax == outmax && (c).outmin == outmin
#define BOOK(c, e) /* bookkeeping shared by all step functions */                                      \
    ASSERT((c).fdb == fdb || ISNAN(fdb), "step: feedback is cached");                                  \
    ASSERT((c).err == (e) || ISNAN(e), "step: error is cached");                                       \
    ASSERT((c).var == fdb0 - fdb || ISNAN(fdb0 - fdb), "step: var = previous feedback - feedback")

/* ---- [P] a_pid_run: pass-through mode ---- */
void h_pid_run(void)
{
    DECL_STATE
    a_pid c;
    LOAD(c)
    LIMITS_OK;
    a_real r = a_pid_run(&c, set, fdb);
    ASSERT(outmin <= c.out && c.out <= outmax, "run: output within the output limits");
    ASSERT(r == c.out, "run: returns the stored output");
    ASSERT(c.out == sat(set, outmin, outmax), "run: output is the clamped set-point");
    BOOK(c, set - fdb);
    ASSERT(FRAME_GAINS(c) && FRAME_LIMITS(c) && (c.sum == sum || ISNAN(sum)), "run: gains, limits and integrator untouched");
    VERIF_CANARY();
}

/* ---- [P] a_pid_pos: clamp for ARBITRARY prior state (hence after every history) ---- */
void h_pid_pos_clamp(void)
{
    DECL_STATE
    a_pid c;
    LOAD(c)
    LIMITS_OK;
    a_real r = a_pid_pos(&c, set, fdb);
    ASSERT(outmin <= c.out && c.out <= outmax, "pos: output within the output limits (also for NaN intermediates)");
    ASSERT(r == c.out, "pos: returns the stored output");
    BOOK(c, set - fdb);
    ASSERT(FRAME_GAINS(c) && FRAME_LIMITS(c), "pos: gains and limits untouched");
    VERIF_CANARY();
}

/* ---- [P] a_pid_pos: integrator never moves further beyond its clamp; frozen when outside and pushing outward ---- */
void h_pid_pos_integrator(void)
{
    DECL_STATE
    a_pid c;
    LOAD(c)
    ASSUME(FINITE(ki) && ki >= 0 && FINITE(sum) && FINITE(summin) && FINITE(summax) && summin <= 0 && 0 <= summax);
    ASSUME(FINITE(set) && FINITE(fdb) && -0x1p1000 <= set && set <= 0x1p1000 && -0x1p1000 <= fdb && fdb <= 0x1p1000);
    a_real e = set - fdb;
    (void)a_pid_pos(&c, set, fdb);
    ASSERT(!ISNAN(c.sum), "pos: integrator stays a number");
    if (sum >= summax) { ASSERT(c.sum <= sum, "pos: integrator at/above its upper clamp does not grow"); }
    if (sum <= summin) { ASSERT(c.sum >= sum, "pos: integrator at/below its lower clamp does not shrink"); }
    if (sum >= summax && e >= 0) { ASSERT(c.sum == sum, "pos: integration stops outside the clamp when the error pushes outward"); }
    if (sum <= summin && e <= 0) { ASSERT(c.sum == sum, "pos: integration stops outside the clamp when the error pushes outward"); }
    if (summin < sum && sum < summax) { ASSERT(c.sum == sum + ki * e, "pos: inside the clamp the integrator advances by ki*e"); }
    VERIF_CANARY();
}

/* exact domain: integers of magnitude <= 2^10 (gains <= 2^4): every intermediate is exact in double */
#define SMALL(x, m) ((x) >= -(m) && (x) <= (m))
#define EXACT_STATE                                                                                    \
    ND(int, ikp, int); ND(int, iki, int); ND(int, ikd, int); ND(int, isum, int);                        \
    ND(int, iout, int); ND(int, ivar, int); ND(int, ifdb0, int); ND(int, ierr0, int);                   \
    ND(int, iset, int); ND(int, ifdb, int); ND(int, ismax, int); ND(int, ismin, int);                   \
    ASSUME(SMALL(ikp, 16) && SMALL(iki, 16) && SMALL(ikd, 16) && iki >= 0);                            \
    ASSUME(SMALL(isum, 1024) && SMALL(iout, 1024) && SMALL(ivar, 1024) && SMALL(ifdb0, 1024) && SMALL(ierr0, 1024)); \
    ASSUME(SMALL(iset, 1024) && SMALL(ifdb, 1024) && ismin <= 0 && 0 <= ismax && SMALL(ismin, 4096) && SMALL(ismax, 4096)); \
    a_real kp = ikp, ki = iki, kd = ikd, sum = isum, out = iout, var = ivar, fdb0 = ifdb0, err0 = ierr0; \
    a_real set = iset, fdb = ifdb, summax = ismax, summin = ismin;                                     \
    ND(a_real, outmax, double); ND(a_real, outmin, double);

/* ---- [B exact domain] positional difference equation ---- */
void h_pid_pos_equation(void)
{
    EXACT_STATE
    a_pid c;
    LOAD(c)
    LIMITS_OK;
    a_real e = set - fdb;
    a_real s1 = ((sum > summin && sum < summax) || sum * e < 0) ? sum + ki * e : sum;
    (void)a_pid_pos(&c, set, fdb);
    ASSERT(c.sum == s1, "pos: sum' = sum + ki*e when integrating, unchanged otherwise");
    ASSERT(c.out == sat(kp * e + s1 + kd * (fdb0 - fdb), outmin, outmax), "pos: out = sat(kp*e + sum' + kd*(fdb[k-1]-fdb[k]))");
    VERIF_CANARY();
}

/* ---- [P] a_pid_inc: clamp for arbitrary prior state ---- */
void h_pid_inc_clamp(void)
{
    DECL_STATE
    a_pid c;
    LOAD(c)
    LIMITS_OK;
    a_real r = a_pid_inc(&c, set, fdb);
    ASSERT(outmin <= c.out && c.out <= outmax, "inc: output within the output limits (also for NaN intermediates)");
    ASSERT(r == c.out, "inc: returns the stored output");
    BOOK(c, set - fdb);
    ASSERT(FRAME_GAINS(c) && FRAME_LIMITS(c) && (c.sum == sum || ISNAN(sum)), "inc: gains, limits and integrator untouched");
    VERIF_CANARY();
}

/* ---- [B exact domain] incremental difference equation ---- */
void h_pid_inc_equation(void)
{
    EXACT_STATE
    a_pid c;
    LOAD(c)
    LIMITS_OK;
    a_real e = set - fdb, v = fdb0 - fdb;
    (void)a_pid_inc(&c, set, fdb);
    ASSERT(c.out == sat(out + (kp * (e - err0) + ki * e + kd * (v - var)), outmin, outmax), "inc: out = sat(out + kp*(e-e[k-1]) + ki*e + kd*(var-var[k-1]))");
    VERIF_CANARY();
}

/* ---- [P] zero: exactly the documented fields become zero; the result does not depend on the prior
        dynamic state, so a zeroed controller is a freshly initialised one (a_pid_init is a_pid_zero) ---- */
void h_pid_zero(void)
{
    DECL_STATE
    a_pid c;
    LOAD(c)
    a_pid_zero(&c);
    ASSERT(c.sum == 0 && c.out == 0 && c.var == 0 && c.fdb == 0 && c.err == 0, "zero: integrator, output and caches are zero");
    ASSERT(FRAME_GAINS(c) && (c.summax == summax || ISNAN(summax)) && (c.summin == summin || ISNAN(summin)) && (c.outmax == outmax || ISNAN(outmax)) && (c.outmin == outmin || ISNAN(outmin)), "zero: gains and limits untouched");
    a_pid d;
    LOAD(d)
    d.sum = 0; d.out = 0; d.var = 0; d.fdb = 0; d.err = 0; /* state of a fresh controller after init */
    (void)set; (void)fdb;
    ASSERT(c.sum == d.sum && c.out == d.out && c.var == d.var && c.fdb == d.fdb && c.err == d.err, "zero: equals the freshly initialised state");
    VERIF_CANARY();
}

/* ---- [P] single-neuron controller ---- */
void h_neuro_inc(void)
{
    DECL_STATE
    a_pid_neuro n;
    LOAD(n.pid)
    ND(a_real, k, double); ND(a_real, wp, double); ND(a_real, wi, double); ND(a_real, wd, double); ND(a_real, ec0, double);
    n.k = k; n.wp = wp; n.wi = wi; n.wd = wd; n.ec = ec0;
    LIMITS_OK;
    a_real r = a_pid_neuro_inc(&n, set, fdb);
    ASSERT(outmin <= n.pid.out && n.pid.out <= outmax, "neuro inc: output within the output limits (also for 0/0 weights)");
    ASSERT(r == n.pid.out, "neuro inc: returns the stored output");
    ASSERT((n.pid.fdb == fdb || ISNAN(fdb)) && (n.pid.err == set - fdb || ISNAN(set - fdb)), "neuro inc: feedback and error cached");
    ASSERT(n.ec == (set - fdb) - err0 || ISNAN((set - fdb) - err0), "neuro inc: error change cached");
    ASSERT(FRAME_GAINS(n.pid) && FRAME_LIMITS(n.pid) && (n.k == k || ISNAN(k)), "neuro inc: learning constants and limits untouched");
    VERIF_CANARY();
}
void h_neuro_run(void)
{
    DECL_STATE
    a_pid_neuro n;
    LOAD(n.pid)
    ND(a_real, k, double); ND(a_real, wp, double); ND(a_real, wi, double); ND(a_real, wd, double); ND(a_real, ec0, double);
    n.k = k; n.wp = wp; n.wi = wi; n.wd = wd; n.ec = ec0;
    LIMITS_OK;
    a_real r = a_pid_neuro_run(&n, set, fdb);
    ASSERT(outmin <= n.pid.out && n.pid.out <= outmax, "neuro run: output within the output limits");
    ASSERT(r == n.pid.out && n.pid.out == sat(set, outmin, outmax), "neuro run: clamped set-point is stored and returned");
    ASSERT((n.wp == wp || ISNAN(wp)) && (n.wi == wi || ISNAN(wi)) && (n.wd == wd || ISNAN(wd)), "neuro run: weights untouched");
    VERIF_CANARY();
}
void h_neuro_zero(void)
{
    DECL_STATE
    a_pid_neuro n;
    LOAD(n.pid)
    ND(a_real, k, double); ND(a_real, wp, double); ND(a_real, wi, double); ND(a_real, wd, double); ND(a_real, ec0, double);
    n.k = k; n.wp = wp; n.wi = wi; n.wd = wd; n.ec = ec0;
    (void)set; (void)fdb;
    a_pid_neuro_zero(&n);
    ASSERT(n.pid.sum == 0 && n.pid.out == 0 && n.pid.var == 0 && n.pid.fdb == 0 && n.pid.err == 0 && n.ec == 0, "neuro zero: dynamic state is zero");
    ASSERT((n.wp == wp || ISNAN(wp)) && (n.wi == wi || ISNAN(wi)) && (n.wd == wd || ISNAN(wd)) && (n.k == k || ISNAN(k)) && FRAME_GAINS(n.pid), "neuro zero: weights and constants untouched");
    VERIF_CANARY();
}

/* ---- [P] fuzzy-tuned controller: a_pid_fuzzy_out_ replaced by its contract (any gains may result) ---- */
#define FUZZY_STEP(NAME, FN, EXTRA)                                                                    \
    void h_fuzzy_##NAME(void)                                                                          \
    {                                                                                                  \
        DECL_STATE                                                                                     \
        a_pid_fuzzy f;                                                                                 \
        LOAD(f.pid)                                                                                    \
        ND(a_real, bkp, double); ND(a_real, bki, double); ND(a_real, bkd, double); f.kp = bkp; f.ki = bki; f.kd = bkd;                        \
        LIMITS_OK;                                                                                     \
        a_real r = FN(&f, set, fdb);                                                                   \
        ASSERT(outmin <= f.pid.out && f.pid.out <= outmax, "fuzzy " #NAME ": output within the output limits for whatever gains the rule base yields"); \
        ASSERT(r == f.pid.out, "fuzzy " #NAME ": returns the stored output");                          \
        BOOK(f.pid, set - fdb);                                                                        \
        ASSERT(FRAME_LIMITS(f.pid), "fuzzy " #NAME ": limits untouched");                              \
        EXTRA                                                                                          \
        VERIF_CANARY();                                                                                \
    }
FUZZY_STEP(run, a_pid_fuzzy_run, ASSERT(f.pid.out == sat(set, outmin, outmax), "fuzzy run: clamped set-point");)
FUZZY_STEP(pos, a_pid_fuzzy_pos, )
FUZZY_STEP(inc, a_pid_fuzzy_inc, )
void h_fuzzy_zero(void)
{
    DECL_STATE
    a_pid_fuzzy f;
    LOAD(f.pid)
    ND(a_real, bkp, double); ND(a_real, bki, double); ND(a_real, bkd, double);
    f.kp = bkp; f.ki = bki; f.kd = bkd;
    (void)set; (void)fdb;
    a_pid_fuzzy_zero(&f);
    ASSERT(f.pid.sum == 0 && f.pid.out == 0 && f.pid.var == 0 && f.pid.fdb == 0 && f.pid.err == 0, "fuzzy zero: dynamic state is zero");
    ASSERT((f.kp == bkp || ISNAN(bkp)) && (f.ki == bki || ISNAN(bki)) && (f.kd == bkd || ISNAN(bkd)) && FRAME_GAINS(f.pid), "fuzzy zero: base and working gains untouched");
    VERIF_CANARY();
}
