/* C13: parameter-table walk a_pid_fuzzy_mf of /repo/src/pid_fuzzy.c.  The specific membership functions
   (other translation unit, src/mf.c) are recording stubs here: each call appends (kind, x, parameters,
   returned degree) to ghost arrays and returns an arbitrary number. */
#include "contracts/verif.h"
#include "a/math.h"
#include "a/mf.h"
#include "a/fuzzy.h"
#include "a/pid_fuzzy.h"

#define NCALL 8
unsigned verif_ncall;
unsigned verif_id[NCALL];
a_real verif_x[NCALL];
a_real verif_p[NCALL][4];
a_real verif_y[NCALL];
#ifndef VERIF_NATIVE
static a_real rec(unsigned id, a_real x, a_real p0, a_real p1, a_real p2, a_real p3)
{
    a_real y = nondet_double();
    __CPROVER_assume(y == y);
    __CPROVER_assert(verif_ncall < NCALL, "ghost call log large enough");
    verif_id[verif_ncall] = id; verif_x[verif_ncall] = x; verif_y[verif_ncall] = y;
    verif_p[verif_ncall][0] = p0; verif_p[verif_ncall][1] = p1; verif_p[verif_ncall][2] = p2; verif_p[verif_ncall][3] = p3;
    ++verif_ncall;
    return y;
}
a_real a_mf_gauss(a_real x, a_real p0, a_real p1) { return rec(A_MF_GAUSS, x, p0, p1, 0, 0); }
a_real a_mf_gauss2(a_real x, a_real p0, a_real p1, a_real p2, a_real p3) { return rec(A_MF_GAUSS2, x, p0, p1, p2, p3); }
a_real a_mf_gbell(a_real x, a_real p0, a_real p1, a_real p2) { return rec(A_MF_GBELL, x, p0, p1, p2, 0); }
a_real a_mf_sig(a_real x, a_real p0, a_real p1) { return rec(A_MF_SIG, x, p0, p1, 0, 0); }
a_real a_mf_dsig(a_real x, a_real p0, a_real p1, a_real p2, a_real p3) { return rec(A_MF_DSIG, x, p0, p1, p2, p3); }
a_real a_mf_psig(a_real x, a_real p0, a_real p1, a_real p2, a_real p3) { return rec(A_MF_PSIG, x, p0, p1, p2, p3); }
a_real a_mf_trap(a_real x, a_real p0, a_real p1, a_real p2, a_real p3) { return rec(A_MF_TRAP, x, p0, p1, p2, p3); }
a_real a_mf_tri(a_real x, a_real p0, a_real p1, a_real p2) { return rec(A_MF_TRI, x, p0, p1, p2, 0); }
a_real a_mf_lins(a_real x, a_real p0, a_real p1) { return rec(A_MF_LINS, x, p0, p1, 0, 0); }
a_real a_mf_linz(a_real x, a_real p0, a_real p1) { return rec(A_MF_LINZ, x, p0, p1, 0, 0); }
a_real a_mf_s(a_real x, a_real p0, a_real p1) { return rec(A_MF_S, x, p0, p1, 0, 0); }
a_real a_mf_z(a_real x, a_real p0, a_real p1) { return rec(A_MF_Z, x, p0, p1, 0, 0); }
a_real a_mf_pi(a_real x, a_real p0, a_real p1, a_real p2, a_real p3) { return rec(A_MF_PI, x, p0, p1, p2, p3); }
#endif
static unsigned spec_arity(unsigned e)
{
    switch (e)
    {
    case A_MF_GAUSS: case A_MF_SIG: case A_MF_LINS: case A_MF_LINZ: case A_MF_S: case A_MF_Z: return 2;
    case A_MF_GBELL: case A_MF_TRI: return 3;
    case A_MF_GAUSS2: case A_MF_DSIG: case A_MF_PSIG: case A_MF_TRAP: case A_MF_PI: return 4;
    default: return 0;
    }
}
unsigned int a_pid_fuzzy_mf(a_real x, unsigned int n, a_real const *a, unsigned int *idx, a_real *val);
#include "src/fuzzy.c"
#include "src/pid.c"
#include "src/pid_fuzzy.c"

/* ---- [B n <= NW] parameter-table walk ---- */
#ifndef NW
#define NW 3
#endif
void h_fuzzy_mf_walk(void)
{
    ND(unsigned, n, u32); ND(a_real, x, double);
    ASSUME(n <= NW);
    unsigned kind[NW], off[NW + 1], i, len = 0, stop = n; /* stop: first entry that ends the walk (NUL / unknown kind) */
    ND(unsigned, k0, u32); ND(unsigned, k1, u32); ND(unsigned, k2, u32);
    kind[0] = k0; if (NW > 1) { kind[1] = k1; } if (NW > 2) { kind[2] = k2; }
    for (i = 0; i < NW; ++i)
    {
        if (i < n && stop == n)
        {
            ASSUME(kind[i] <= 20);
            off[i] = len;
            len += 1 + spec_arity(kind[i]);
            if (spec_arity(kind[i]) == 0) { stop = i; }
        }
    }
    /* the table: exactly the records the documented layout needs (tag + parameters each; a terminating tag if the walk stops early) */
    a_real *tab = (a_real *)malloc(len ? len * sizeof(a_real) : 1);
    ASSUME(tab != A_NULL);
    for (i = 0; i < NW; ++i) { if (i < n && i <= stop) { tab[off[i]] = (a_real)kind[i]; } }
    ND(a_real, q, double); /* one parameter value, stored as first parameter of every record */
    for (i = 0; i < NW; ++i) { if (i < n && i < stop) { unsigned j; for (j = 1; j <= 4; ++j) { if (j <= spec_arity(kind[i])) { tab[off[i] + j] = (j == 1) ? q : (a_real)j; } } } }
    unsigned idx[NW + 1];
    a_real val[NW + 1];
    for (i = 0; i <= NW; ++i) { idx[i] = 77u; val[i] = -5; }
    verif_ncall = 0;
    unsigned cnt = a_pid_fuzzy_mf(x, n, tab, idx, val);
    ASSERT(verif_ncall == stop, "walk: evaluates exactly the entries before the terminator / the first n entries");
    ASSERT(cnt <= n, "walk: never reports more active sets than entries");
    unsigned k = 0;
    for (i = 0; i < NW; ++i)
    {
        if (i < stop)
        {
            ASSERT(verif_id[i] == kind[i], "walk: entry i is evaluated with the function of its kind (cursor advanced by the arity of each entry)");
            ASSERT(verif_p[i][0] == q || q != q, "walk: entry i receives its own first parameter");
            ASSERT(verif_x[i] == x || x != x, "walk: entry i is evaluated at the input");
            if (verif_y[i] > A_REAL_EPSILON)
            {
                ASSERT(idx[k] == i && val[k] == verif_y[i], "walk: active set recorded with its index and degree, in order");
                ++k;
            }
        }
    }
    ASSERT(cnt == k, "walk: the count is the number of entries whose degree exceeds epsilon");
    for (i = 0; i <= NW; ++i) { if (i >= k) { ASSERT(idx[i] == 77u && val[i] == -5, "walk: nothing written beyond the active sets"); } }
    free(tab);
    VERIF_CANARY();
}

