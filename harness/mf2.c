/* C13 (second part): the generic dispatcher a_mf, the parameter-table walk a_pid_fuzzy_mf and the
   scratch buffer of a_pid_fuzzy_out_.  The specific membership functions are replaced by recording
   contracts (goto-instrument --replace-call-with-contract): each call appends (callee id, x, first
   parameter, returned value) to ghost arrays and returns an arbitrary value. */
#include "contracts/verif.h"
#include "a/math.h"
#include "a/mf.h"
#include "a/fuzzy.h"
#include "a/pid_fuzzy.h"

#define NCALL 8
unsigned verif_ncall;          /* number of membership-function calls so far */
unsigned verif_id[NCALL];      /* which function */
a_real verif_x[NCALL];         /* its input */
a_real verif_p[NCALL][4];      /* its parameters, in order */
a_real verif_y[NCALL];         /* what it returned */

#define REC_COMMON(ID)                                                                                 \
    __CPROVER_requires(verif_ncall < NCALL)                                                            \
    __CPROVER_assigns(verif_ncall, __CPROVER_object_whole(verif_id), __CPROVER_object_whole(verif_x), __CPROVER_object_whole(verif_p), __CPROVER_object_whole(verif_y)) \
    __CPROVER_ensures(verif_ncall == __CPROVER_old(verif_ncall) + 1)                                   \
    __CPROVER_ensures(verif_id[__CPROVER_old(verif_ncall)] == (ID))                                    \
    __CPROVER_ensures(verif_x[__CPROVER_old(verif_ncall)] == x || x != x)                              \
    __CPROVER_ensures(verif_y[__CPROVER_old(verif_ncall)] == __CPROVER_return_value)                   \
    __CPROVER_ensures(__CPROVER_return_value == __CPROVER_return_value) /* a number (not NaN) */
#define PEQ(k, v) __CPROVER_ensures(verif_p[__CPROVER_old(verif_ncall)][k] == (v) || (v) != (v))
#ifndef VERIF_NATIVE
a_real contract_a_mf_gauss(a_real x, a_real p0, a_real p1) REC_COMMON(A_MF_GAUSS) PEQ(0, p0) PEQ(1, p1);
a_real contract_a_mf_gauss2(a_real x, a_real p0, a_real p1, a_real p2, a_real p3) REC_COMMON(A_MF_GAUSS2) PEQ(0, p0) PEQ(1, p1) PEQ(2, p2) PEQ(3, p3);
a_real contract_a_mf_gbell(a_real x, a_real p0, a_real p1, a_real p2) REC_COMMON(A_MF_GBELL) PEQ(0, p0) PEQ(1, p1) PEQ(2, p2);
a_real contract_a_mf_sig(a_real x, a_real p0, a_real p1) REC_COMMON(A_MF_SIG) PEQ(0, p0) PEQ(1, p1);
a_real contract_a_mf_dsig(a_real x, a_real p0, a_real p1, a_real p2, a_real p3) REC_COMMON(A_MF_DSIG) PEQ(0, p0) PEQ(1, p1) PEQ(2, p2) PEQ(3, p3);
a_real contract_a_mf_psig(a_real x, a_real p0, a_real p1, a_real p2, a_real p3) REC_COMMON(A_MF_PSIG) PEQ(0, p0) PEQ(1, p1) PEQ(2, p2) PEQ(3, p3);
a_real contract_a_mf_trap(a_real x, a_real p0, a_real p1, a_real p2, a_real p3) REC_COMMON(A_MF_TRAP) PEQ(0, p0) PEQ(1, p1) PEQ(2, p2) PEQ(3, p3);
a_real contract_a_mf_tri(a_real x, a_real p0, a_real p1, a_real p2) REC_COMMON(A_MF_TRI) PEQ(0, p0) PEQ(1, p1) PEQ(2, p2);
a_real contract_a_mf_lins(a_real x, a_real p0, a_real p1) REC_COMMON(A_MF_LINS) PEQ(0, p0) PEQ(1, p1);
a_real contract_a_mf_linz(a_real x, a_real p0, a_real p1) REC_COMMON(A_MF_LINZ) PEQ(0, p0) PEQ(1, p1);
a_real contract_a_mf_s(a_real x, a_real p0, a_real p1) REC_COMMON(A_MF_S) PEQ(0, p0) PEQ(1, p1);
a_real contract_a_mf_z(a_real x, a_real p0, a_real p1) REC_COMMON(A_MF_Z) PEQ(0, p0) PEQ(1, p1);
a_real contract_a_mf_pi(a_real x, a_real p0, a_real p1, a_real p2, a_real p3) REC_COMMON(A_MF_PI) PEQ(0, p0) PEQ(1, p1) PEQ(2, p2) PEQ(3, p3);
#endif

/* number of parameters of each membership function kind (the documented table layout) */
static unsigned spec_arity(unsigned e)
{
    switch (e)
    {
    case A_MF_GAUSS: case A_MF_SIG: case A_MF_LINS: case A_MF_LINZ: case A_MF_S: case A_MF_Z: return 2;
    case A_MF_GBELL: case A_MF_TRI: return 3;
    case A_MF_GAUSS2: case A_MF_DSIG: case A_MF_PSIG: case A_MF_TRAP: case A_MF_PI: return 4;
    default: return 0;
    }
}

unsigned int a_pid_fuzzy_mf(a_real x, unsigned int n, a_real const *a, unsigned int *idx, a_real *val);
void a_pid_fuzzy_out_(a_pid_fuzzy *ctx, a_real ec, a_real e);

/* contract assumed for the table walk inside a_pid_fuzzy_out_: at most verif_cap sets are active
   (the buffer is "sized for the number of simultaneously active sets"), their indices are below n */
unsigned verif_cap;
#ifndef VERIF_NATIVE
unsigned int contract_a_pid_fuzzy_mf(a_real x, unsigned int n, a_real const *a, unsigned int *idx, a_real *val)
    __CPROVER_requires(verif_cap <= 3)
    __CPROVER_requires(__CPROVER_w_ok(idx, verif_cap * sizeof(unsigned int)) && __CPROVER_w_ok(val, verif_cap * sizeof(a_real)))
    __CPROVER_assigns(__CPROVER_object_upto(idx, verif_cap * sizeof(unsigned int)), __CPROVER_object_upto(val, verif_cap * sizeof(a_real)))
    __CPROVER_ensures(__CPROVER_return_value <= n && __CPROVER_return_value <= verif_cap)
    __CPROVER_ensures(__CPROVER_return_value < 1 || idx[0] < n)
    __CPROVER_ensures(__CPROVER_return_value < 2 || (idx[1] < n && idx[0] < idx[1]))
    __CPROVER_ensures(__CPROVER_return_value < 3 || (idx[2] < n && idx[1] < idx[2]));
#endif

#include "src/mf.c"
#include "src/fuzzy.c"
#include "src/pid.c"
#include "src/pid_fuzzy.c"

/* ---- [P] dispatcher: calls exactly the specific function with a[0..arity) and returns its value ---- */
void h_mf_dispatch(void)
{
    ND(unsigned, e, u32); ND(a_real, x, double);
    unsigned ar = spec_arity(e);
    a_real *a = (a_real *)malloc(ar ? ar * sizeof(a_real) : 1); /* exactly arity parameters: any over-read is a pointer-check failure */
    ASSUME(a != A_NULL);
    ND(a_real, a0, double); ND(a_real, a1, double); ND(a_real, a2, double); ND(a_real, a3, double);
    if (ar > 0) { a[0] = a0; } if (ar > 1) { a[1] = a1; } if (ar > 2) { a[2] = a2; } if (ar > 3) { a[3] = a3; }
    verif_ncall = 0;
    a_real y = a_mf(e, x, a);
    if (ar == 0) { ASSERT(verif_ncall == 0 && y == 0, "dispatcher: unknown kind / A_MF_NUL yields 0 and evaluates nothing"); }
    else
    {
        ASSERT(verif_ncall == 1 && verif_id[0] == e, "dispatcher: exactly the specific function of that kind is evaluated");
        ASSERT(verif_x[0] == x || x != x, "dispatcher: with the same input");
        ASSERT((verif_p[0][0] == a0 || a0 != a0) && (verif_p[0][1] == a1 || a1 != a1), "dispatcher: with parameters a[0], a[1]");
        if (ar > 2) { ASSERT(verif_p[0][2] == a2 || a2 != a2, "dispatcher: with parameter a[2]"); }
        if (ar > 3) { ASSERT(verif_p[0][3] == a3 || a3 != a3, "dispatcher: with parameter a[3]"); }
        ASSERT(y == verif_y[0], "dispatcher: returns the specific function's value");
    }
    free(a);
    VERIF_CANARY();
}

/* ---- [B nfuzz <= 3, nrule <= 7] scratch buffer of the gain scheduler ---- */
#ifndef NF
#define NF 2
#endif
void h_fuzzy_out_buffer(void)
{
    a_pid_fuzzy f;
    ND(unsigned, nrule, u32); ND(unsigned, opr, u32); ND(a_real, e, double); ND(a_real, ec, double);
    ASSUME(1 <= nrule && nrule <= 7);
    verif_cap = NF;
    void *blk = malloc(A_PID_FUZZY_BFUZZ(NF)); /* exactly the documented size for NF active sets */
    ASSUME(blk != A_NULL);
    a_pid_fuzzy_set_bfuzz(&f, blk, NF);
    ASSERT(f.idx == (unsigned *)blk && (char *)f.val == (char *)blk + 2 * NF * sizeof(unsigned) && f.nfuzz == NF, "set_bfuzz: index area of 2*n entries first, value area behind it");
    ND(_Bool, hp, bool); ND(_Bool, hi, bool); ND(_Bool, hd, bool);
    a_real *mkp = hp ? (a_real *)malloc(nrule * nrule * sizeof(a_real)) : A_NULL;
    a_real *mki = hi ? (a_real *)malloc(nrule * nrule * sizeof(a_real)) : A_NULL;
    a_real *mkd = hd ? (a_real *)malloc(nrule * nrule * sizeof(a_real)) : A_NULL;
    ASSUME((!hp || mkp != A_NULL) && (!hi || mki != A_NULL) && (!hd || mkd != A_NULL));
    a_real me[1], mec[1];
    me[0] = 0; mec[0] = 0;
    a_pid_fuzzy_set_rule(&f, nrule, me, mec, mkp, mki, mkd);
    a_pid_fuzzy_set_opr(&f, opr);
    ND(a_real, bkp, double); ND(a_real, bki, double); ND(a_real, bkd, double);
    a_pid_fuzzy_set_kpid(&f, bkp, bki, bkd);
    ND(a_real, sum, double); ND(a_real, out, double);
    f.pid.sum = sum; f.pid.out = out;
    a_pid_fuzzy_out_(&f, ec, e);
    ASSERT((f.pid.sum == sum || sum != sum) && (f.pid.out == out || out != out), "out_: controller state other than the three gains untouched");
    ASSERT(f.nrule == nrule && f.nfuzz == NF && f.idx == (unsigned *)blk && f.mkp == mkp && f.mki == mki && f.mkd == mkd, "out_: configuration untouched");
    ASSERT((f.kp == bkp || bkp != bkp) && (f.ki == bki || bki != bki) && (f.kd == bkd || bkd != bkd), "out_: base gains untouched");
    VERIF_CANARY();
}

/* ---- [B one active set per input] gain scheduling picks the consequents of the ACTIVE rule:
        with exactly one active e-set (index ie, degree 1) and one active ec-set (index iec, degree 1) and the min
        operator every weight is exactly 1, so the derived gains are exactly base + table[ie * nrule + iec] for each
        table that is present, and the base gain for an absent table ---- */
unsigned verif_mf_calls, verif_mf_pick[2], verif_mf_cnt[2]; /* cnt: number of active sets the fuzzifier reports (0 or 1) */
#ifndef VERIF_NATIVE
unsigned int contract_a_pid_fuzzy_mf_one(a_real x, unsigned int n, a_real const *a, unsigned int *idx, a_real *val)
    __CPROVER_requires(verif_mf_calls < 2 && verif_mf_pick[0] < n && verif_mf_pick[1] < n)
    __CPROVER_requires(__CPROVER_w_ok(idx, sizeof(unsigned int)) && __CPROVER_w_ok(val, sizeof(a_real)))
    __CPROVER_assigns(*idx, *val, verif_mf_calls)
    __CPROVER_ensures(__CPROVER_return_value == verif_mf_cnt[__CPROVER_old(verif_mf_calls)])
    __CPROVER_ensures(__CPROVER_return_value == 0 || (*val == 1.0 && *idx == verif_mf_pick[__CPROVER_old(verif_mf_calls)]))
    __CPROVER_ensures(verif_mf_calls == __CPROVER_old(verif_mf_calls) + 1);
#endif
void h_fuzzy_out_gain(void)
{
    a_pid_fuzzy f;
    ND(unsigned, nrule, u32); ND(a_real, e, double); ND(a_real, ec, double); ND(unsigned, ie, u32); ND(unsigned, iec, u32);
    ASSUME(1 <= nrule && nrule <= 4 && ie < nrule && iec < nrule);
#ifdef NONE /* NONE=0: no active e-set; NONE=1: an active e-set but no active ec-set (concrete counts keep the loops concrete) */
    unsigned ce = NONE, cec = 0;
#else
    unsigned ce = 1, cec = 1;
#endif
    verif_mf_calls = 0; verif_mf_pick[0] = ie; verif_mf_pick[1] = iec; verif_mf_cnt[0] = ce; verif_mf_cnt[1] = cec;
    void *blk = malloc(A_PID_FUZZY_BFUZZ(1));
    ASSUME(blk != A_NULL);
    a_pid_fuzzy_set_bfuzz(&f, blk, 1);
    ND(_Bool, hp, bool); ND(_Bool, hi, bool); ND(_Bool, hd, bool);
    a_real tp[16], ti[16], td[16];
    unsigned k;
    for (k = 0; k < 16; ++k) { int vp, vi, vd; ND_ARR(vp, tp, k, int); ND_ARR(vi, ti, k, int); ND_ARR(vd, td, k, int); ASSUME(-64 <= vp && vp <= 64 && -64 <= vi && vi <= 64 && -64 <= vd && vd <= 64); tp[k] = vp; ti[k] = vi; td[k] = vd; }
    a_real me[1], mec[1];
    me[0] = 0; mec[0] = 0;
    a_pid_fuzzy_set_rule(&f, nrule, me, mec, hp ? tp : (a_real *)A_NULL, hi ? ti : (a_real *)A_NULL, hd ? td : (a_real *)A_NULL);
    a_pid_fuzzy_set_opr(&f, A_PID_FUZZY_CAP);
    ND(int, bp, int); ND(int, bi, int); ND(int, bd, int);
    ASSUME(-64 <= bp && bp <= 64 && -64 <= bi && bi <= 64 && -64 <= bd && bd <= 64);
    a_pid_fuzzy_set_kpid(&f, bp, bi, bd);
    a_pid_fuzzy_out_(&f, ec, e);
    if (!ce || !cec)
    {
        /* no active e-set, or no active ec-set: no rule fires, the gains are the base gains (finite, no division by the empty weight sum) */
        ASSERT(f.pid.kp == (a_real)bp && f.pid.ki == (a_real)bi && f.pid.kd == (a_real)bd, "out_: with no active set for e or for ec no rule fires and the controller runs on its base gains");
        free(blk);
        VERIF_CANARY();
        return;
    }
    ASSERT(verif_mf_calls == 2, "out_: both inputs are fuzzified");
    ASSERT(f.pid.kp == (hp ? bp + tp[ie * nrule + iec] : (a_real)bp), "out_: Kp is the base gain plus the consequent of the active rule (e-set, ec-set)");
    ASSERT(f.pid.ki == (hi ? bi + ti[ie * nrule + iec] : (a_real)bi), "out_: Ki is the base gain plus the consequent of the active rule, also when the Kp table is absent");
    ASSERT(f.pid.kd == (hd ? bd + td[ie * nrule + iec] : (a_real)bd), "out_: Kd is the base gain plus the consequent of the active rule, also when the Kp/Ki tables are absent");
    free(blk);
    VERIF_CANARY();
}
