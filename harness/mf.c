/* C13: membership functions (src/mf.c), fuzzy operators (include/a/fuzzy.h, src/fuzzy.c),
   gain scheduling table walk and scratch buffer (src/pid_fuzzy.c) */
#include "contracts/verif.h"
#include "a/math.h"
#include "a/mf.h"
#include "a/fuzzy.h"
#include "a/pid_fuzzy.h"

#define ISNAN(x) ((x) != (x))
#define FINITE(x) ((x) - (x) == 0)
#define BIG 0x1p500 /* |inputs| <= 2^500: differences and sums of two inputs cannot overflow */
#define INR(x) (FINITE(x) && -BIG <= (x) && (x) <= BIG)

#ifndef VERIF_NATIVE
/* assumed contracts of the C library (ISO C guarantees only): implemented as stubs */
double exp(double x)
{
    double r = nondet_double();
    __CPROVER_assume(ISNAN(x) ? ISNAN(r) : (r >= 0 && (x > 0 || r <= 1) && (x < 0 || r >= 1)));
    return r;
}
double pow(double x, double y)
{
    double r = nondet_double();
    /* even power of a finite number: a non-negative number; of a number in [0,1]: stays in [0,1] */
    __CPROVER_assume(!(y == 2 && !ISNAN(x)) || (r >= 0 && !(x >= -1 && x <= 1) == !(r <= 1)));
    __CPROVER_assume(!(x >= 0 && !ISNAN(y)) || r >= 0);
    return r;
}
double sqrt(double x)
{
    double r = nondet_double();
    __CPROVER_assume(x >= 0 ? (r >= 0 && (x > 1) == (r > 1) && (x == 0) == (r == 0)) : ISNAN(r));
    return r;
}
#endif

#include "src/mf.c"
#include "src/fuzzy.c"

/* ---- [P] piecewise structure: exact 0 outside the support, exact 1 on the core, the flank formula,
        never NaN - for all finite inputs and every ordered tuple INCLUDING degenerate shoulders ---- */
void h_mf_tri(void)
{
    ND(a_real, x, double); ND(a_real, a, double); ND(a_real, b, double); ND(a_real, c, double);
    ASSUME(INR(x) && INR(a) && INR(b) && INR(c) && a <= b && b <= c);
    a_real y = a_mf_tri(x, a, b, c);
    ASSERT(!ISNAN(y), "tri: never NaN for ordered finite parameters");
    if (x == b && (a == b || b == c)) { ASSERT(y == 1, "tri: exactly one at the peak of a degenerate shoulder (a == b or b == c)"); }
    if (x == b) { ASSERT(y == 1, "tri: exactly one at the peak (also for a degenerate shoulder a == b or b == c)"); }
    if (x < a || x > c) { ASSERT(y == 0, "tri: exactly zero outside the support"); }
    if (a < x && x < b) { ASSERT(y == (x - a) / (b - a), "tri: rising flank (x-a)/(b-a)"); }
    if (b < x && x < c) { ASSERT(y == (c - x) / (c - b), "tri: falling flank (c-x)/(c-b)"); }
    ASSERT(y >= 0, "tri: never negative");
    VERIF_CANARY();
}
void h_mf_trap(void)
{
    ND(a_real, x, double); ND(a_real, a, double); ND(a_real, b, double); ND(a_real, c, double); ND(a_real, d, double);
    ASSUME(INR(x) && INR(a) && INR(b) && INR(c) && INR(d) && a <= b && b <= c && c <= d);
    a_real y = a_mf_trap(x, a, b, c, d);
    ASSERT(!ISNAN(y), "trap: never NaN for ordered finite parameters");
    if (a == b && x == b) { ASSERT(y == 1, "trap: exactly one at a degenerate left shoulder (x == a == b)"); }
    if (c == d && x == c) { ASSERT(y == 1, "trap: exactly one at a degenerate right shoulder (x == c == d)"); }
    if (b <= x && x <= c) { ASSERT(y == 1, "trap: exactly one on the core [b,c] (also for degenerate shoulders)"); }
    if (x < a || x > d) { ASSERT(y == 0, "trap: exactly zero outside the support"); }
    if (a < x && x < b) { ASSERT(y == (x - a) / (b - a), "trap: rising flank"); }
    if (c < x && x < d) { ASSERT(y == (d - x) / (d - c), "trap: falling flank"); }
    ASSERT(y >= 0, "trap: never negative");
    VERIF_CANARY();
}
void h_mf_lin(void)
{
    ND(a_real, x, double); ND(a_real, a, double); ND(a_real, b, double);
    ASSUME(INR(x) && INR(a) && INR(b) && a <= b);
    a_real s = a_mf_lins(x, a, b), z = a_mf_linz(x, a, b);
    ASSERT(!ISNAN(s) && !ISNAN(z), "lins/linz: never NaN for a <= b (also a == b)");
    if (x < a) { ASSERT(s == 0 && z == 1, "lins/linz: 0/1 below the ramp"); }
    if (x > b) { ASSERT(s == 1 && z == 0, "lins/linz: 1/0 above the ramp"); }
    if (x == b && a < b) { ASSERT(s == 1 && z == 0, "lins/linz: ramp ends exactly at 1/0"); }
    if (x == a && a < b) { ASSERT(s == (x - a) / (b - a) && z == (b - x) / (b - a), "lins/linz: the ramp start is the closed end of the ramp formulas, i.e. 0/q and q/q (== 0, 1 by lemma_qq)"); }
    if (a < x && x < b) { ASSERT(s == (x - a) / (b - a) && z == (b - x) / (b - a), "lins/linz: ramp formulas"); }
    if (x < a || x >= b) { ASSERT(s + z == 1, "lins/linz: complementary off the ramp"); }
    ASSERT(s >= 0 && z >= 0, "lins/linz: never negative");
    VERIF_CANARY();
}
/* s / z / pi: the midpoint test (a+b)/2 makes the general case too expensive for the solver (295 s / no answer);
   decided on the exact domain: integer parameters and inputs of magnitude <= 2^10 (bounded-domain unit) */
void h_mf_sz(void)
{
    ND(int, ix, int); ND(int, ia, int); ND(int, ib, int);
    ASSUME(-1024 <= ix && ix <= 1024 && -1024 <= ia && ia < ib && ib <= 1024);
    a_real x = ix, a = ia, b = ib;
    a_real s = a_mf_s(x, a, b), z = a_mf_z(x, a, b);
    if (x <= a) { ASSERT(s == 0 && z == 1, "s/z: 0/1 at and below a"); }
    if (x >= b) { ASSERT(s == 1 && z == 0, "s/z: 1/0 at and above b"); }
    if (x <= a || x >= b) { ASSERT(s + z == 1, "s/z: complementary outside the transition"); }
    VERIF_CANARY();
}
void h_mf_pi(void)
{
    ND(int, ix, int); ND(int, ia, int); ND(int, ib, int); ND(int, ic, int); ND(int, id, int);
    ASSUME(-1024 <= ix && ix <= 1024 && -1024 <= ia && ia < ib && ib <= ic && ic < id && id <= 1024);
    a_real x = ix, a = ia, b = ib, c = ic, d = id;
    a_real y = a_mf_pi(x, a, b, c, d);
    if (b <= x && x <= c) { ASSERT(y == 1, "pi: exactly one on the core [b,c]"); }
    if (x <= a || x >= d) { ASSERT(y == 0, "pi: exactly zero outside the support"); }
    VERIF_CANARY();
}
void h_mf_gauss2(void)
{
    ND(a_real, x, double); ND(a_real, s1, double); ND(a_real, c1, double); ND(a_real, s2, double); ND(a_real, c2, double);
    ASSUME(INR(x) && INR(s1) && INR(c1) && INR(s2) && INR(c2) && c1 <= c2 && s1 != 0 && s2 != 0);
    a_real y = a_mf_gauss2(x, s1, c1, s2, c2);
    if (c1 <= x && x <= c2) { ASSERT(y == 1, "gauss2: exactly one between the centres"); }
    ASSERT(y >= 0 && y <= 1, "gauss2: within [0,1] (given exp(t) in [0,1] for t <= 0 and pow(t,2) >= 0)");
    VERIF_CANARY();
}
/* smooth families: range from the sign structure, given the assumed libm contracts */
void h_mf_smooth(void)
{
    ND(a_real, x, double); ND(a_real, p, double); ND(a_real, q, double); ND(a_real, r, double);
    ASSUME(INR(x) && INR(p) && INR(q) && INR(r) && p != 0);
    a_real g = a_mf_gauss(x, p, q);
    ASSERT(g >= 0 && g <= 1, "gauss: within [0,1]");
    a_real s = a_mf_sig(x, p, q);
    ASSERT(s >= 0 && s <= 1, "sig: within [0,1]");
    a_real gb = a_mf_gbell(x, p, q, r);
    ASSERT(ISNAN(gb) || (gb >= 0 && gb <= 1), "gbell: within [0,1]");
    VERIF_CANARY();
}

/* IEEE lemma used to read the closed flank ends: q/q == 1 and 0/q == 0 for finite non-zero q */
void h_lemma_qq(void)
{
    ND(a_real, p, double); ND(a_real, q, double);
    ASSUME(INR(p) && INR(q) && p != q);
    ASSERT((p - q) / (p - q) == 1, "(p-q)/(p-q) == 1 for finite p != q");
    ASSERT((p - p) / (p - q) == 0, "(p-p)/(p-q) == 0 for finite p != q");
    VERIF_CANARY();
}

/* ---- [P] fuzzy operators ---- */
void h_fuzzy_minmax(void)
{
    ND(a_real, a, double); ND(a_real, b, double);
    ASSUME(0 <= a && a <= 1 && 0 <= b && b <= 1);
    a_real cap = a_fuzzy_cap(a, b), cup = a_fuzzy_cup(a, b);
    ASSERT(cap == a_fuzzy_cap(b, a) && cup == a_fuzzy_cup(b, a), "cap/cup: commutative");
    ASSERT(cap == (a < b ? a : b) && cup == (a < b ? b : a), "cap/cup: min / max");
    ASSERT(0 <= cap && cap <= cup && cup <= 1, "cap/cup: within [0,1], cap <= cup");
    ASSERT(a_fuzzy_cap(a, 1) == a && a_fuzzy_cap(a, 0) == 0 && a_fuzzy_cup(a, 0) == a && a_fuzzy_cup(a, 1) == 1, "cap/cup: boundary cases at 0 and 1");
    ASSERT(a_fuzzy_not(a) == 1 - a && a_fuzzy_not(a) >= 0 && a_fuzzy_not(a) <= 1, "not: complement within [0,1]");
    VERIF_CANARY();
}
void h_fuzzy_bounded(void)
{
    ND(a_real, a, double); ND(a_real, b, double);
    ASSUME(0 <= a && a <= 1 && 0 <= b && b <= 1);
    a_real cap = a_fuzzy_cap_bounded(a, b), cup = a_fuzzy_cup_bounded(a, b);
    ASSERT(cap == a_fuzzy_cap_bounded(b, a) && cup == a_fuzzy_cup_bounded(b, a), "bounded cap/cup: commutative");
    ASSERT(0 <= cap && cap <= 1 && 0 <= cup && cup <= 1, "bounded cap/cup: within [0,1]");
    ASSERT(a_fuzzy_cap_bounded(a, 0) == 0 && a_fuzzy_cup_bounded(a, 0) == a && a_fuzzy_cup_bounded(a, 1) == 1, "bounded cap/cup: boundary cases that are exact in floating point");
    ASSERT(cup >= (a < b ? b : a), "bounded sum is at least max(a,b)");
    VERIF_CANARY();
}
void h_fuzzy_algebra(void)
{
    ND(a_real, a, double); ND(a_real, b, double);
    ASSUME(0 <= a && a <= 1 && 0 <= b && b <= 1);
    ASSERT(a_fuzzy_cap_algebra(a, b) == a_fuzzy_cap_algebra(b, a), "algebraic product: commutative");
    ASSERT(a_fuzzy_cup_algebra(a, b) == a_fuzzy_cup_algebra(b, a), "algebraic sum: commutative");
    ASSERT(a_fuzzy_cap_algebra(a, 1) == a && a_fuzzy_cap_algebra(a, 0) == 0 && a_fuzzy_cup_algebra(a, 0) == a, "algebraic product/sum: boundary cases that are exact in floating point");
    VERIF_CANARY();
}
/* exact domain (multiples of 2^-10): the class bounds and remaining boundary cases hold exactly */
void h_fuzzy_exact(void)
{
    ND(int, ia, int); ND(int, ib, int);
    ASSUME(0 <= ia && ia <= 1024 && 0 <= ib && ib <= 1024);
    a_real a = ia / 1024.0, b = ib / 1024.0, mn = a < b ? a : b, mx = a < b ? b : a;
    ASSERT(a_fuzzy_cap_bounded(a, b) <= mn && a_fuzzy_cap_bounded(a, 1) == a, "bounded product <= min(a,b), identity at 1");
    ASSERT(a_fuzzy_cup_bounded(a, b) >= mx, "bounded sum >= max(a,b)");
    ASSERT(a_fuzzy_cap_algebra(a, b) <= mn && a_fuzzy_cap_algebra(a, b) >= 0, "algebraic product within [0, min(a,b)]");
    ASSERT(a_fuzzy_cup_algebra(a, b) >= mx && a_fuzzy_cup_algebra(a, b) <= 1 && a_fuzzy_cup_algebra(a, 1) == 1, "algebraic sum within [max(a,b), 1], absorbing 1");
    VERIF_CANARY();
}
