/* C18: UTF-8 codec of /repo/src/utf.c */
#include "contracts/verif.h"
#include "a/utf.h"

/* ghost bookkeeping of the decoder calls made by a_utf_length (contract used for replacement) */
a_size verif_calls;  /* number of decoder calls */
a_size verif_sum;    /* sum of the lengths the decoder reported */
a_size verif_last;   /* what the last call reported */

/* the UTF-8 table */
static unsigned spec_len(a_u32 x)
{
    if (x == 0) { return 0; }
    if (x < 0x80) { return 1; }
    if (x < 0x800) { return 2; }
    if (x < 0x10000) { return 3; }
    if (x < 0x200000) { return 4; }
    if (x < 0x4000000) { return 5; }
    return 6;
}

/* ---- contracts ---- */
/* enforced: decoder on an arbitrary block of exactly min(num, 6) readable bytes (size is capped so
   that any read at index >= min(num,6) is a pointer-check failure) */
unsigned int contract_a_utf_decode(void const *ptr, a_size num, a_u32 *val)
    __CPROVER_requires(__CPROVER_is_fresh(ptr, num > 6 ? 6 : num))
    __CPROVER_requires(val == A_NULL || __CPROVER_is_fresh(val, sizeof(a_u32)))
    __CPROVER_assigns(val != A_NULL: *val)
    __CPROVER_ensures(__CPROVER_return_value <= 6 && __CPROVER_return_value <= num)
    __CPROVER_ensures(num == 0 || __CPROVER_return_value == 0 || ((unsigned char const *)ptr)[0] != 0)
    __CPROVER_ensures(__CPROVER_return_value <= 1 || (((unsigned char const *)ptr)[__CPROVER_return_value - 1] & 0xC0) == 0x80)
    __CPROVER_ensures(num == 0 || ((unsigned char const *)ptr)[0] < 0xFE || __CPROVER_return_value == 0);

/* assumed at the call sites inside a_utf_length (readability instead of freshness, plus ghost bookkeeping);
   its functional part is exactly what contract_a_utf_decode proves */
unsigned int contract_a_utf_decode_r(void const *ptr, a_size num, a_u32 *val)
    __CPROVER_requires(val == A_NULL)
    __CPROVER_requires(__CPROVER_r_ok(ptr, num > 6 ? 6 : num))
    __CPROVER_assigns(verif_calls, verif_sum, verif_last)
    __CPROVER_ensures(__CPROVER_return_value <= 6 && __CPROVER_return_value <= num)
    __CPROVER_ensures(verif_calls == __CPROVER_old(verif_calls) + 1)
    __CPROVER_ensures(verif_sum == __CPROVER_old(verif_sum) + __CPROVER_return_value)
    __CPROVER_ensures(verif_last == __CPROVER_return_value);

a_size contract_a_utf_length(void const *ptr, a_size num, a_size *stop)
    __CPROVER_requires(num <= 0x100000000ul)
    __CPROVER_requires(__CPROVER_is_fresh(ptr, num))
    __CPROVER_requires(stop == A_NULL || __CPROVER_is_fresh(stop, sizeof(a_size)))
    __CPROVER_requires(verif_calls == 0 && verif_sum == 0)
    __CPROVER_assigns(verif_calls, verif_sum, verif_last; stop != A_NULL: *stop)
    __CPROVER_ensures(__CPROVER_return_value + 1 == verif_calls)                 /* one increment per accepted sequence */
    __CPROVER_ensures(verif_last == 0)                                            /* it stopped because the decoder refused */
    __CPROVER_ensures(verif_sum <= num)                                           /* never beyond the stated length */
    __CPROVER_ensures(stop == A_NULL || *stop == verif_sum);                      /* stop offset = sum of reported lengths */

/* a_utf_length_ forms pointers up to 5 bytes beyond ptr+num when the text ends in a truncated sequence
   (pointer arithmetic only, no access).  cbmc's pointer check cannot tell that from an access, so the block
   gets 6 bytes of slack here and the "no read at or beyond ptr+num" clause is NOT claimed for this routine. */
a_size contract_a_utf_length_(void const *ptr, a_size num)
    __CPROVER_requires(num <= 0x100000000ul)
    __CPROVER_requires(__CPROVER_is_fresh(ptr, num + 6))
    __CPROVER_assigns()
    __CPROVER_ensures(__CPROVER_return_value <= num);

#include "src/utf.c"

/* ---- [P] encoder: table length, exact footprint, byte shapes, for all 2^32 arguments ---- */
void h_encode(void)
{
    a_u32 val = nondet_u32();
    a_u32 x = val & 0x7FFFFFFFu;
    unsigned n_spec = spec_len(x);
    unsigned char buf[8], buf0[8];
    unsigned k;
    for (k = 0; k < 8; ++k) { buf[k] = buf0[k] = nondet_u8(); }
    unsigned n0 = a_utf_encode(val, A_NULL);
    unsigned n = a_utf_encode(val, buf);
    ASSERT(n == n_spec, "encode: length is the UTF-8 table's length (0 for 0)");
    ASSERT(n0 == n, "encode: size-only query reports the same length");
    unsigned w = nondet_u32(); /* ghost witness byte */
    ASSUME(w < 8);
    if (w >= n) { ASSERT(buf[w] == buf0[w], "encode: nothing written beyond the reported length"); }
    if (w >= 1 && w < n) { ASSERT((buf[w] & 0xC0) == 0x80, "encode: trailing bytes are continuation bytes"); }
    if (n == 1) { ASSERT(buf[0] == x, "encode: one-byte form is the code point"); }
    if (n >= 2) { ASSERT((unsigned char)(buf[0] >> (7 - n)) == (unsigned char)(0xFE & (0xFF >> (7 - n))), "encode: lead byte has n leading ones then a zero"); }
    /* payload: the code point is the concatenation of the lead payload and the 6-bit groups */
    if (n >= 2)
    {
        a_u32 y = buf[0] & (0xFFu >> (n + 1));
        for (k = 1; k < 6; ++k) { if (k < n) { y = (y << 6) | (buf[k] & 0x3F); } }
        ASSERT(y == x, "encode: payload bits are the code point");
    }
    /* exactly sized block: any write beyond the table length is a pointer-check failure */
    {
        unsigned char *e = (unsigned char *)malloc(n_spec ? n_spec : 1);
        (void)a_utf_encode(val, e);
        free(e);
    }
    VERIF_CANARY();
}

/* ---- [P] decoder on arbitrary bytes: enforced contract, both val == NULL and val != NULL ---- */
void h_decode(void)
{
    void const *ptr;
    a_size num;
    a_u32 *val;
    (void)a_utf_decode(ptr, num, val);
    VERIF_CANARY();
}

/* the two modes (with and without output) report the same length; a multi-byte result has `result` leading ones */
void h_decode_modes(void)
{
    a_size num = nondet_size();
    a_size cap = num > 6 ? 6 : num;
    unsigned char *p = (unsigned char *)malloc(cap ? cap : 1);
    unsigned k;
    for (k = 0; k < 6; ++k) { if (k < cap) { p[k] = nondet_u8(); } }
    a_u32 out = 0xFFFFFFFFu;
    unsigned a = a_utf_decode(cap ? p : p, num, &out);
    unsigned b = a_utf_decode(p, num, A_NULL);
    if (num == 0) { ASSERT(a == 0 && b == 0, "decode: empty input is refused"); }
    else
    {
        ASSERT(a == b, "decode: length is the same with and without an output pointer");
        if (a >= 2) { ASSERT((unsigned char)(p[0] >> (7 - a)) == (unsigned char)(0xFE & (0xFF >> (7 - a))), "decode: accepted lead byte has `result` leading ones"); }
        unsigned w = nondet_u32(); /* ghost witness */
        ASSUME(w >= 1 && w < 6);
        if (w < a) { ASSERT((p[w] & 0xC0) == 0x80, "decode: every trailing byte of an accepted sequence is a continuation byte"); }
    }
    free(p);
    VERIF_CANARY();
}

/* ---- [P] round trip: every code point 1..2^31-1, every proper prefix refused ---- */
void h_roundtrip(void)
{
    a_u32 x = nondet_u32();
    ASSUME(x >= 1 && x <= 0x7FFFFFFFu);
    unsigned char buf[6];
    unsigned n = a_utf_encode(x, buf);
    a_u32 y = 0;
    unsigned m = a_utf_decode(buf, n, &y);
    ASSERT(m == n, "round trip: decoder reports the encoded length");
    ASSERT(y == x, "round trip: decoder returns the code point");
    ASSERT(a_utf_decode(buf, n, A_NULL) == n, "round trip: size-only decode reports the encoded length");
    a_size pre = nondet_size(); /* every proper prefix */
    ASSUME(pre < n);
    {
        unsigned char *e = (unsigned char *)malloc(pre ? pre : 1);
        unsigned k;
        for (k = 0; k < 6; ++k) { if (k < pre) { e[k] = buf[k]; } }
        a_u32 z = 0;
        ASSERT(a_utf_decode(e, pre, &z) == 0, "round trip: a proper prefix is refused");
        ASSERT(a_utf_decode(e, pre, A_NULL) == 0, "round trip: a proper prefix is refused (size-only)");
        free(e);
    }
    VERIF_CANARY();
}

/* ---- [P] length counters ---- */
void h_length(void)
{
    void const *ptr;
    a_size num;
    a_size *stop;
    (void)a_utf_length(ptr, num, stop);
    VERIF_CANARY();
}
void h_length_(void)
{
    void const *ptr;
    a_size num;
    (void)a_utf_length_(ptr, num);
    VERIF_CANARY();
}

