/* C04 / C07: growable vector (src/vec.c) and fixed buffer (src/buf.c) against an abstract sequence.
   One harness per public operation: an arbitrary valid container (element size SIZ concrete, capacity
   mem <= MAXM and count num <= mem symbolic, contents symbolic) -> the real operation with indices/counts over
   the full range of the index type -> comparison with the abstract sequence through a ghost witness
   element.  The allocator hook is a model of the documented protocol that MAY FAIL at every request
   (C07) and keeps a ledger of live blocks.  -DSEQ_BUF selects the fixed buffer.  */
#include "contracts/verif.h"
#include "a/vec.h"
#include "a/buf.h"

#ifndef SIZ
#define SIZ 3
#endif
#ifndef MAXM
#define MAXM 4
#endif
#define GROWN 8 /* upper bound on the capacity after one growth step to at most MAXM + 2 elements (1.5x + 1, rounded up to 8) */

/* ---- allocator model: realloc/malloc/free protocol, nondeterministic failure, ledger ---- */
int verif_live;          /* ghost ledger: blocks obtained and not yet released */
int verif_alloc_failed;        /* ghost: some request of this operation failed */
int verif_requests;      /* ghost: number of allocation requests (size != 0) */
unsigned verif_fail_mask; /* ghost fault schedule (symbolic): request number i fails iff bit i is set */
#define COPYMAX (24 + MAXM * SIZ) /* largest block a container of capacity <= MAXM owns (buffer header included) */
#ifndef VERIF_NATIVE
/* blocks get CONCRETE sizes (a symbolic-size object makes the memory encoding explode): the request is matched
   against the sizes that can occur for capacities <= GROWN; an unmodelled size is a failed obligation, not a cut */
static void *sized_malloc(a_size size) /* allocator requests: only the sizes the growth policy can produce here */
{
    void *p = A_NULL;
    _Bool found = 0;
#ifdef SEQ_BUF
    unsigned k;
    for (k = 0; k <= MAXM + 1; ++k) { if (!found && size == sizeof(a_buf) + k * SIZ) { p = malloc(sizeof(a_buf) + k * SIZ); found = 1; } }
#else
    if (size == sizeof(a_vec)) { p = malloc(sizeof(a_vec)); found = 1; }
    else if (size == GROWN * SIZ) { p = malloc(GROWN * SIZ); found = 1; } /* 1.5x + 1 growth to <= MAXM + 2 elements, rounded up to 8 */
#endif
    __CPROVER_assert(found, "allocator model: the requested size is one of the modelled sizes");
    __CPROVER_assume(found && p != A_NULL);
    return p;
}
static void *data_block(a_size hdr, a_size elems) /* hdr + elems * SIZ bytes, elems <= MAXM, as a block of concrete size */
{
    void *p = A_NULL;
    unsigned k;
    _Bool found = 0;
    for (k = 0; k <= MAXM; ++k) { if (!found && elems == k) { p = malloc(hdr + k * SIZ ? hdr + k * SIZ : 1); found = 1; } }
    __CPROVER_assume(found && p != A_NULL);
    return p;
}
static void *verif_alloc(void *addr, a_size size)
{
    if (size == 0)
    {
        if (addr) { free(addr); --verif_live; }
        return A_NULL;
    }
    if (verif_requests < 32 && ((verif_fail_mask >> verif_requests++) & 1)) { verif_alloc_failed = 1; return A_NULL; } /* old block stays alive, untouched */
    unsigned char *p = (unsigned char *)sized_malloc(size);
    if (addr)
    {
        a_size old = __CPROVER_OBJECT_SIZE(addr), k;
        __CPROVER_assert(old <= COPYMAX, "allocator model: old block within the modelled size");
        for (k = 0; k < COPYMAX; ++k) { if (k < old && k < size) { p[k] = ((unsigned char *)addr)[k]; } }
        free(addr);
    }
    else { ++verif_live; }
    return p;
}
#else
static void *sized_malloc(a_size size) { return malloc(size); }
static void *data_block(a_size hdr, a_size elems) { return malloc(hdr + elems * SIZ ? hdr + elems * SIZ : 1); }
static void *verif_alloc(void *addr, a_size size)
{
    if (!size) { if (addr) { free(addr); --verif_live; } return 0; }
    if (verif_requests < 32 && ((verif_fail_mask >> verif_requests++) & 1)) { verif_alloc_failed = 1; return 0; }
    if (!addr) { ++verif_live; }
    return realloc(addr, size);
}
#endif

/* libc block copies reached through a_copy / a_move: byte-loop models over the small blocks of this harness
   (cbmc's own memcpy/memmove models with symbolic lengths are too expensive); a_swap and the rest of src/a.c are real */
#include <string.h>
#ifndef VERIF_NATIVE
#define BYTEMAX (GROWN * SIZ) /* a_copy / a_move only ever move element data */
static void *verif_memcpy(void *dst, void const *src, size_t n)
{
    size_t k;
    __CPROVER_assert(n <= BYTEMAX, "memcpy model: length within the modelled size");
    __CPROVER_assert(n == 0 || (__CPROVER_r_ok(src, n) && __CPROVER_w_ok(dst, n)), "memcpy: source readable and destination writable for n bytes");
    for (k = 0; k < BYTEMAX; ++k) { if (k < n) { ((unsigned char *)dst)[k] = ((unsigned char const *)src)[k]; } }
    return dst;
}
static void *verif_memmove(void *dst, void const *src, size_t n)
{
    unsigned char tmp[BYTEMAX];
    size_t k;
    __CPROVER_assert(n <= BYTEMAX, "memmove model: length within the modelled size");
    __CPROVER_assert(n == 0 || (__CPROVER_r_ok(src, n) && __CPROVER_w_ok(dst, n)), "memmove: source readable and destination writable for n bytes");
    for (k = 0; k < BYTEMAX; ++k) { if (k < n) { tmp[k] = ((unsigned char const *)src)[k]; } }
    for (k = 0; k < BYTEMAX; ++k) { if (k < n) { ((unsigned char *)dst)[k] = tmp[k]; } }
    return dst;
}
#define memcpy verif_memcpy
#define memmove verif_memmove
#endif
#include "src/a.c"
#ifndef VERIF_NATIVE
#undef memcpy
#undef memmove
#endif
#include "src/vec.c"
#include "src/buf.c"

/* ---- the container under test and its abstract view ---- */
static unsigned char old_[MAXM * SIZ + 1]; /* contents before the operation (the abstract sequence) */
static a_size num, mem;                    /* count and capacity before the operation */
#ifdef SEQ_BUF
static a_buf *B;
#define CTX ((void *)B)
#define BLK ((unsigned char *)(B + 1))
#define NUM (B->num_)
#define MEM (B->mem_)
#define ESZ (B->siz_)
#define OP(name) a_buf_##name
#else
static a_vec V;
#define CTX (&V)
#define BLK ((unsigned char *)V.ptr_)
#define NUM (V.num_)
#define MEM (V.mem_)
#define ESZ (V.siz_)
#define OP(name) a_vec_##name
#endif
static unsigned char *blk0; /* block address before the operation */

#ifdef SEQ_BUF /* the fixed buffer: capacity 1 or MAXM (two block shapes keep the memory encoding small) */
#define MK_NUM_MEM ND(a_size, n_, size); ND(a_size, m_, size); ASSUME((m_ == 1 || m_ == MAXM) && n_ <= m_); num = n_; mem = m_
#else
#define MK_NUM_MEM ND(a_size, n_, size); ND(a_size, m_, size); ASSUME(m_ <= MAXM && n_ <= m_); num = n_; mem = m_
#endif
static void mk(void)
{
    unsigned k;
    a_alloc = verif_alloc;
    verif_live = 0; verif_alloc_failed = 0; verif_requests = 0;
    { ND(unsigned, fail_mask, u32); verif_fail_mask = fail_mask; }
#ifdef SEQ_BUF
    B = (a_buf *)(mem == 1 ? malloc(sizeof(a_buf) + SIZ) : malloc(sizeof(a_buf) + SIZ * MAXM));
    ASSUME(B != A_NULL);
    B->siz_ = SIZ; B->num_ = num; B->mem_ = mem;
    verif_live = 1;
#else
    V.siz_ = SIZ; V.num_ = num; V.mem_ = mem;
    V.ptr_ = mem ? data_block(0, mem) : A_NULL;
    verif_live = mem ? 1 : 0;
#endif
    for (k = 0; k < MAXM * SIZ; ++k)
    {
        if (k < mem * SIZ) { unsigned char b; ND_ARR(b, old_, k, u8); BLK[k] = b; old_[k] = b; }
    }
    blk0 = BLK;
}
/* element i of the container now == element j of the old sequence */
static int same(a_size i, a_size j)
{
    unsigned k; int ok = 1;
    for (k = 0; k < SIZ; ++k) { if (BLK[i * SIZ + k] != old_[j * SIZ + k]) { ok = 0; } }
    return ok;
}
static int same_at(unsigned char const *p, a_size j)
{
    unsigned k; int ok = 1;
    for (k = 0; k < SIZ; ++k) { if (p[k] != old_[j * SIZ + k]) { ok = 0; } }
    return ok;
}
#define WITNESS(w, bound) ND(a_size, w, size); ASSUME(w < (bound))
#define INV() ASSERT(NUM <= MEM && ESZ == SIZ, "invariant: count <= capacity, element size kept")
#define UNCHANGED(what)                                                                                \
    do {                                                                                               \
        ASSERT(NUM == num && MEM == mem && BLK == blk0, what ": count, capacity and block unchanged"); \
        { WITNESS(wu, MAXM); if (wu < num) { ASSERT(same(wu, wu), what ": contents unchanged"); } }    \
    } while (0)
#ifdef SEQ_BUF
#define GROW_FAILS (num == mem) /* the fixed buffer refuses when full */
#else
#define GROW_FAILS (verif_alloc_failed)
#endif

/* ---- insert / push ---- */
static void chk_insert(void *r, a_size idx)
{
    a_size pos = idx < num ? idx : num;
    if (r == A_NULL)
    {
        ASSERT(GROW_FAILS, "insert: refuses only when it cannot grow (allocation failed / fixed buffer full)");
        UNCHANGED("failed insert");
    }
    else
    {
        ASSERT(NUM == num + 1, "insert: count grows by one");
        INV();
        ASSERT(r == BLK + pos * SIZ, "insert: returns the slot at min(idx, count) inside the owned block");
        { WITNESS(w, MAXM); if (w < num) { ASSERT(same(w < pos ? w : w + 1, w), "insert: elements before idx stay, elements from idx on move up by one"); } }
    }
#ifndef SEQ_BUF
    ASSERT(verif_live == (MEM ? 1 : 0), "ledger: exactly the owned block is live");
#endif
}
void h_insert(void)
{
    MK_NUM_MEM; mk();
    ND(a_size, idx, size);
    chk_insert(OP(insert)(CTX, idx), idx);
    VERIF_CANARY();
}
void h_push_fore(void)
{
    MK_NUM_MEM; mk();
    chk_insert(OP(push_fore)(CTX), 0);
    VERIF_CANARY();
}
void h_push_back(void)
{
    MK_NUM_MEM; mk();
    chk_insert(OP(push_back)(CTX), num);
    VERIF_CANARY();
}

/* ---- remove / pull ---- */
static void chk_remove(void *r, a_size idx)
{
    if (num == 0)
    {
        ASSERT(r == A_NULL, "remove: empty container yields null");
        UNCHANGED("remove on empty");
    }
    else
    {
        a_size pos = idx < num ? idx : num - 1;
        ASSERT(r != A_NULL && NUM == num - 1 && MEM == mem && BLK == blk0, "remove: count shrinks by one, capacity and block kept");
        ASSERT((unsigned char *)r >= BLK && (unsigned char *)r + SIZ <= BLK + mem * SIZ, "remove: returned element lies inside the owned storage");
        ASSERT(same_at((unsigned char const *)r, pos), "remove: returns the removed element intact");
        { WITNESS(w, MAXM); if (w + 1 < num) { ASSERT(same(w, w < pos ? w : w + 1), "remove: elements before idx stay, elements after idx move down by one"); } }
    }
}
void h_remove(void)
{
    MK_NUM_MEM; mk();
    ND(a_size, idx, size);
    chk_remove(OP(remove)(CTX, idx), idx);
    VERIF_CANARY();
}
void h_pull_fore(void)
{
    MK_NUM_MEM; mk();
    chk_remove(OP(pull_fore)(CTX), 0);
    VERIF_CANARY();
}
void h_pull_back(void)
{
    MK_NUM_MEM; mk();
    chk_remove(OP(pull_back)(CTX), num ? num - 1 : 0);
    VERIF_CANARY();
}

/* ---- bulk store (plain copy and element-wise copy callback) ---- */
static int copy_cb(void *dst, void const *src)
{
    unsigned k;
    for (k = 0; k < SIZ; ++k) { ((unsigned char *)dst)[k] = ((unsigned char const *)src)[k]; }
    return 0;
}
#define MAXS 2
void h_store(void)
{
    MK_NUM_MEM; mk();
    ND(a_size, idx, size); ND(a_size, cnt, size); ND(_Bool, use_cb, bool);
    ASSUME(cnt <= MAXS);
    unsigned char *src = (unsigned char *)data_block(0, cnt); /* exactly cnt elements */
    unsigned char src0[MAXS * SIZ];
    unsigned k;
    for (k = 0; k < MAXS * SIZ; ++k) { if (k < cnt * SIZ) { unsigned char s; ND_ARR(s, src0, k, u8); src[k] = s; src0[k] = s; } }
    int rc = OP(store)(CTX, idx, src, cnt, use_cb ? copy_cb : 0);
    a_size pos = idx < num ? idx : num;
    if (rc != A_SUCCESS)
    {
#ifdef SEQ_BUF
        ASSERT(rc == A_OBOUNDS && num + cnt > mem, "store: the fixed buffer refuses exactly what does not fit");
#else
        ASSERT(rc == A_OMEMORY && verif_alloc_failed, "store: fails only when the allocation failed");
#endif
        UNCHANGED("failed store");
    }
    else
    {
        ASSERT(NUM == num + cnt, "store: count grows by the number of stored elements");
        INV();
        { WITNESS(w, MAXM); if (w < num) { ASSERT(same(w < pos ? w : w + cnt, w), "store: old elements keep their order around the stored block"); } }
        { WITNESS(v, MAXS * SIZ); if (v < cnt * SIZ) { ASSERT(BLK[pos * SIZ + v] == src0[v], "store: the stored block is a copy of the source"); } }
    }
    free(src);
    VERIF_CANARY();
}

/* ---- bulk erase ---- */
void h_erase(void)
{
    MK_NUM_MEM; mk();
    ND(a_size, idx, size); ND(a_size, cnt, size);
    int rc = OP(erase)(CTX, idx, cnt, 0);
    if (idx >= num)
    {
        ASSERT(rc == A_OBOUNDS, "erase: starting at or beyond the end is refused");
        UNCHANGED("refused erase");
    }
    else
    {
        a_size gone = cnt < num - idx ? cnt : num - idx; /* a count reaching beyond the end erases up to the end */
        ASSERT(rc == A_SUCCESS && NUM == num - gone && MEM == mem && BLK == blk0, "erase: count shrinks by the number of erased elements");
        { WITNESS(w, MAXM); if (w < num - gone) { ASSERT(same(w, w < idx ? w : w + gone), "erase: remaining elements keep their order"); } }
    }
    VERIF_CANARY();
}

/* ---- resize ---- */
void h_setn(void)
{
    MK_NUM_MEM; mk();
    ND(a_size, n, size);
#ifdef SEQ_BUF
    a_buf_setn(B, n, 0);
    ASSERT(NUM == (n < mem ? n : mem) && MEM == mem, "setn: the fixed buffer clamps the count to its capacity");
#else
    ASSUME(n <= MAXM + 2);
    int rc = a_vec_setn(&V, n, 0);
    if (rc != A_SUCCESS) { ASSERT(rc == A_OMEMORY && verif_alloc_failed, "setn: fails only when the allocation failed"); UNCHANGED("failed setn"); }
    else { ASSERT(NUM == n, "setn: count is the requested one"); }
    ASSERT(verif_live == (MEM ? 1 : 0), "ledger: exactly the owned block is live");
#endif
    INV();
    { WITNESS(w, MAXM); if (w < num && w < NUM) { ASSERT(same(w, w), "setn: surviving elements unchanged"); } }
    VERIF_CANARY();
}
void h_setz(void)
{
    MK_NUM_MEM; mk();
    ND(a_size, z, size);
    OP(setz)(CTX, z, 0);
    a_size zz = z ? z : 1;
    ASSERT(NUM == 0 && ESZ == zz, "setz: empties the container, element size zero is treated as one");
    ASSERT(MEM == (mem * SIZ) / zz && BLK == blk0, "setz: capacity is what the same block holds at the new element size");
    VERIF_CANARY();
}

/* ---- accessors ---- */
void h_access(void)
{
    MK_NUM_MEM; mk();
    ND(a_size, idx, size); ND(long, sidx, long);
    void *at = OP(at)(CTX, idx), *of = OP(of)(CTX, sidx), *top = OP(top)(CTX), *end = OP(end)(CTX);
    ASSERT(at == (idx < mem ? (void *)(BLK + idx * SIZ) : A_NULL), "at: slot idx inside the capacity, null otherwise");
    if (sidx >= 0) { ASSERT(of == ((a_size)sidx < mem ? (void *)(BLK + (a_size)sidx * SIZ) : A_NULL), "of: non-negative index like at"); }
    else if ((a_size)(-(sidx + 1)) < num) { ASSERT(of == (void *)(BLK + (num - (a_size)(-(sidx + 1)) - 1) * SIZ), "of: -1 is the last element, -count the first"); }
    else { ASSERT(of == A_NULL || ((unsigned char *)of >= BLK && (unsigned char *)of + SIZ <= BLK + mem * SIZ), "of: out-of-range negative index never yields a pointer outside the owned storage"); }
    ASSERT(top == (num ? (void *)(BLK + (num - 1) * SIZ) : A_NULL), "top: last element or null when empty");
#ifdef SEQ_BUF
    ASSERT(end == (void *)(BLK + num * SIZ), "end: one past the last element");
#else
    ASSERT(end == (mem ? (void *)(BLK + num * SIZ) : A_NULL), "end: one past the last element (null without storage)");
#endif
    VERIF_CANARY();
}

/* ---- sorted insertion variants: key = first byte of the element ---- */
static int cmp_key(void const *l, void const *r)
{
    unsigned char a = *(unsigned char const *)l, b = *(unsigned char const *)r;
    return (a > b) - (a < b);
}
static int sorted_old(a_size from, a_size to) /* old_[from..to) ascending by key */
{
    a_size i; int ok = 1;
    for (i = 0; i + 1 < MAXM; ++i) { if (i >= from && i + 1 < to && old_[i * SIZ] > old_[(i + 1) * SIZ]) { ok = 0; } }
    return ok;
}
void h_sort_fore(void)
{
    MK_NUM_MEM; mk();
    ASSUME(sorted_old(1, num));
    OP(sort_fore)(CTX, cmp_key);
    ASSERT(NUM == num && MEM == mem && BLK == blk0, "sort_fore: count, capacity, block kept");
    if (num > 0)
    {
        a_size p = 0, i; /* final position of the old first element: number of strictly smaller keys behind it */
        for (i = 1; i < MAXM; ++i) { if (i < num && old_[i * SIZ] < old_[0]) { ++p; } }
        ASSERT(same(p, 0), "sort_fore: the first element lands behind all strictly smaller ones");
        { WITNESS(w, MAXM); if (w >= 1 && w < num) { ASSERT(same(w <= p ? w - 1 : w, w), "sort_fore: nothing lost, the others keep their order"); } }
    }
    VERIF_CANARY();
}
void h_sort_back(void)
{
    MK_NUM_MEM; mk();
    ASSUME(num == 0 || sorted_old(0, num - 1));
    OP(sort_back)(CTX, cmp_key);
    ASSERT(NUM == num && MEM == mem && BLK == blk0, "sort_back: count, capacity, block kept");
    if (num > 0)
    {
        a_size p = 0, i; /* final position of the old last element: number of keys not greater than it before it */
        for (i = 0; i + 1 < MAXM; ++i) { if (i + 1 < num && old_[i * SIZ] <= old_[(num - 1) * SIZ]) { ++p; } }
        ASSERT(same(p, num - 1), "sort_back: the last element lands behind all elements not greater than it");
        { WITNESS(w, MAXM); if (w + 1 < num) { ASSERT(same(w < p ? w : w + 1, w), "sort_back: nothing lost, the others keep their order"); } }
    }
    VERIF_CANARY();
}
void h_push_sort(void)
{
    MK_NUM_MEM; mk();
    ASSUME(sorted_old(0, num));
    ND(unsigned char, key, u8);
    unsigned char keyobj[SIZ];
    keyobj[0] = key;
    void *r = OP(push_sort)(CTX, keyobj, cmp_key);
    if (r == A_NULL)
    {
        ASSERT(GROW_FAILS, "push_sort: refuses only when it cannot grow");
        UNCHANGED("failed push_sort");
    }
    else
    {
        a_size p = 0, i;
        for (i = 0; i < MAXM; ++i) { if (i < num && old_[i * SIZ] <= key) { ++p; } }
        ASSERT(NUM == num + 1, "push_sort: count grows by one");
        INV();
        ASSERT(r == BLK + p * SIZ, "push_sort: returns the slot behind all elements not greater than the key");
        { WITNESS(w, MAXM); if (w < num) { ASSERT(same(w < p ? w : w + 1, w), "push_sort: nothing lost, order kept around the new slot"); } }
    }
    VERIF_CANARY();
}

#ifndef SEQ_BUF
/* ---- vector only: swap, constructor/destructor with the ledger ---- */
void h_swap(void)
{
    MK_NUM_MEM; mk();
    a_vec W;
    ND(a_size, wn, size); ND(a_size, wm, size); ND(a_size, ws, size);
    W.ptr_ = (void *)&W; W.num_ = wn; W.mem_ = wm; W.siz_ = ws;
    a_vec_swap(&V, &W);
    ASSERT(V.ptr_ == (void *)&W && V.num_ == wn && V.mem_ == wm && V.siz_ == ws, "swap: left receives the right view");
    ASSERT(W.ptr_ == (void *)blk0 && W.num_ == num && W.mem_ == mem && W.siz_ == SIZ, "swap: right receives the left view");
    VERIF_CANARY();
}
void h_ctor_dtor(void)
{
    MK_NUM_MEM; mk();
    a_vec_dtor(&V, 0);
    ASSERT(verif_live == 0, "dtor: every block obtained from the allocator is released exactly once");
    ASSERT(V.ptr_ == A_NULL && V.num_ == 0 && V.mem_ == 0, "dtor: object reset");
    ND(a_size, z, size);
    a_vec_ctor(&V, z);
    ASSERT(V.ptr_ == A_NULL && V.num_ == 0 && V.mem_ == 0 && V.siz_ == (z ? z : 1), "ctor: empty vector, element size zero treated as one");
    VERIF_CANARY();
}
void h_new_die(void)
{
    a_alloc = verif_alloc;
    verif_live = 0; verif_alloc_failed = 0; verif_requests = 0;
    { ND(unsigned, fail_mask, u32); verif_fail_mask = fail_mask; }
    ND(a_size, z, size);
    a_vec *p = a_vec_new(z);
    if (p == A_NULL) { ASSERT(verif_alloc_failed && verif_live == 0, "new: fails only when the allocation failed, nothing leaked"); }
    else
    {
        ASSERT(verif_live == 1 && p->num_ == 0 && p->mem_ == 0 && p->ptr_ == A_NULL, "new: one block, empty vector");
        a_vec_die(p, 0);
        ASSERT(verif_live == 0, "die: everything released");
    }
    VERIF_CANARY();
}
#else
void h_new_die(void)
{
    a_alloc = verif_alloc;
    verif_live = 0; verif_alloc_failed = 0; verif_requests = 0;
    { ND(unsigned, fail_mask, u32); verif_fail_mask = fail_mask; }
    ND(a_size, cap, size);
    ASSUME(cap <= MAXM);
    a_buf *p = a_buf_new(SIZ, cap);
    if (p == A_NULL) { ASSERT(verif_alloc_failed && verif_live == 0, "new: fails only when the allocation failed, nothing leaked"); }
    else
    {
        ASSERT(verif_live == 1 && p->num_ == 0 && p->mem_ == cap && p->siz_ == SIZ, "new: one block, empty buffer of the requested capacity");
        a_buf *q = a_buf_setm(p, cap + 1);
        if (q == A_NULL) { ASSERT(verif_alloc_failed && verif_live == 1 && p->mem_ == cap && p->num_ == 0, "setm: on failure returns null and leaves the old block alive and unchanged"); q = p; }
        else { ASSERT(verif_live == 1 && q->mem_ == cap + 1 && q->num_ == 0 && q->siz_ == SIZ, "setm: capacity changed, header preserved"); }
        a_buf_die(q, 0);
        ASSERT(verif_live == 0, "die: everything released");
    }
    VERIF_CANARY();
}
#endif
