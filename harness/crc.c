/* C17: CRC tables, byte steps and folds of /repo/src/crc.c; string hashes of /repo/src/hash.c */
#include "contracts/verif.h"
#include "contracts/crc_spec.h"
#include "a/crc.h"
#include "a/hash.h"

unsigned long verif_g; /* ghost accumulator (fold of the reference step) */
unsigned long verif_i; /* ghost index */

/* ------------------------------------------------------------------------------------------
   The definition: bit-by-bit polynomial division, one message bit at a time.
   MSB-first: the message bit meets the top of the w-bit register; LSB-first: the bottom, with the
   reflected polynomial.  (w = 64 uses the full word.)
   ------------------------------------------------------------------------------------------ */
#define MASK(w) ((w) == 64 ? ~0ul : ((1ul << ((w) & 63)) - 1))
static unsigned long spec_bit_m(unsigned long v, unsigned bit, unsigned long poly, unsigned w)
{
    unsigned long top = ((v >> (w - 1)) & 1) ^ (bit & 1);
    v = (v << 1) & MASK(w);
    if (top) { v ^= poly; }
    return v & MASK(w);
}
static unsigned long spec_byte_m(unsigned long v, unsigned byte, unsigned long poly, unsigned w)
{
    int i;
    for (i = 7; i >= 0; --i) { v = spec_bit_m(v, (byte >> i) & 1, poly, w); }
    return v;
}
static unsigned long spec_bit_l(unsigned long v, unsigned bit, unsigned long polyr, unsigned w)
{
    unsigned long low = (v & 1) ^ (bit & 1);
    v = (v & MASK(w)) >> 1;
    if (low) { v ^= polyr; }
    return v & MASK(w);
}
static unsigned long spec_byte_l(unsigned long v, unsigned byte, unsigned long polyr, unsigned w)
{
    int i;
    for (i = 0; i < 8; ++i) { v = spec_bit_l(v, (byte >> i) & 1, polyr, w); }
    return v;
}
/* remainder of the single byte k (k * x^w mod poly) by long division on the register: the table definition */
static unsigned long spec_tbl_m(unsigned k, unsigned long poly, unsigned w)
{
    unsigned long v = ((unsigned long)k << (w - 8)) & MASK(w);
    int i;
    for (i = 0; i < 8; ++i)
    {
        unsigned long top = (v >> (w - 1)) & 1;
        v = (v << 1) & MASK(w);
        if (top) { v ^= poly; }
    }
    return v & MASK(w);
}
static unsigned long spec_tbl_l(unsigned k, unsigned long polyr, unsigned w)
{
    unsigned long v = k;
    int i;
    for (i = 0; i < 8; ++i)
    {
        unsigned long low = v & 1;
        v >>= 1;
        if (low) { v ^= polyr; }
    }
    return v & MASK(w);
}
static unsigned long spec_rev(unsigned long x, unsigned w) /* bit i -> bit w-1-i, independent of a_uN_rev */
{
    unsigned long r = 0;
    unsigned i;
    for (i = 0; i < w; ++i) { r |= ((x >> i) & 1) << (w - 1 - i); }
    return r;
}

#include "src/crc.c"
#include "src/hash.c"

/* ---- [P] tables: every entry equals the bitwise remainder of the byte, for every polynomial.
        verif_k is a ghost witness index (universally quantified).  The A_VERIF_HOOK site after
        "table[c] = value" records, when c == verif_k, the value written (verif_T) and whether it
        equalled the definition evaluated at the same c (verif_good); the outer loop carries the
        contract  verif_k < c ==> table[verif_k] == verif_T && verif_good  (props/C17.py), i.e. the
        entry was right when written and no later iteration overwrote it.  Inner loop unwound (8). ---- */
unsigned verif_k;
unsigned long verif_T;
int verif_good;
unsigned long verif_poly;
#define H_TBL(W, T, FN, POLY_USED)                                                                     \
    void h_tbl_##FN(void)                                                                              \
    {                                                                                                  \
        T table[0x100];                                                                                \
        T poly = (T)nondet_u64();                                                                      \
        verif_k = nondet_u32();                                                                        \
        ASSUME(verif_k < 0x100);                                                                       \
        verif_good = 0;                                                                                \
        FN(table, poly);                                                                               \
        ASSERT(verif_good, "table[k] equalled the remainder of byte k when it was written");          \
        ASSERT(table[verif_k] == (T)verif_T, "table[k] was not overwritten afterwards");              \
        ASSERT(verif_poly == (POLY_USED), "the generator loop used the (reflected) polynomial");      \
        VERIF_CANARY();                                                                                \
    }
H_TBL(8, a_u8, a_crc8m_init, poly)
H_TBL(8, a_u8, a_crc8l_init, spec_rev(poly, 8))
H_TBL(16, a_u16, a_crc16m_init, poly)
H_TBL(16, a_u16, a_crc16l_init, spec_rev(poly, 16))
H_TBL(32, a_u32, a_crc32m_init, poly)
H_TBL(32, a_u32, a_crc32l_init, spec_rev(poly, 32))
H_TBL(64, a_u64, a_crc64m_init, poly)
H_TBL(64, a_u64, a_crc64l_init, spec_rev(poly, 64))

/* ---- [P] byte-step lemmas (table-free): reference step with table[i] := remainder(i) equals the
        bitwise division of the byte, for all polynomials, register values and bytes ---- */
static unsigned long lemma_poly;
static unsigned lemma_w;
#define TM(i) spec_tbl_m((i), lemma_poly, lemma_w)
#define TL(i) spec_tbl_l((i), lemma_poly, lemma_w)
#define H_STEP(NAME, W, STEP, TT, SPEC)                                                                \
    void h_step_##NAME(void)                                                                           \
    {                                                                                                  \
        unsigned long v = nondet_u64() & MASK(W);                                                      \
        unsigned char b = nondet_u8();                                                                 \
        lemma_poly = nondet_u64() & MASK(W);                                                           \
        lemma_w = W;                                                                                   \
        ASSERT((unsigned long)STEP(v, b, TT) == SPEC(v, b, lemma_poly, W), "table byte step == 8 bitwise division steps"); \
        VERIF_CANARY();                                                                                \
    }
H_STEP(crc8m, 8, CRC8_STEP, TM, spec_byte_m)
H_STEP(crc8l, 8, CRC8_STEP, TL, spec_byte_l)
H_STEP(crc16m, 16, CRC16M_STEP, TM, spec_byte_m)
H_STEP(crc16l, 16, CRC16L_STEP, TL, spec_byte_l)
H_STEP(crc32m, 32, CRC32M_STEP, TM, spec_byte_m)
H_STEP(crc32l, 32, CRC32L_STEP, TL, spec_byte_l)
H_STEP(crc64m, 64, CRC64M_STEP, TM, spec_byte_m)
H_STEP(crc64l, 64, CRC64L_STEP, TL, spec_byte_l)

/* ---- [P] reflection lemma: the two bit orders are mirror images, one bit step at a time ---- */
#define H_REFL(W)                                                                                      \
    void h_refl##W(void)                                                                               \
    {                                                                                                  \
        unsigned long v = nondet_u64() & MASK(W), poly = nondet_u64() & MASK(W);                       \
        unsigned bit = nondet_u32() & 1;                                                               \
        ASSERT(spec_rev(spec_bit_m(v, bit, poly, W), W) == spec_bit_l(spec_rev(v, W), bit, spec_rev(poly, W), W), \
               "reflect(MSB-first bit step) == LSB-first bit step on reflected value and polynomial"); \
        VERIF_CANARY();                                                                                \
    }
H_REFL(8)
H_REFL(16)
H_REFL(32)
H_REFL(64)

/* the library's own reflection used by the l-tables agrees with the definition (see also C19 rev units) */
void h_rev_agrees(void)
{
    unsigned long x = nondet_u64();
    ASSERT(a_u8_rev((a_u8)x) == spec_rev(x & 0xFF, 8), "a_u8_rev == reflection");
    ASSERT(a_u16_rev((a_u16)x) == spec_rev(x & 0xFFFF, 16), "a_u16_rev == reflection");
    ASSERT(a_u32_rev((a_u32)x) == spec_rev(x & 0xFFFFFFFFul, 32), "a_u32_rev == reflection");
    ASSERT(a_u64_rev(x) == spec_rev(x, 64), "a_u64_rev == reflection");
    VERIF_CANARY();
}

/* ---- [P] folds: function contracts enforced by goto-instrument (DFCC), loop contract in props/C17.py ----
   result == ghost fold of the reference step over pdata[0..nbyte), exactly nbyte bytes consumed, nothing written */
#define FOLD_MAX 0x100000000ul
#define CONTRACT_CRC(NAME, T)                                                                          \
    T contract_##NAME(T const table[0x100], void const *pdata, a_size nbyte, T value)                  \
        __CPROVER_requires(nbyte <= FOLD_MAX)                                                          \
        __CPROVER_requires(__CPROVER_is_fresh(table, 0x100 * sizeof(T)))                               \
        __CPROVER_requires(__CPROVER_is_fresh(pdata, nbyte))                                           \
        __CPROVER_requires(verif_i == 0 && verif_g == value)                                           \
        __CPROVER_assigns(verif_g, verif_i)                                                            \
        __CPROVER_ensures(__CPROVER_return_value == (T)verif_g)                                        \
        __CPROVER_ensures(verif_i == nbyte);                                                           \
    void h_fold_##NAME(void)                                                                           \
    {                                                                                                  \
        T const *table;                                                                                \
        void const *pdata;                                                                             \
        a_size nbyte;                                                                                  \
        T value;                                                                                       \
        NAME(table, pdata, nbyte, value);                                                              \
        VERIF_CANARY();                                                                                \
    }
CONTRACT_CRC(a_crc8, a_u8)
CONTRACT_CRC(a_crc16m, a_u16)
CONTRACT_CRC(a_crc16l, a_u16)
CONTRACT_CRC(a_crc32m, a_u32)
CONTRACT_CRC(a_crc32l, a_u32)
CONTRACT_CRC(a_crc64m, a_u64)
CONTRACT_CRC(a_crc64l, a_u64)

#define CONTRACT_HASH_N(NAME)                                                                          \
    a_u32 contract_##NAME(void const *ptr_, a_size siz, a_u32 val)                                     \
        __CPROVER_requires(siz <= FOLD_MAX)                                                            \
        __CPROVER_requires(__CPROVER_is_fresh(ptr_, siz))                                              \
        __CPROVER_requires(verif_i == 0 && verif_g == val)                                             \
        __CPROVER_assigns(verif_g, verif_i)                                                            \
        __CPROVER_ensures(__CPROVER_return_value == (a_u32)verif_g)                                    \
        __CPROVER_ensures(verif_i == siz);                                                             \
    void h_fold_##NAME(void)                                                                           \
    {                                                                                                  \
        void const *ptr_;                                                                              \
        a_size siz;                                                                                    \
        a_u32 val;                                                                                     \
        NAME(ptr_, siz, val);                                                                          \
        VERIF_CANARY();                                                                                \
    }
CONTRACT_HASH_N(a_hash_bkdr_)
CONTRACT_HASH_N(a_hash_sdbm_)

/* NUL-terminated forms: the fold range is "up to the first NUL"; verif_n = size of the block, whose
   last byte is NUL (so a terminator exists inside the block) */
a_size verif_n;
#define CONTRACT_HASH_S(NAME)                                                                          \
    a_u32 contract_##NAME(void const *str_, a_u32 val)                                                 \
        __CPROVER_requires(verif_n >= 1 && verif_n <= FOLD_MAX)                                        \
        __CPROVER_requires(__CPROVER_is_fresh(str_, verif_n))                                          \
        __CPROVER_requires(((unsigned char const *)str_)[verif_n - 1] == 0)                            \
        __CPROVER_requires(verif_i == 0 && verif_g == val)                                             \
        __CPROVER_assigns(verif_g, verif_i)                                                            \
        __CPROVER_ensures(__CPROVER_return_value == (a_u32)verif_g)                                    \
        __CPROVER_ensures(verif_i < verif_n && ((unsigned char const *)str_)[verif_i] == 0);           \
    void h_fold_##NAME(void)                                                                           \
    {                                                                                                  \
        void const *str_;                                                                              \
        a_u32 val;                                                                                     \
        NAME(str_, val);                                                                               \
        VERIF_CANARY();                                                                                \
    }
CONTRACT_HASH_S(a_hash_bkdr)
CONTRACT_HASH_S(a_hash_sdbm)

/* NULL string: the value is returned unchanged */
void h_hash_null(void)
{
    a_u32 v = nondet_u32();
    ASSERT(a_hash_bkdr(0, v) == v && a_hash_sdbm(0, v) == v, "hash of a null string is the initial value");
    VERIF_CANARY();
}
