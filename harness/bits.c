/* C19 (and C17): bit reversal and byte-order accessors of include/a/a.h.
   The translation unit under verification is /repo/src/a.c (emits the inline bodies). */
#include "contracts/verif.h"
#include "src/a.c"

/* ---- bit reversal: bit i |-> bit w-1-i (ghost witness bit), involution ---- */
#define H_REV(W, T)                                                                              \
    void h_rev##W(void)                                                                          \
    {                                                                                            \
        T x = (T)nondet_u64();                                                                   \
        unsigned i = nondet_u32(); /* ghost witness: universally quantified bit position */      \
        ASSUME(i < W);                                                                           \
        T r = a_u##W##_rev(x);                                                                   \
        ASSERT((((unsigned long)r >> (W - 1 - i)) & 1) == (((unsigned long)x >> i) & 1),         \
               "rev: bit i of x is bit w-1-i of the result");                                    \
        ASSERT(a_u##W##_rev(r) == x, "rev: involution");                                         \
        VERIF_CANARY();                                                                          \
    }
H_REV(8, a_u8)
H_REV(16, a_u16)
H_REV(32, a_u32)
H_REV(64, a_u64)

/* ---- byte-order accessors: layout stated independently of the host order ---- */
#define GUARD 4
#define H_ORD(W, T)                                                                              \
    void h_ord##W(void)                                                                          \
    {                                                                                            \
        unsigned char m[GUARD + W / 8 + GUARD], m0[GUARD + W / 8 + GUARD];                       \
        unsigned k;                                                                              \
        for (k = 0; k < sizeof(m); ++k) { m[k] = m0[k] = nondet_u8(); }                          \
        T x = (T)nondet_u64();                                                                   \
        unsigned i = nondet_u32(); /* ghost witness byte */                                      \
        ASSUME(i < W / 8);                                                                       \
        unsigned char *b = m + GUARD;                                                            \
        /* load: value assembled from the bytes as the name states */                            \
        T l = a_u##W##_getl(b), g = a_u##W##_getb(b);                                            \
        ASSERT((unsigned char)((unsigned long)l >> (8 * i)) == m0[GUARD + i], "getl: byte i is bits 8i..8i+7"); \
        ASSERT((unsigned char)((unsigned long)g >> (8 * (W / 8 - 1 - i))) == m0[GUARD + i], "getb: byte i is bits mirrored"); \
        /* store little endian */                                                                \
        a_u##W##_setl(b, x);                                                                     \
        ASSERT(b[i] == (unsigned char)((unsigned long)x >> (8 * i)), "setl: byte i = bits 8i..8i+7"); \
        ASSERT(a_u##W##_getl(b) == x, "getl(setl(x)) == x");                                     \
        for (k = 0; k < GUARD; ++k)                                                              \
        {                                                                                        \
            ASSERT(m[k] == m0[k] && m[GUARD + W / 8 + k] == m0[GUARD + W / 8 + k], "setl: nothing outside the w/8 bytes written"); \
        }                                                                                        \
        /* store big endian */                                                                   \
        a_u##W##_setb(b, x);                                                                     \
        ASSERT(b[i] == (unsigned char)((unsigned long)x >> (8 * (W / 8 - 1 - i))), "setb: byte i = mirrored bits"); \
        ASSERT(a_u##W##_getb(b) == x, "getb(setb(x)) == x");                                     \
        for (k = 0; k < GUARD; ++k)                                                              \
        {                                                                                        \
            ASSERT(m[k] == m0[k] && m[GUARD + W / 8 + k] == m0[GUARD + W / 8 + k], "setb: nothing outside the w/8 bytes written"); \
        }                                                                                        \
        /* exactly sized heap block: any access outside the w/8 bytes is a pointer-check failure */ \
        {                                                                                        \
            unsigned char *e = (unsigned char *)malloc(W / 8);                                   \
            for (k = 0; k < W / 8; ++k) { e[k] = m0[k]; }                                        \
            (void)a_u##W##_getl(e); (void)a_u##W##_getb(e);                                      \
            a_u##W##_setl(e, x); a_u##W##_setb(e, x);                                            \
            free(e);                                                                             \
        }                                                                                        \
        /* set(get(bytes)) reproduces the bytes */                                               \
        a_u##W##_setl(b, l);                                                                     \
        ASSERT(b[i] == m0[GUARD + i], "setl(getl(bytes)) == bytes");                             \
        a_u##W##_setb(b, g);                                                                     \
        ASSERT(b[i] == m0[GUARD + i], "setb(getb(bytes)) == bytes");                             \
        VERIF_CANARY();                                                                          \
    }
H_ORD(16, a_u16)
H_ORD(32, a_u32)
H_ORD(64, a_u64)
