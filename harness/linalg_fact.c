/* C08: LU / LDL^T / Cholesky of /repo/src/linalg_plu.c, linalg_ldl.c, linalg_llt.c -- structural clauses only
   (permutation validity and parity, failure on vanishing pivots, Cholesky diagonal, permutation matrices,
   memory safety and frame of every routine).  Residual / accuracy clauses are not applicable (see props/C08.py).
   Bounded units: orders 1..MAXD; the order is a symbolic input, the library is entered once per order of the
   bound with a literal n (see harness/linalg.c for why).  Every matrix / vector is an exactly sized malloc block. */
#include "harness/linalg_util.h"
#include "a/linalg.h"
#include "a/math.h"

#ifndef VERIF_NATIVE
/* assumed contracts for libm (trusted base): only what ISO C Annex F guarantees and the callers need */
double sqrt(double x)
{
    double r = nondet_double();
    if (x != x) { __CPROVER_assume(r != r); }
    else if (x < 0) { __CPROVER_assume(r != r); }          /* domain error: NaN */
    else if (x == 0) { __CPROVER_assume(r == x); }          /* +-0 -> +-0 */
    else { __CPROVER_assume(r > 0 && (x - x == 0 ? r - r == 0 : r == x)); } /* positive, finite for finite x, +inf -> +inf */
    return r;
}
double log(double x)
{
    double r = nondet_double(); /* any value (NaN, infinities included): no caller-side fact is used */
    (void)x;
    return r;
}
#endif

/* a_real_swap is the only routine of src/math.c the factorizations use; the real one is compiled */
#include "src/math.c"
#include "src/linalg.c"
#include "src/linalg_plu.c"
#include "src/linalg_ldl.c"
#include "src/linalg_llt.c"

#ifndef MAXD
#define MAXD 3
#endif
#define MAXE (MAXD * MAXD)
#define DIM(d) ASSUME(1 <= (d) && (d) <= MAXD)
#ifndef NLO
#define NLO 1
#endif
#ifndef NHI
#define NHI MAXD
#endif
#define ORDER(n) ASSUME(NLO <= (n) && (n) <= NHI)
#define ISNAN(x) ((x) != (x))
#define FINITE(x) ((x) - (x) == 0)
#define ABS(x) ((x) < 0 ? -(x) : (x))
#define FEQ(u, v) ((u) == (v) || ((u) != (u) && (v) != (v))) /* same IEEE value, or both NaN */
#define AT(a, i) real_of((real_bits)(a)[i])
#define FOR_ORDER(CALL) { a_uint N; for (N = NLO; N <= NHI; ++N) { if (n == N) { CALL; } } }

static a_real *filled(unsigned long const *src, a_size cnt)
{
    a_real *p = block(cnt);
    a_size i;
    for (i = 0; i < cnt; ++i) { p[i] = real_of((real_bits)src[i]); }
    return p;
}
static a_real *result(a_size cnt)
{
    a_real *p = block(cnt);
#ifdef VERIF_NATIVE
    a_size i;
    for (i = 0; i < cnt; ++i) { p[i] = (a_real)-77.25; }
#endif
    return p;
}
static a_uint *ufilled(unsigned const *src, a_size cnt)
{
    a_uint *p = ublock(cnt);
    a_size i;
    for (i = 0; i < cnt; ++i) { p[i] = src[i]; }
    return p;
}
#define UNCHANGED(P, a, cnt, msg) { a_size i_; for (i_ = 0; i_ < (cnt); ++i_) { ASSERT(SAME((P)[i_], AT(a, i_)), msg); } }
#define UUNCHANGED(P, a, cnt, msg) { a_size i_; for (i_ = 0; i_ < (cnt); ++i_) { ASSERT((P)[i_] == (a)[i_], msg); } }
/* p[0..n) is a permutation of 0..n-1 */
static int is_perm(a_uint const *p, a_uint n)
{
    a_uint i, j;
    for (i = 0; i < n; ++i)
    {
        if (p[i] >= n) { return 0; }
        for (j = 0; j < i; ++j) { if (p[j] == p[i]) { return 0; } }
    }
    return 1;
}
/* parity of a permutation by counting inversions: +1 even, -1 odd */
static int parity(a_uint const *p, a_uint n)
{
    a_uint i, j;
    int s = 1;
    for (i = 0; i < n; ++i) { for (j = 0; j < i; ++j) { if (p[j] > p[i]) { s = -s; } } }
    return s;
}
#define ASSUME_PERM(p, n) { a_uint i_; for (i_ = 0; i_ < (n); ++i_) { ASSUME((p)[i_] < (n)); } ASSUME(is_perm((p), (n))); }

/* ================= a_real_plu ================= */
/* any matrix contents (NaN and infinities included): the clauses below depend on comparisons only */
static void t_plu(a_uint n, unsigned long const *a)
{
    a_real *A = filled(a, (a_size)n * n);
    a_uint *p = ublock(n);
    int sign = 77;
    a_uint i, r;
    int zero_col0 = 1;
    for (r = 0; r < n; ++r) { if (!(AT(a, r * n) == 0)) { zero_col0 = 0; } }
    int rc = a_real_plu(n, A, p, &sign);
    ASSERT(rc == A_SUCCESS || rc == A_FAILURE, "plu: returns success or failure");
    ASSERT(is_perm(p, n), "plu: p is a permutation of 0..n-1 (also when failure is reported)");
    ASSERT(sign == 1 || sign == -1, "plu: sign is +1 or -1");
    ASSERT(sign == parity(p, n), "plu: sign is the parity of the permutation p");
    if (zero_col0) { ASSERT(rc == A_FAILURE, "plu: an exactly zero first (pivot) column is reported as failure"); }
    if (n == 1 && !ISNAN(AT(a, 0))) { ASSERT((rc == A_FAILURE) == (ABS(AT(a, 0)) < A_REAL_MIN), "plu: order 1 fails exactly when |a| is below the threshold"); }
    if (rc == A_SUCCESS)
    {
        for (i = 0; i < n; ++i) { ASSERT(!(ABS(A[i * n + i]) < A_REAL_MIN), "plu: success is reported only if no recorded pivot is below the threshold (vanishing pivot => failure)"); }
        ASSERT(ABS(A[0]) >= A_REAL_MIN || ISNAN(AT(a, 0)), "plu: the first pivot of a successful factorization is a number of magnitude >= threshold");
        for (r = 0; r < n; ++r) { ASSERT(!(ABS(AT(a, r * n)) > ABS(A[0])), "plu: the first pivot is the entry of largest magnitude of the first column (partial pivoting)"); }
    }
    free(A); free(p);
}
void h_plu(void)
{
    ND(a_uint, n, u32); ORDER(n); ND_U64S(a, MAXE);
    FOR_ORDER(t_plu(N, a))
    VERIF_CANARY();
}

/* finite matrices of order <= 2: every recorded pivot of a successful factorization is a NUMBER of magnitude >= threshold */
static void t_plu_strong(a_uint n, unsigned long const *a)
{
    a_real *A = filled(a, (a_size)n * n);
    a_uint *p = ublock(n);
    int sign = 0;
    a_uint i;
    for (i = 0; i < n * n; ++i) { ASSUME(FINITE(AT(a, i))); }
    if (a_real_plu(n, A, p, &sign) == A_SUCCESS)
    {
        for (i = 0; i < n; ++i) { ASSERT(ABS(A[i * n + i]) >= A_REAL_MIN, "plu (finite input): every recorded pivot of a successful factorization is a number of magnitude >= threshold"); }
    }
    free(A); free(p);
}
void h_plu_strong(void)
{
    ND(a_uint, n, u32); ORDER(n); ND_U64S(a, MAXE);
    FOR_ORDER(t_plu_strong(N, a))
    VERIF_CANARY();
}

/* ================= permutation matrices ================= */
static void t_plu_P(a_uint n, unsigned const *pv)
{
    a_uint *p = ufilled(pv, n); /* arbitrary entries, not necessarily a permutation */
    a_real *P = result((a_size)n * n);
    a_real *Q = result((a_size)n * n);
    a_uint r, c;
    a_real_plu_P(n, p, P);
    a_real_plu_P_(n, p, Q);
    for (r = 0; r < n; ++r) { for (c = 0; c < n; ++c) {
        if (c == pv[r]) { ASSERT(IS1(P[r * n + c]), "plu_P: row r has a one in column p[r]"); }
        else { ASSERT(IS0(P[r * n + c]), "plu_P: zero everywhere else"); }
        if (pv[c] == r) { ASSERT(IS1(Q[r * n + c]), "plu_P_: column c has a one in row p[c]"); }
        else { ASSERT(IS0(Q[r * n + c]), "plu_P_: zero everywhere else"); }
        ASSERT(SAME(Q[r * n + c], P[c * n + r]), "plu_P_ builds exactly the transpose of plu_P");
    } }
    UUNCHANGED(p, pv, n, "plu_P/P_: permutation vector unchanged");
    free(p); free(P); free(Q);
}
void h_plu_P(void)
{
    ND(a_uint, n, u32); ORDER(n); ND_U32S(pv, MAXD);
    FOR_ORDER(t_plu_P(N, pv))
    VERIF_CANARY();
}

/* ================= memory safety and frame of the PLU solve family (values are not asserted) ================= */
#define COLUMN_FRAME(I, iv, n, j, msg) { a_uint r_, c_; for (r_ = 0; r_ < (n); ++r_) { for (c_ = 0; c_ < (n); ++c_) { \
        if (c_ != (j)) { ASSERT(SAME((I)[r_ * (n) + c_], AT(iv, r_ * (n) + c_)), msg); } } } }
static void t_plu_solve(a_uint n, unsigned long const *a, unsigned const *pv, unsigned long const *bv, unsigned long const *iv)
{
    a_real *A = filled(a, (a_size)n * n);
    a_uint *p = ufilled(pv, n);
    a_real *b = filled(bv, n);
    a_real *x = result(n);
    a_real *M = result((a_size)n * n);
    a_uint r, c, j;
    ASSUME_PERM(pv, n);
    a_real_plu_L(n, A, M);
    for (r = 0; r < n; ++r) { for (c = 0; c < n; ++c) {
        if (c < r) { ASSERT(SAME(M[r * n + c], AT(a, r * n + c)), "plu_L: strict lower triangle copied"); }
        else if (c == r) { ASSERT(IS1(M[r * n + c]), "plu_L: unit diagonal"); }
        else { ASSERT(IS0(M[r * n + c]), "plu_L: zero above the diagonal"); }
    } }
    a_real_plu_U(n, A, M);
    for (r = 0; r < n; ++r) { for (c = 0; c < n; ++c) {
        if (c >= r) { ASSERT(SAME(M[r * n + c], AT(a, r * n + c)), "plu_U: upper triangle with diagonal copied"); }
        else { ASSERT(IS0(M[r * n + c]), "plu_U: zero below the diagonal"); }
    } }
    a_real_plu_apply(n, p, b, x);
    for (r = 0; r < n; ++r) { ASSERT(SAME(x[r], AT(bv, pv[r])), "plu_apply: (Pb)[i] is bit for bit b[p[i]]"); }
    a_real_plu_lower(n, A, x);
    a_real_plu_upper(n, A, x);
    a_real_plu_solve(n, A, p, b, x);
    UNCHANGED(b, bv, n, "plu solve family: right-hand side unchanged");
    /* strided in-place variants on column j of an n x n block */
    for (j = 0; j < n; ++j)
    {
        a_real *I = filled(iv, (a_size)n * n);
        a_real_plu_lower_(n, A, I + j);
        COLUMN_FRAME(I, iv, n, j, "plu_lower_: only the addressed column of the n x n block is written");
        free(I);
        I = filled(iv, (a_size)n * n);
        a_real_plu_upper_(n, A, I + j);
        COLUMN_FRAME(I, iv, n, j, "plu_upper_: only the addressed column of the n x n block is written");
        free(I);
    }
    UNCHANGED(A, a, n * n, "plu solve family: factor matrix unchanged");
    UUNCHANGED(p, pv, n, "plu solve family: permutation vector unchanged");
    free(A); free(p); free(b); free(x); free(M);
}
void h_plu_solve(void)
{
    ND(a_uint, n, u32); ORDER(n); ND_U64S(a, MAXE); ND_U32S(pv, MAXD); ND_U64S(bv, MAXD); ND_U64S(iv, MAXE);
    FOR_ORDER(t_plu_solve(N, a, pv, bv, iv))
    VERIF_CANARY();
}

static void t_plu_inv(a_uint n, unsigned long const *a, unsigned const *pv)
{
    a_real *A = filled(a, (a_size)n * n);
    a_uint *p = ufilled(pv, n);
    a_real *b = result(n);
    a_real *I = result((a_size)n * n);
    a_real *J = result((a_size)n * n);
    ASSUME_PERM(pv, n);
    a_real_plu_inv(n, A, p, b, I);
    a_real_plu_inv_(n, A, p, J);
    UNCHANGED(A, a, n * n, "plu_inv/inv_: factor matrix unchanged");
    UUNCHANGED(p, pv, n, "plu_inv/inv_: permutation vector unchanged");
    free(A); free(p); free(b); free(I); free(J);
}
void h_plu_inv(void)
{
    ND(a_uint, n, u32); ORDER(n); ND_U64S(a, MAXE); ND_U32S(pv, MAXD);
    FOR_ORDER(t_plu_inv(N, a, pv))
    VERIF_CANARY();
}

/* exact domain: the factorization of a pure permutation (L = U = identity, any permutation p).  Every operation is
   exact (x - 0*y, x/1 with x, y in {0,1} resp. small integers), so solve returns exactly P b and both inverse
   routines return exactly the permutation matrix P of p (row r has its one in column p[r]). */
static void t_plu_perm(a_uint n, unsigned const *pv, int const *bi)
{
    a_real *A = result((a_size)n * n);
    a_uint *p = ufilled(pv, n);
    a_real *b = block(n);
    a_real *x = result(n);
    a_real *w = result(n);
    a_real *I = result((a_size)n * n);
    a_real *J = result((a_size)n * n);
    a_uint r, c;
    ASSUME_PERM(pv, n);
    for (r = 0; r < n; ++r) { for (c = 0; c < n; ++c) { A[r * n + c] = (r == c); } }
    for (r = 0; r < n; ++r) { ASSUME(-1024 <= bi[r] && bi[r] <= 1024); b[r] = (a_real)bi[r]; }
    a_real_plu_solve(n, A, p, b, x);
    for (r = 0; r < n; ++r) { ASSERT(x[r] == (a_real)bi[pv[r]], "plu_solve (L = U = identity): the solution is exactly P b"); }
    a_real_plu_inv(n, A, p, w, I);
    a_real_plu_inv_(n, A, p, J);
    for (r = 0; r < n; ++r) { for (c = 0; c < n; ++c) {
        ASSERT(I[r * n + c] == (c == pv[r] ? 1 : 0), "plu_inv (L = U = identity): the inverse is exactly the permutation matrix P of p");
        ASSERT(J[r * n + c] == (c == pv[r] ? 1 : 0), "plu_inv_ (L = U = identity): the in-place inverse is exactly the permutation matrix P of p");
    } }
    free(A); free(p); free(b); free(x); free(w); free(I); free(J);
}
void h_plu_perm(void)
{
    ND(a_uint, n, u32); ORDER(n); ND_U32S(pv, MAXD); ND_INTS(bi, MAXD);
    FOR_ORDER(t_plu_perm(N, pv, bi))
    VERIF_CANARY();
}

/* sign of the determinant from the diagonal: 0 if a diagonal element is zero, else sign * (-1)^(number of negative ones) */
static int spec_sgn(unsigned long const *a, a_uint n, int sign)
{
    a_uint i;
    int any0 = 0;
    for (i = 0; i < n; ++i) { if (AT(a, i * n + i) == 0) { any0 = 1; } else if (AT(a, i * n + i) < 0) { sign = -sign; } }
    return any0 ? 0 : sign;
}
static void t_plu_scalar(a_uint n, unsigned long const *a, int sign)
{
    a_real *A = filled(a, (a_size)n * n);
    a_real d = a_real_plu_det(n, A, sign);
    a_real l = a_real_plu_lndet(n, A);
    int s = a_real_plu_sgndet(n, A, sign);
    (void)d; (void)l;
    ASSERT(s == spec_sgn(a, n, sign), "plu_sgndet: 0 if a diagonal element is zero, else the permutation sign times (-1)^(number of negative diagonal elements)");
    UNCHANGED(A, a, n * n, "plu_det/lndet/sgndet: factor matrix unchanged");
    free(A);
}
void h_plu_scalar(void)
{
    ND(a_uint, n, u32); ORDER(n); ND_U64S(a, MAXE); ND(int, sign, int);
    ASSUME(sign == 1 || sign == -1);
    FOR_ORDER(t_plu_scalar(N, a, sign))
    VERIF_CANARY();
}

/* ================= a_real_ldl ================= */
static void t_ldl(a_uint n, unsigned long const *a)
{
    a_real *A = filled(a, (a_size)n * n);
    a_uint r, c;
    int rc = a_real_ldl(n, A);
    ASSERT(rc == A_SUCCESS || rc == A_FAILURE, "ldl: returns success or failure");
    if (ABS(AT(a, 0)) < A_REAL_MIN) { ASSERT(rc == A_FAILURE, "ldl: a vanishing first pivot is reported as failure"); }
    if (n == 1 && !ISNAN(AT(a, 0))) { ASSERT((rc == A_FAILURE) == (ABS(AT(a, 0)) < A_REAL_MIN), "ldl: order 1 fails exactly when |a| is below the threshold"); }
    if (rc == A_SUCCESS)
    {
        for (c = 0; c < n; ++c) { ASSERT(!(ABS(A[c * n + c]) < A_REAL_MIN), "ldl: success is reported only if no pivot D[c] is below the threshold (vanishing pivot => failure)"); }
    }
    for (r = 0; r < n; ++r) { for (c = r + 1; c < n; ++c) { ASSERT(SAME(A[r * n + c], AT(a, r * n + c)), "ldl: the strict upper triangle is not written"); } }
    free(A);
}
void h_ldl(void)
{
    ND(a_uint, n, u32); ORDER(n); ND_U64S(a, MAXE);
    FOR_ORDER(t_ldl(N, a))
    VERIF_CANARY();
}
static void t_ldl_strong(a_uint n, unsigned long const *a)
{
    a_real *A = filled(a, (a_size)n * n);
    a_uint i;
    for (i = 0; i < n * n; ++i) { ASSUME(FINITE(AT(a, i))); }
    if (a_real_ldl(n, A) == A_SUCCESS)
    {
        for (i = 0; i < n; ++i) { ASSERT(ABS(A[i * n + i]) >= A_REAL_MIN, "ldl (finite input): every pivot D[c] of a successful factorization is a number of magnitude >= threshold"); }
    }
    free(A);
}
void h_ldl_strong(void)
{
    ND(a_uint, n, u32); ORDER(n); ND_U64S(a, MAXE);
    FOR_ORDER(t_ldl_strong(N, a))
    VERIF_CANARY();
}

/* ================= a_real_llt ================= */
static void t_llt(a_uint n, unsigned long const *a)
{
    a_real *A = filled(a, (a_size)n * n);
    a_uint r, c;
    int rc = a_real_llt(n, A);
    ASSERT(rc == A_SUCCESS || rc == A_FAILURE, "llt: returns success or failure");
    if (AT(a, 0) < A_REAL_MIN) { ASSERT(rc == A_FAILURE, "llt: a non-positive first pivot is reported as failure"); }
    if (n == 1 && !ISNAN(AT(a, 0))) { ASSERT((rc == A_FAILURE) == (AT(a, 0) < A_REAL_MIN), "llt: order 1 fails exactly when a is below the threshold (zero and negative included)"); }
    if (rc == A_SUCCESS)
    {
        for (r = 0; r < n; ++r) { ASSERT(!(A[r * n + r] <= 0), "llt: success is reported only if no pivot is zero or negative (non-positive pivot => failure)"); }
        ASSERT(A[0] > 0 || ISNAN(AT(a, 0)), "llt: the first diagonal element of a successful factorization is strictly positive");
    }
    for (r = 0; r < n; ++r) { for (c = r + 1; c < n; ++c) { ASSERT(SAME(A[r * n + c], AT(a, r * n + c)), "llt: the strict upper triangle is not written"); } }
    free(A);
}
void h_llt(void)
{
    ND(a_uint, n, u32); ORDER(n); ND_U64S(a, MAXE);
    FOR_ORDER(t_llt(N, a))
    VERIF_CANARY();
}
/* finite input: strictly positive diagonal on success.  With LLT_FINITE_L the clause is claimed only for runs whose
   computed off-diagonal factor entries are all finite (see props/C08.py: without it the clause is false for n = 3) */
static void t_llt_strong(a_uint n, unsigned long const *a)
{
    a_real *A = filled(a, (a_size)n * n);
    a_uint i, r, c;
    int finite_l = 1;
    for (i = 0; i < n * n; ++i) { ASSUME(FINITE(AT(a, i))); }
    if (a_real_llt(n, A) == A_SUCCESS)
    {
        for (r = 0; r < n; ++r) { for (c = 0; c < r; ++c) { if (!FINITE(A[r * n + c])) { finite_l = 0; } } }
#ifdef LLT_FINITE_L
        if (finite_l)
#endif
        {
            for (r = 0; r < n; ++r) { ASSERT(A[r * n + r] > 0, "llt (finite input): strictly positive Cholesky diagonal whenever success is reported"); }
        }
    }
    (void)finite_l;
    free(A);
}
void h_llt_strong(void)
{
    ND(a_uint, n, u32); ORDER(n); ND_U64S(a, MAXE);
    FOR_ORDER(t_llt_strong(N, a))
    VERIF_CANARY();
}

/* ================= memory safety and frame of the LDL / LLT solve families ================= */
#define SOLVE_FAMILY(K, EXTRA) \
    static void t_##K##_solve(a_uint n, unsigned long const *a, unsigned long const *bv, unsigned long const *iv) \
    { \
        a_real *A = filled(a, (a_size)n * n); \
        a_real *x = filled(bv, n); \
        a_real *b = result(n); \
        a_real *M = result((a_size)n * n); \
        a_real *I = result((a_size)n * n); \
        a_uint j; \
        EXTRA \
        a_real_##K##_lower(n, A, x); \
        a_real_##K##_upper(n, A, x); \
        a_real_##K##_solve(n, A, x); \
        a_real_##K##_inv(n, A, b, I); \
        a_real_##K##_inv_(n, A, M); \
        (void)a_real_##K##_det(n, A); \
        (void)a_real_##K##_lndet(n, A); \
        free(I); \
        for (j = 0; j < n; ++j) \
        { \
            I = filled(iv, (a_size)n * n); \
            a_real_##K##_lower_(n, A, I + j); \
            COLUMN_FRAME(I, iv, n, j, #K "_lower_: only the addressed column of the n x n block is written"); \
            free(I); \
            I = filled(iv, (a_size)n * n); \
            a_real_##K##_upper_(n, A, I + j); \
            COLUMN_FRAME(I, iv, n, j, #K "_upper_: only the addressed column of the n x n block is written"); \
            free(I); \
        } \
        UNCHANGED(A, a, n * n, #K " solve family: factor matrix unchanged"); \
        free(A); free(x); free(b); free(M); \
    } \
    void h_##K##_solve(void) \
    { \
        ND(a_uint, n, u32); ORDER(n); ND_U64S(a, MAXE); ND_U64S(bv, MAXD); ND_U64S(iv, MAXE); \
        FOR_ORDER(t_##K##_solve(N, a, bv, iv)) \
        VERIF_CANARY(); \
    }
#define LDL_EXTRA \
    { a_uint r, c; a_real *d = result(n); \
      a_real_ldl_L(n, A, M); \
      for (r = 0; r < n; ++r) { for (c = 0; c < n; ++c) { \
        if (c < r) { ASSERT(SAME(M[r * n + c], AT(a, r * n + c)), "ldl_L: strict lower triangle copied"); } \
        else if (c == r) { ASSERT(IS1(M[r * n + c]), "ldl_L: unit diagonal"); } \
        else { ASSERT(IS0(M[r * n + c]), "ldl_L: zero above the diagonal"); } } } \
      a_real_ldl_D(n, A, d); \
      for (r = 0; r < n; ++r) { ASSERT(SAME(d[r], AT(a, r * n + r)), "ldl_D: element i is the diagonal element (i,i)"); } \
      free(d); \
      ASSERT(a_real_ldl_sgndet(n, A) == spec_sgn(a, n, 1), "ldl_sgndet: 0 if a pivot is zero, else (-1)^(number of negative pivots)"); }
#define LLT_EXTRA \
    { a_uint r, c; \
      a_real_llt_L(n, A, M); \
      for (r = 0; r < n; ++r) { for (c = 0; c < n; ++c) { \
        if (c <= r) { ASSERT(SAME(M[r * n + c], AT(a, r * n + c)), "llt_L: lower triangle with diagonal copied"); } \
        else { ASSERT(IS0(M[r * n + c]), "llt_L: zero above the diagonal"); } } } }
SOLVE_FAMILY(ldl, LDL_EXTRA)
SOLVE_FAMILY(llt, LLT_EXTRA)

/* ================= exactly singular inputs are reported as failure ================= */
/* diagonal matrices: d[j] vanishes (PLU, LDL) resp. is zero or negative (LLT) for one j, the other diagonal
   entries are finite with d >= threshold (LLT, else |d| >= threshold).  The elimination steps before j are exact
   (0/d, 0*0, x - 0), so the vanishing pivot is met at step j > 0 as well. */
static void t_singular(a_uint n, unsigned long const *dv, a_uint j)
{
    a_real *A = block((a_size)n * n);
    a_real *B = block((a_size)n * n);
    a_real *C = block((a_size)n * n);
    a_uint *p = ublock(n);
    int sign = 0;
    a_uint r, c;
    for (r = 0; r < n; ++r)
    {
        a_real d = AT(dv, r);
        ASSUME(FINITE(d));
        if (r != j) { ASSUME(d >= A_REAL_MIN); }
        for (c = 0; c < n; ++c) { A[r * n + c] = B[r * n + c] = C[r * n + c] = (r == c) ? d : 0; }
    }
    ASSUME(AT(dv, j) <= 0);
    C[j * n + j] = AT(dv, j);           /* LLT: zero or negative pivot */
    A[j * n + j] = B[j * n + j] = 0;    /* PLU, LDL: exactly vanishing pivot */
    for (r = 0; r < n; ++r) { if (r != j) { ND(_Bool, neg, bool); if (neg) { A[r * n + r] = -A[r * n + r]; B[r * n + r] = -B[r * n + r]; } } }
    ASSERT(a_real_plu(n, A, p, &sign) == A_FAILURE, "plu: a diagonal matrix with an exactly zero diagonal entry (zero pivot column at any step) is reported as failure");
    ASSERT(a_real_ldl(n, B) == A_FAILURE, "ldl: a diagonal matrix with an exactly zero diagonal entry (vanishing pivot at any step) is reported as failure");
    ASSERT(a_real_llt(n, C) == A_FAILURE, "llt: a diagonal matrix with a zero or negative diagonal entry (non-positive pivot at any step) is reported as failure");
    free(A); free(B); free(C); free(p);
}
void h_singular(void)
{
    ND(a_uint, n, u32); ORDER(n); ND_U64S(dv, MAXD); ND(a_uint, j, u32);
    ASSUME(j < n);
    { a_uint N, J; for (N = NLO; N <= NHI; ++N) { for (J = 0; J < N; ++J) { if (n == N && j == J) { t_singular(N, dv, J); } } } }
    VERIF_CANARY();
}
/* duplicated rows, order 2: [[a, b], [a, b]] -> multiplier a/a == 1, b - b*1 == 0 exactly -> failure */
void h_duplicate_rows(void)
{
    ND(a_real, a, double); ND(a_real, b, double);
    ASSUME(FINITE(a) && FINITE(b) && ABS(a) >= A_REAL_MIN);
    a_real *A = block(4);
    a_uint *p = ublock(2);
    int sign = 0;
    A[0] = a; A[1] = b; A[2] = a; A[3] = b;
    ASSERT(a_real_plu(2, A, p, &sign) == A_FAILURE, "plu: a 2 x 2 matrix with duplicated rows is reported as failure");
    free(A); free(p);
    VERIF_CANARY();
}

/* ================= the buffered and the in-place inverse agree (cvc5: identity of IEEE terms) =================
   Integer-valued factor entries (any int) only so that the inputs are plain symbolic terms without byte-level
   reinterpretation, which the SMT back end cannot take; the comparison itself does not depend on the values. */
static void t_inv_agree(a_uint n, int const *ai, unsigned const *pv)
{
    a_real *A = block((a_size)n * n);
    a_uint *p = ufilled(pv, n);
    a_real *b = result(n);
    a_real *I = result((a_size)n * n);
    a_real *J = result((a_size)n * n);
    a_uint i;
    ASSUME_PERM(pv, n);
    for (i = 0; i < n * n; ++i) { A[i] = (a_real)ai[i]; }
    a_real_plu_inv(n, A, p, b, I);
    a_real_plu_inv_(n, A, p, J);
    for (i = 0; i < n * n; ++i) { ASSERT(FEQ(I[i], J[i]), "plu_inv and plu_inv_ agree: element for element the same IEEE value (or both NaN)"); }
    a_real_ldl_inv(n, A, b, I);
    a_real_ldl_inv_(n, A, J);
    for (i = 0; i < n * n; ++i) { ASSERT(FEQ(I[i], J[i]), "ldl_inv and ldl_inv_ agree: element for element the same IEEE value (or both NaN)"); }
    a_real_llt_inv(n, A, b, I);
    a_real_llt_inv_(n, A, J);
    for (i = 0; i < n * n; ++i) { ASSERT(FEQ(I[i], J[i]), "llt_inv and llt_inv_ agree: element for element the same IEEE value (or both NaN)"); }
    free(A); free(p); free(b); free(I); free(J);
}
void h_inv_agree(void)
{
    ND(a_uint, n, u32); ORDER(n); ND_INTS(ai, MAXE); ND_U32S(pv, MAXD);
    FOR_ORDER(t_inv_agree(N, ai, pv))
    VERIF_CANARY();
}
