/* C06, large-capacity part: the loop-free string operations (setm/setm_, catc/catc_, getc/getc_, catn/catn_, cat/cat_, getn/getn_,
   setn, exit, accessors) from an ARBITRARY valid string whose capacity and length are symbolic up to ARENA bytes (1024 quick, 4096 thorough; cbmc flattens the array, larger arenas
   do not finish) - i.e. at
   every distance from the reallocation boundary and for every block length, not only the tiny capacities of str.c.
   The block is one large array (array theory, a handful of symbolic accesses); the allocator is a stub that resizes IN PLACE
   (same address, so stale-pointer defects are left to the bounded units of str.c, which move the block) or fails; memcpy is an
   abstract copy: the ghost witness byte verif_cw is copied - any byte of the range can be the witness, so an assertion about
   the witness byte is an assertion about every byte. */
#include "contracts/verif.h"
#include <string.h>
#include "a/str.h"

#ifndef ARENA
#define ARENA 1024u
#endif
static unsigned char arena[ARENA + 16], other[ARENA + 16];
int verif_alloc_calls; a_size verif_alloc_size; _Bool verif_alloc_ok;
static void *stub_alloc(void *addr, a_size size)
{
    ++verif_alloc_calls;
    verif_alloc_size = size;
#ifndef VERIF_NATIVE
    __CPROVER_assert(addr == A_NULL || addr == (void *)arena, "allocator stub: the block handed back is the string's block");
    __CPROVER_assert(size <= ARENA + 16, "allocator stub: request within the modelled arena");
#endif
    if (size == 0) { return A_NULL; }
    return verif_alloc_ok ? (void *)arena : A_NULL;
}
a_size verif_cw; /* witness offset inside a copied range */
unsigned verif_copies;
#ifndef VERIF_NATIVE
static void *verif_memcpy(void *dst, void const *src, size_t n)
{
    ++verif_copies;
    __CPROVER_assert(n <= ARENA, "memcpy model: length within the arena");
    __CPROVER_assert(n == 0 || (__CPROVER_r_ok(src, n) && __CPROVER_w_ok(dst, n)), "memcpy: source readable and destination writable for n bytes");
    /* abstract copy: only the ghost witness byte is transferred (any byte of the range can be the witness); the rest of the
       destination keeps its arbitrary old value, which is no stronger an assumption than a havoc for assertions about the witness */
    if (verif_cw < n) { ((unsigned char *)dst)[verif_cw] = ((unsigned char const *)src)[verif_cw]; }
    return dst;
}
#define memcpy verif_memcpy
#endif
#include "src/a.c"
#ifndef VERIF_NATIVE
#undef memcpy
#endif
#include "src/str.c"

/* an arbitrary valid string: block present iff capacity > 0, length <= capacity, contents arbitrary */
static a_size M0, N0;
static void mk(a_str *s)
{
    ND(a_size, cap0, size); ND(a_size, len0, size); ND(_Bool, alloc_ok, bool); /* names distinct from every callee's locals (trace extraction is by name) */
    a_size const m = cap0, n = len0; _Bool const ok = alloc_ok;
    ASSUME(m <= ARENA && n <= m);
#ifndef VERIF_NATIVE
    __CPROVER_havoc_object(arena); __CPROVER_havoc_object(other); /* arbitrary contents (statics start zeroed) */
#else
    { unsigned k; for (k = 0; k < ARENA + 16; ++k) { arena[k] = (unsigned char)(k * 7 + 3); other[k] = (unsigned char)(k * 13 + 1); } } /* cbmc reports the havocked arrays only as "array": any contents with few repetitions reproduce offset and length defects */
#endif
    M0 = m; N0 = n;
    s->ptr_ = m ? (char *)arena : (char *)A_NULL; s->mem_ = m; s->num_ = n;
    a_alloc = stub_alloc; verif_alloc_calls = 0; verif_alloc_ok = ok; verif_copies = 0;
}
#define UNCHANGED(s) ((s).mem_ == M0 && (s).num_ == N0 && (s).ptr_ == (M0 ? (char *)arena : (char *)A_NULL))
#define WITNESS(w, b) ND(a_size, w, size); ASSUME(w < N0); unsigned char const b = arena[w]

void h_big_setm(void)
{
    a_str s; mk(&s);
    ND(a_size, want, size); ND(_Bool, raw, bool);
    ASSUME(want <= ARENA);
    int rc = raw ? a_str_setm_(&s, want) : a_str_setm(&s, want);
    if (!raw && want <= M0) { ASSERT(rc == A_SUCCESS && verif_alloc_calls == 0 && UNCHANGED(s), "setm: a request within the capacity changes nothing and allocates nothing"); }
    else if (rc == A_SUCCESS)
    {
        ASSERT(verif_alloc_calls == 1 && s.mem_ >= want && s.mem_ < want + sizeof(void *) && s.mem_ % sizeof(void *) == 0 && verif_alloc_size == s.mem_, "setm: one request for the capacity rounded up to the pointer size, committed");
        ASSERT(s.num_ == N0, "setm: the length is untouched");
    }
    else { ASSERT(rc == A_OMEMORY && !verif_alloc_ok && UNCHANGED(s), "setm: failure is reported exactly when the allocation failed, and nothing changed"); }
    VERIF_CANARY();
}
void h_big_catc(void)
{
    a_str s; mk(&s);
    ND(int, c, int); ND(_Bool, term, bool);
    WITNESS(w, b0);
    int rc = term ? a_str_catc(&s, c) : a_str_catc_(&s, c);
    if (rc == ~0 && (c != ~0 || UNCHANGED(s)) && s.num_ == N0)
    {
        ASSERT(UNCHANGED(s) && !verif_alloc_ok, "failed catc: only when the allocation failed; length, capacity and block unchanged");
    }
    else
    {
        ASSERT(rc == c && s.num_ == N0 + 1 && s.num_ <= s.mem_ && s.mem_ >= M0, "catc: length grows by one and stays within the capacity");
        ASSERT(s.ptr_[N0] == (char)c && (unsigned char)s.ptr_[w] == b0, "catc: the byte is appended, the old content is kept");
        if (term) { ASSERT(s.num_ < s.mem_ && s.ptr_[s.num_] == 0, "catc: NUL directly after the content, inside the capacity"); }
        ASSERT(verif_alloc_calls <= 1, "catc: at most one allocation request");
    }
    VERIF_CANARY();
}
void h_big_getc(void)
{
    a_str s; mk(&s);
    ND(_Bool, term, bool);
    unsigned char last = N0 ? arena[N0 - 1] : 0;
    ND(a_size, w, size); ASSUME(w < N0 && w + 1 < N0); unsigned char const b0 = arena[w];
    int rc = term ? a_str_getc(&s) : a_str_getc_(&s);
    if (N0 == 0) { ASSERT(rc == ~0 && UNCHANGED(s), "getc on an empty string: ~0, nothing changes"); }
    else
    {
        ASSERT(rc == (int)(char)last && s.num_ == N0 - 1 && s.mem_ == M0 && s.ptr_ == (char *)arena, "getc: returns the last byte, the length shrinks by one");
        ASSERT((unsigned char)s.ptr_[w] == b0, "getc: the remaining content is kept");
        if (term) { ASSERT(s.ptr_[s.num_] == 0, "getc: NUL directly after the content"); }
    }
    ASSERT(verif_alloc_calls == 0, "getc: never allocates");
    VERIF_CANARY();
}
void h_big_catn(void)
{
    a_str s; mk(&s);
    ND(a_size, nb, size); ND(_Bool, term, bool); ND(_Bool, obj, bool); ND(a_size, cw, size);
    ASSUME(nb <= ARENA && N0 + nb + 1 <= ARENA && cw < nb);
    WITNESS(w, b0);
    verif_cw = cw;
    unsigned char const src = other[cw];
    int rc;
    if (obj) { a_str o; o.ptr_ = (char *)other; o.num_ = nb; o.mem_ = ARENA; rc = term ? a_str_cat(&s, &o) : a_str_cat_(&s, &o); }
    else { rc = term ? a_str_catn(&s, other, nb) : a_str_catn_(&s, other, nb); }
    if (rc != A_SUCCESS) { ASSERT(rc == A_OMEMORY && !verif_alloc_ok && UNCHANGED(s) && verif_copies == 0, "failed catn/cat: only when the allocation failed; length, capacity and block unchanged, nothing copied"); }
    else
    {
        ASSERT(s.num_ == N0 + nb && s.num_ <= s.mem_ && s.mem_ >= M0, "catn/cat: the length grows by the block length and stays within the capacity");
        ASSERT((unsigned char)s.ptr_[N0 + cw] == src && (unsigned char)s.ptr_[w] == b0, "catn/cat: the block is appended byte for byte behind the old content, which is kept");
        if (term) { ASSERT(s.num_ < s.mem_ && s.ptr_[s.num_] == 0, "catn/cat: NUL directly after the content, inside the capacity"); }
        ASSERT(verif_alloc_calls <= 1 && verif_copies == 1, "catn/cat: at most one allocation request, one copy");
    }
    VERIF_CANARY();
}
void h_big_catn0(void) /* empty block: nothing is copied; the terminating variant still terminates */
{
    a_str s; mk(&s);
    ND(_Bool, term, bool);
    WITNESS(w, b0);
    int rc = term ? a_str_catn(&s, other, 0) : a_str_catn_(&s, other, 0);
    if (rc != A_SUCCESS) { ASSERT(rc == A_OMEMORY && !verif_alloc_ok && UNCHANGED(s), "failed catn of nothing: only when the allocation failed, nothing changed"); }
    else
    {
        ASSERT(s.num_ == N0 && s.num_ <= s.mem_ && (unsigned char)s.ptr_[w] == b0 && verif_copies == 0, "catn of an empty block: content and length kept, nothing copied");
        if (term) { ASSERT(s.num_ < s.mem_ && s.ptr_[s.num_] == 0, "catn of an empty block: NUL directly after the content, inside the capacity"); }
    }
    VERIF_CANARY();
}
void h_big_getn(void)
{
    a_str s; mk(&s);
    ND(a_size, nb, size); ND(_Bool, term, bool); ND(_Bool, discard, bool); ND(a_size, cw, size);
    a_size const r0 = nb < N0 ? nb : N0;
    ASSUME(cw < r0);
    ND(a_size, w, size); ASSUME(w < N0 - r0); unsigned char const b0 = arena[w];
    verif_cw = cw;
    unsigned char const src = arena[N0 - r0 + cw];
    a_size r = term ? a_str_getn(&s, discard ? A_NULL : (void *)other, nb) : a_str_getn_(&s, discard ? A_NULL : (void *)other, nb);
    ASSERT(r == r0 && s.num_ == N0 - r0 && s.mem_ == M0 && s.ptr_ == (M0 ? (char *)arena : (char *)A_NULL), "getn: removes min(n, length) bytes from the end, capacity and block kept");
    if (!discard) { ASSERT(other[cw] == src && verif_copies == 1, "getn: the removed bytes are handed out in order"); }
    ASSERT((unsigned char)s.ptr_[w] == b0, "getn: the remaining content is kept");
    if (term) { ASSERT(s.ptr_[s.num_] == 0, "getn: NUL directly after the content"); }
    ASSERT(verif_alloc_calls == 0, "getn: never allocates");
    VERIF_CANARY();
}
void h_big_setn_exit(void)
{
    a_str s; mk(&s);
    ND(a_size, num, size); ND(_Bool, which, bool);
    ASSUME(num <= ARENA);
    WITNESS(w, b0);
    if (which)
    {
        /* length change inside the capacity (bounds-checked): only the length moves */
        int rc = a_str_setn(&s, num);
        if (num <= M0) { ASSERT(rc == A_SUCCESS && s.num_ == num && s.mem_ == M0 && s.ptr_ == (M0 ? (char *)arena : (char *)A_NULL), "setn: a length within the capacity is taken, capacity and block kept"); }
        else { ASSERT(rc != A_SUCCESS && UNCHANGED(s), "setn: a length beyond the capacity is refused, nothing changes"); }
        ASSERT(N0 == 0 || arena[w] == b0, "setn: content untouched");
        ASSERT(verif_alloc_calls == 0, "setn: never allocates");
    }
    else
    {
        /* ownership hand-over */
        char *p = a_str_exit(&s);
        if (M0 == 0) { ASSERT(p == A_NULL && s.ptr_ == A_NULL && s.num_ == 0 && s.mem_ == 0, "exit of a string without a block: null, empty object"); }
        else if (p == A_NULL) { ASSERT(!verif_alloc_ok && N0 >= M0 && UNCHANGED(s), "failed exit: only when the terminator needed room and the allocation failed; the string still owns its block"); }
        else
        {
            ASSERT(p == (char *)arena && p[N0] == 0 && (unsigned char)p[w] == b0, "exit: the block is handed over NUL-terminated with its content");
            ASSERT(s.ptr_ == A_NULL && s.num_ == 0 && s.mem_ == 0, "exit: the object is left empty");
        }
    }
    VERIF_CANARY();
}
