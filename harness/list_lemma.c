/* C05, unbounded part: every intrusive-list primitive on an ARBITRARY heap.
   The heap is a pool of NP node objects whose next/prev links are arbitrary (any node may point to any node, links need not
   form rings): every configuration of the nodes a primitive can reach in a heap of any size is an instance, the remaining
   pool nodes stand for "all other nodes".  State is described by consistent edges
        E(x, y)  :=  x->next == y  &&  y->prev == x,
   a ring being a cycle of consistent edges.
   - The two core primitives a_list_add_ and a_list_del_ are proved against function contracts (frame by the assigns clause).
   - Every other primitive is proved with a_list_add_/a_list_del_ REPLACED by those contracts (caller checked against the
     callee's contract, not its body): from the consistent edges its documentation requires around the operands it
     establishes the edges of the result, and every other link field of every node keeps its value (snapshot comparison).
   Glue to the property statement (paper): a ring of any length is its set of consistent edges; an operation that removes
   and creates exactly the stated edges and leaves all other fields alone performs the stated operation on the abstract
   sequence.  The bounded units in lists.c check that glue on concrete rings. */
#include "contracts/verif.h"
#include "a/list.h"

#ifndef VERIF_NATIVE
void contract_a_list_add_(a_list *head1, a_list *tail1, a_list *head2, a_list *tail2)
    __CPROVER_assigns(tail1->next, head2->prev, tail2->next, head1->prev)
    /* distinct tails and distinct heads (every documented use), or one tail and one head (a ring of one node re-linked to itself):
       the result does not depend on the order of the two link steps; for the other aliasing patterns the result is order-dependent
       and left unspecified, so that a harmless reordering inside a_list_add_ is not reported */
    __CPROVER_ensures((tail1 != tail2 && head1 != head2) ==> (tail1->next == head2 && head2->prev == tail1 && tail2->next == head1 && head1->prev == tail2))
    __CPROVER_ensures((tail1 == tail2 && head1 == head2) ==> (tail1->next == head1 && head1->prev == tail1));
void contract_a_list_del_(a_list const *head, a_list const *tail)
    __CPROVER_assigns(head->prev->next, tail->next->prev)
    __CPROVER_ensures(__CPROVER_old(tail->next)->prev == __CPROVER_old(head->prev))
    __CPROVER_ensures(__CPROVER_old(head->prev) == __CPROVER_old(tail->next)->prev)
    __CPROVER_ensures(__CPROVER_old(head->prev)->next == __CPROVER_old(tail->next));
#endif

#define NP 10
static a_list g0, g1, g2, g3, g4, g5, g6, g7, g8, g9;
static a_list *const P[NP] = {&g0, &g1, &g2, &g3, &g4, &g5, &g6, &g7, &g8, &g9};
static unsigned NX[NP], PV[NP]; /* pre-state link targets (pool indices) */
static void heap(void)
{
    unsigned k;
    for (k = 0; k < NP; ++k)
    {
        unsigned nx, pv;
        ND_ARR(nx, NX, k, u32); ND_ARR(pv, PV, k, u32); /* native replay: the link tables of the counterexample */
        ASSUME(nx < NP && pv < NP);
        NX[k] = nx; PV[k] = pv;
        P[k]->next = P[nx]; P[k]->prev = P[pv];
    }
}
#define E(x, y) (P[x]->next == P[y] && P[y]->prev == P[x])
#define E0(x, y) (NX[x] == (y) && PV[y] == (x)) /* the same for the pre-state */
/* every link field not named in the masks keeps its pre-state value */
static int frame(unsigned wnext, unsigned wprev)
{
    unsigned k; int ok = 1;
    for (k = 0; k < NP; ++k)
    {
        if (!((wnext >> k) & 1) && P[k]->next != P[NX[k]]) { ok = 0; }
        if (!((wprev >> k) & 1) && P[k]->prev != P[PV[k]]) { ok = 0; }
    }
    return ok;
}
#define B(i) (1u << (i))
#define IDX(name) ND(unsigned, name, u32); ASSUME(name < NP)

/* ---- core primitives under contract ---- */
void h_core_add(void)
{
    heap();
    IDX(h1); IDX(t1); IDX(h2); IDX(t2);
    a_list_add_(P[h1], P[t1], P[h2], P[t2]);
    ASSERT(frame(B(t1) | B(t2), B(h1) | B(h2)), "add_: only tail1->next, head2->prev, tail2->next, head1->prev are written");
    if (t1 != t2 && h1 != h2) { ASSERT(E(t1, h2) && E(t2, h1), "add_: tail1-head2 and tail2-head1 become consistent edges"); }
    VERIF_CANARY();
}
void h_core_del(void)
{
    heap();
    IDX(h); IDX(t);
    unsigned p = PV[h], n = NX[t];
    a_list_del_(P[h], P[t]);
    ASSERT(E(p, n), "del_: the node before the section and the node after it become a consistent edge");
    ASSERT(frame(B(p), B(n)), "del_: only (head->prev)->next and (tail->next)->prev are written, the section keeps its links");
    VERIF_CANARY();
}

/* ---- callers, with a_list_add_ / a_list_del_ replaced by their contracts ---- */
void h_add(void)
{
    heap();
    ND(unsigned, op, u32); IDX(c); IDX(x);
    ASSUME(op < 3);
    if (op == 0)
    {
        /* a_list_add_node(head, tail, node): tail-head is an edge of the ring, node is not one of them */
        IDX(t);
        ASSUME(E0(t, c) && x != t && x != c);
        a_list_add_node(P[c], P[t], P[x]);
        ASSERT(E(t, x) && E(x, c), "add_node: the node sits between tail and head");
        ASSERT(frame(B(t) | B(x), B(c) | B(x)), "add_node: nothing else written");
    }
    else if (op == 1)
    {
        unsigned n = NX[c];
        ASSUME(E0(c, n) && x != c && x != n);
        a_list_add_next(P[c], P[x]);
        ASSERT(E(c, x) && E(x, n), "add_next: the node sits directly behind ctx, in front of its old successor");
        ASSERT(frame(B(c) | B(x), B(n) | B(x)), "add_next: nothing else written");
    }
    else
    {
        unsigned p = PV[c];
        ASSUME(E0(p, c) && x != c && x != p);
        a_list_add_prev(P[c], P[x]);
        ASSERT(E(p, x) && E(x, c), "add_prev: the node sits directly in front of ctx, behind its old predecessor");
        ASSERT(frame(B(p) | B(x), B(c) | B(x)), "add_prev: nothing else written");
    }
    VERIF_CANARY();
}
void h_del(void)
{
    heap();
    ND(unsigned, op, u32); IDX(x);
    ASSUME(op < 3);
    unsigned p = PV[x], n = NX[x];
    ASSUME(E0(p, x) && E0(x, n));
    if (op == 0)
    {
        a_list_del_node(P[x]);
        ASSERT(E(p, n), "del_node: predecessor and successor are joined");
        ASSERT(frame(B(p), B(n)), "del_node: nothing else written (the removed node keeps its stale links)");
    }
    else if (op == 1)
    {
        unsigned nn = NX[n];
        ASSUME(E0(n, nn));
        a_list_del_next(P[x]);
        ASSERT(E(x, nn), "del_next: the node behind x leaves, x is joined to the one after");
        ASSERT(frame(B(x), B(nn)), "del_next: nothing else written");
    }
    else
    {
        unsigned pp = PV[p];
        ASSUME(E0(pp, p));
        a_list_del_prev(P[x]);
        ASSERT(E(pp, x), "del_prev: the node in front of x leaves, x is joined to the one before");
        ASSERT(frame(B(pp), B(x)), "del_prev: nothing else written");
    }
    VERIF_CANARY();
}
void h_set(void)
{
    heap();
    ND(unsigned, op, u32); IDX(h1); IDX(t1); IDX(h2); IDX(t2);
    ASSUME(op < 2);
    unsigned p = PV[h1], n = NX[t1];
    /* section h1..t1 sits between p and n; the replacement chain h2..t2 is made of other nodes */
    ASSUME(E0(p, h1) && E0(t1, n) && h2 != p && h2 != n && t2 != p && t2 != n);
    if (op == 0) { a_list_set_(P[h1], P[t1], P[h2], P[t2]); }
    else { ASSUME(h1 == t1 && h2 == t2); a_list_set_node(P[h1], P[h2]); }
    ASSERT(E(p, h2) && E(t2, n), "set: the replacement is linked between the old neighbours of the section");
    ASSERT(frame(B(p) | B(t2), B(n) | B(h2)), "set: nothing else written (inner links of both chains, stale links of the old section)");
    VERIF_CANARY();
}
void h_mov(void)
{
    heap();
    ND(unsigned, op, u32); IDX(c); IDX(r);
    ASSUME(op < 2);
    unsigned rf = NX[r], rl = PV[r], cn = NX[c], cp = PV[c];
    /* rhs is the sentinel of a non-empty ring: r-rf and rl-r are edges, rf != r; ctx belongs to another ring */
    ASSUME(E0(r, rf) && E0(rl, r) && rf != r && rl != r);
    ASSUME(c != r && c != rf && c != rl);
    if (op == 0)
    {
        ASSUME(E0(c, cn) && cn != r && cn != rf && cn != rl);
        a_list_mov_next(P[c], P[r]);
        ASSERT(E(c, rf) && E(rl, cn), "mov_next: the other ring's nodes are spliced in directly behind ctx, in order");
        ASSERT(frame(B(c) | B(rl), B(rf) | B(cn)), "mov_next: nothing else written (the emptied sentinel keeps stale links)");
    }
    else
    {
        ASSUME(E0(cp, c) && cp != r && cp != rf && cp != rl);
        a_list_mov_prev(P[c], P[r]);
        ASSERT(E(cp, rf) && E(rl, c), "mov_prev: the other ring's nodes are spliced in directly in front of ctx, in order");
        ASSERT(frame(B(cp) | B(rl), B(rf) | B(c)), "mov_prev: nothing else written");
    }
    VERIF_CANARY();
}
void h_rot(void)
{
    heap();
    ND(unsigned, op, u32); IDX(c);
    ASSUME(op < 2);
    unsigned cn = NX[c], cp = PV[c];
    ASSUME(E0(c, cn) && E0(cp, c));
    if (op == 0)
    {
        /* the last node (cp) moves directly behind ctx */
        unsigned q = PV[cp];
        ASSUME(E0(q, cp));
        a_list_rot_next(P[c]);
        if (cn == cp) { ASSERT(E(c, cn) && E(cn, c) && frame(B(c) | B(cn), B(c) | B(cn)), "rot_next: a ring of one or two nodes is its own rotation"); }
        else
        {
            ASSUME(q != c && cn != c); /* at least three distinct nodes: q, cp, c, cn with q == cn allowed */
            ASSERT(E(q, c) && E(c, cp) && E(cp, cn), "rot_next: the node in front of ctx moves directly behind it");
            ASSERT(frame(B(q) | B(c) | B(cp), B(c) | B(cp) | B(cn)), "rot_next: nothing else written");
        }
    }
    else
    {
        unsigned q = NX[cn];
        ASSUME(E0(cn, q));
        a_list_rot_prev(P[c]);
        if (cn == cp) { ASSERT(E(c, cn) && E(cn, c) && frame(B(c) | B(cn), B(c) | B(cn)), "rot_prev: a ring of one or two nodes is its own rotation"); }
        else
        {
            ASSUME(q != c && cp != c);
            ASSERT(E(c, q) && E(cn, c) && E(cp, cn), "rot_prev: the node behind ctx moves directly in front of it");
            ASSERT(frame(B(c) | B(cn) | B(cp), B(q) | B(c) | B(cn)), "rot_prev: nothing else written");
        }
    }
    VERIF_CANARY();
}
void h_swap(void)
{
    heap();
    ND(unsigned, op, u32); IDX(h1); IDX(t1); IDX(h2); IDX(t2);
    ASSUME(op < 2);
    if (op == 1) { ASSUME(h1 == t1 && h2 == t2); }
    unsigned p1 = PV[h1], n1 = NX[t1], p2 = PV[h2], n2 = NX[t2];
    ASSUME(E0(p1, h1) && E0(t1, n1) && E0(p2, h2) && E0(t2, n2));
    /* documented precondition: the sections are disjoint and not adjacent; each is a proper part of its ring, i.e. the
       four outer neighbours are none of the four section ends (an outer neighbour that is an end of the OTHER section means
       adjacency or overlap, one that is an end of its OWN section means the section is the whole ring) */
    ASSUME(h1 != h2 && h1 != t2 && t1 != h2 && t1 != t2);
#define OUTER(x) ((x) != h1 && (x) != t1 && (x) != h2 && (x) != t2)
    ASSUME(OUTER(p1) && OUTER(n1) && OUTER(p2) && OUTER(n2));
    if (op == 0) { a_list_swap_(P[h1], P[t1], P[h2], P[t2]); }
    else { a_list_swap_node(P[h1], P[h2]); }
    ASSERT(E(p1, h2) && E(t2, n1) && E(p2, h1) && E(t1, n2), "swap: each section is linked between the other's old neighbours");
    ASSERT(frame(B(p1) | B(t2) | B(p2) | B(t1), B(h2) | B(n1) | B(h1) | B(n2)), "swap: nothing else written (inner links of both sections kept)");
    VERIF_CANARY();
}

/* ==================== singly linked list on an arbitrary heap ====================
   Pool of NS nodes with arbitrary next links (pool node or null) and two list headers.  The list invariant is used in its
   local form: for a node x on the chain of a list,  x->next == NULL  <=>  x == tail   (a chain has exactly one last node and
   the tail designates it; for the head sentinel: empty <=> tail == &head).  Each primitive gets that equivalence for the
   chain nodes it is handed, and must produce the specified links, the equivalence for the nodes whose status changed, and
   leave every other field alone. */
#include "a/slist.h"
#define NS 6
static a_slist_node s0, s1, s2, s3, s4, s5;
static a_slist SL, SM;
static a_slist_node *const S[NS + 3] = {&s0, &s1, &s2, &s3, &s4, &s5, A_NULL, &SL.head, &SM.head};
#define SNULL NS
#define SLH (NS + 1)
#define SMH (NS + 2)
static unsigned SX[NS + 3]; /* pre-state next (index into S) */
static unsigned TL, TM;     /* pre-state tails */
static void sheap(void)
{
    unsigned k;
    for (k = 0; k < NS + 3; ++k)
    {
        if (k != SNULL)
        {
            unsigned nx;
            ND_ARR(nx, SX, k, u32);
            ASSUME(nx <= SNULL);
            SX[k] = nx; S[k]->next = S[nx];
        }
    }
    { ND(unsigned, tl, u32); ND(unsigned, tm, u32);
      ASSUME((tl < NS || tl == SLH) && (tm < NS || tm == SMH));
      TL = tl; TM = tm; SL.tail = S[tl]; SM.tail = S[tm]; }
}
/* x is a node of L's chain: it is the last one exactly when it is the tail */
#define ONL0(x) ((SX[x] == SNULL) == ((x) == TL))
#define ONM0(x) ((SX[x] == SNULL) == ((x) == TM))
static int sframe(unsigned wnext, int wtl, int wtm)
{
    unsigned k; int ok = 1;
    for (k = 0; k < NS + 3; ++k) { if (k != SNULL && !((wnext >> k) & 1) && S[k]->next != S[SX[k]]) { ok = 0; } }
    if (!wtl && SL.tail != S[TL]) { ok = 0; }
    if (!wtm && SM.tail != S[TM]) { ok = 0; }
    return ok;
}
void h_slist(void)
{
    sheap();
    ND(unsigned, op, u32); ND(unsigned, pv, u32); ND(unsigned, x, u32);
    ASSUME(op < 6 && (pv < NS || pv == SLH) && x < NS);
    unsigned nx = SX[pv];
    if (op == 0 || op == 1)
    {
        /* add behind prev (a node of L's chain or its head sentinel); the new node is not on the chain */
        if (op == 1) { ASSUME(pv == SLH); }
        ASSUME(ONL0(pv) && x != pv && x != TL && x != nx);
        if (op == 0) { a_slist_add(&SL, S[pv], S[x]); } else { a_slist_add_head(&SL, S[x]); }
        ASSERT(S[pv]->next == S[x] && S[x]->next == S[nx], "slist add: the node is linked between prev and its old successor");
        ASSERT(SL.tail == (nx == SNULL ? S[x] : S[TL]) && (SL.tail->next == A_NULL) == (nx == SNULL || SX[TL] == SNULL), "slist add: the tail moves to the node exactly when it was appended behind the last node");
        ASSERT(sframe(B(pv) | B(x), 1, 0), "slist add: nothing else written");
    }
    else if (op == 2)
    {
        ASSUME(SX[TL] == SNULL && x != TL);
        a_slist_add_tail(&SL, S[x]);
        ASSERT(S[TL]->next == S[x] && S[x]->next == A_NULL && SL.tail == S[x], "slist add_tail: appended behind the old last node, the tail designates it");
        ASSERT(sframe(B(TL) | B(x), 1, 0), "slist add_tail: nothing else written");
    }
    else if (op == 3 || op == 4)
    {
        /* remove the node behind prev, if any */
        if (op == 4) { ASSUME(pv == SLH); }
        ASSUME(ONL0(pv));
        if (nx != SNULL) { ASSUME(ONL0(nx) && nx != pv); }
        if (op == 3) { a_slist_del(&SL, S[pv]); } else { a_slist_del_head(&SL); }
        if (nx == SNULL) { ASSERT(sframe(0, 0, 0), "slist del: nothing behind prev, nothing changes"); }
        else
        {
            ASSERT(S[pv]->next == S[SX[nx]], "slist del: prev is linked to the successor of the removed node");
            ASSERT(SL.tail == (nx == TL ? S[pv] : S[TL]) && (nx != TL || S[pv]->next == A_NULL), "slist del: the tail moves back to prev exactly when the last node was removed");
            ASSERT(sframe(B(pv), 1, 0), "slist del: nothing else written (the removed node keeps its stale link)");
        }
    }
    else
    {
        /* rotate: the first node becomes the last */
        unsigned f = SX[SLH];
        ASSUME(ONL0(SLH) && SX[TL] == SNULL);
        if (f != SNULL) { ASSUME(ONL0(f)); }
        a_slist_rot(&SL);
        if (f == SNULL || SX[f] == SNULL) { ASSERT(sframe(0, 0, 0), "slist rot: an empty or one-node list is its own rotation"); }
        else
        {
            ASSERT(SL.head.next == S[SX[f]] && S[TL]->next == S[f] && S[f]->next == A_NULL && SL.tail == S[f], "slist rot: the first node is re-linked behind the old last node and becomes the tail");
            ASSERT(sframe(B(SLH) | B(TL) | B(f), 1, 0), "slist rot: nothing else written");
        }
    }
    VERIF_CANARY();
}
void h_slist_mov(void)
{
    sheap();
    ND(unsigned, ati, u32);
    ASSUME(ati < NS || ati == SLH);
    unsigned f = SX[SMH], an = SX[ati];
    /* M is a well-formed list; at (index ati) is a node of L's chain (or its sentinel) and not a node of M */
    ASSUME(ONM0(SMH) && SX[TM] == SNULL && ONL0(ati) && ati != TM);
    a_slist_mov(&SM, &SL, S[ati]);
    if (f == SNULL) { ASSERT(sframe(0, 0, 0), "slist mov: moving an empty list changes nothing"); }
    else
    {
        ASSERT(S[ati]->next == S[f] && S[TM]->next == S[an], "slist mov: the whole chain is spliced in behind at, its last node linked to at's old successor");
        ASSERT(SL.tail == (an == SNULL ? S[TM] : S[TL]) && (an != SNULL || SL.tail->next == A_NULL), "slist mov: the tail moves to the moved chain's last node exactly when it was appended ati the end");
        ASSERT(sframe(B(ati) | B(TM), 1, 0), "slist mov: nothing else written (the source header keeps stale links)");
    }
    VERIF_CANARY();
}
