/* C01 / C02 / C03: AVL tree (src/avl.c) and red-black tree (src/rbt.c) on EVERY valid tree of depth <= D.
   -DTREE_RBT selects the red-black tree.  Nodes live in a heap-indexed pool (node i has children 2i, 2i+1) so that
   the symbolic part of the pre-state is only which nodes exist (and their colours); keys are 2 * in-order rank,
   which makes the pool a search tree by construction and leaves the odd numbers for keys that are absent.
   After the operation the tree is judged by a recursive checker over the actual links (order, parent links,
   balance factors = height differences / colours and black heights), the element set by node count + lookups. */
#include "contracts/verif.h"
#ifdef TREE_RBT
#include "src/rbt.c"
#define T_(x) a_rbt_##x
#define NODE a_rbt_node
#define TREE a_rbt
#else
#include "src/avl.c"
#define T_(x) a_avl_##x
#define NODE a_avl_node
#define TREE a_avl
#endif

#ifndef D
#define D 2
#endif
#define NN ((1 << D) - 1)
typedef struct { NODE n; int key; } item;
/* one object per node (a single array of nodes makes every access through a symbolic link an expensive
   symbolic-offset array access); P[i] = node at heap position i, P[NN+1] = the node to insert */
static item nd0, nd1, nd2, nd3, nd4, nd5, nd6, nd7, nd8, nd9, nd10, nd11, nd12, nd13, nd14, nd15, nd16;
static item *const P[17] = {&nd0, &nd1, &nd2, &nd3, &nd4, &nd5, &nd6, &nd7, &nd8, &nd9, &nd10, &nd11, &nd12, &nd13, &nd14, &nd15, &nd16};
#define pool_(i) (*P[i])
static _Bool ex[2 * NN + 2];    /* which heap positions exist */
static _Bool blk[2 * NN + 2];   /* red-black: colour (1 = black) */
static int ht[2 * NN + 2];      /* height (AVL) / black height (RBT) of the subtree at heap position i */
static TREE T;
static unsigned count0;

static int cmp_item(void const *l, void const *r) { return ((item const *)l)->key - ((item const *)r)->key; } /* any magnitude, only the sign matters */

static int rank_of(unsigned i) /* in-order rank (1-based) of heap position i in the complete tree of depth D */
{
    unsigned l = 0, p, t = i;
    while (t > 1) { t >>= 1; ++l; }
    p = i - (1u << l);
    return (int)((2 * p + 1) << (D - 1 - l));
}
static void set_links(unsigned i)
{
    NODE *x = &pool_(i).n;
    x->left = (2 * i <= NN && ex[2 * i]) ? &pool_(2 * i).n : A_NULL;
    x->right = (2 * i + 1 <= NN && ex[2 * i + 1]) ? &pool_(2 * i + 1).n : A_NULL;
#ifdef TREE_RBT
    a_rbt_set_parent_color(x, i > 1 ? &pool_(i / 2).n : A_NULL, blk[i]);
#else
    a_avl_set_parent_factor(x, i > 1 ? &pool_(i / 2).n : A_NULL, ht[2 * i + 1] - ht[2 * i]);
#endif
}
static void build(void)
{
    unsigned i;
    count0 = 0;
    for (i = 1; i <= NN; ++i)
    {
        _Bool e, b;
#ifdef SHAPE /* the shape is fixed by the unit (one unit per valid shape); colours and keys stay symbolic */
        e = (SHAPE >> (i - 1)) & 1;
#else
        ND_ARR(e, ex, i, bool);
#endif
        ND_ARR(b, blk, i, bool);
        ex[i] = e; blk[i] = b;
        ASSUME(i == 1 || !ex[i] || ex[i / 2]);
        pool_(i).key = 2 * rank_of(i);
        if (ex[i]) { ++count0; }
    }
    for (i = NN; i >= 1; --i) /* heights bottom-up, validity of the tree type */
    {
        int hl = ht[2 * i], hr = ht[2 * i + 1];
        if (!ex[i]) { ht[i] = 0; }
        else
        {
#ifdef TREE_RBT
            ASSUME(hl == hr);                                                    /* equal black heights */
            ASSUME(blk[i] || ((!(2 * i <= NN && ex[2 * i]) || blk[2 * i]) && (!(2 * i + 1 <= NN && ex[2 * i + 1]) || blk[2 * i + 1]))); /* no red node has a red child */
            ht[i] = hl + (blk[i] ? 1 : 0);
#else
            ASSUME(hr - hl <= 1 && hl - hr <= 1);
            ht[i] = 1 + (hl > hr ? hl : hr);
#endif
        }
    }
#ifdef TREE_RBT
    ASSUME(!ex[1] || blk[1]); /* black root */
#endif
    for (i = 1; i <= NN; ++i) { if (ex[i]) { set_links(i); } }
    T.node = ex[1] ? &pool_(1).n : A_NULL;
}

/* recursive checker over the ACTUAL links; returns the (black) height, or -100 on any violation */
static unsigned seen;
static int chk(NODE *x, NODE *parent, int lo, int hi, int depth)
{
    int hl, hr, key;
    if (!x) { return 0; }
    if (depth > D + 2) { return -100; }
    key = ((item *)x)->key;
    if (!(lo < key && key < hi)) { return -100; }          /* search-tree order */
    if (T_(parent)(x) != parent) { return -100; }          /* parent link points back */
    hl = chk(x->left, x, lo, key, depth + 1);
    hr = chk(x->right, x, key, hi, depth + 1);
    if (hl < 0 || hr < 0) { return -100; }
    ++seen;
#ifdef TREE_RBT
    if (hl != hr) { return -100; }                          /* same number of black nodes on every path */
    if (a_rbt_color(x) == 0)
    {
        if (x->left && a_rbt_color(x->left) == 0) { return -100; }  /* no red node has a red child */
        if (x->right && a_rbt_color(x->right) == 0) { return -100; }
        return hl;
    }
    return hl + 1;
#else
    if (hr - hl > 1 || hl - hr > 1) { return -100; }        /* subtree heights differ by at most one */
    if (a_avl_factor(x) != hr - hl) { return -100; }        /* stored balance factor equals the difference */
    return 1 + (hl > hr ? hl : hr);
#endif
}
static int valid_tree(void)
{
    seen = 0;
    if (chk(T.node, A_NULL, 0, 1000, 0) < 0) { return 0; }
#ifdef TREE_RBT
    if (T.node && a_rbt_color(T.node) == 0) { return 0; }   /* the root is black */
#endif
    return 1;
}
#define WITNESS(w) ND(unsigned, w, u32); ASSUME(w >= 1 && w <= NN && ex[w])

/* ---- insert (new key or resident key) and lookup ---- */
void h_insert(void)
{
    build();
    ND(int, k, int);
    ASSUME(k >= 1 && k <= 2 * NN + 1);
    item *x = &pool_(NN + 1);
    x->key = k;
    unsigned i, resident = 0;
    for (i = 1; i <= NN; ++i) { if (ex[i] && pool_(i).key == k) { resident = i; } }
    NODE *root0 = T.node;
    ND(unsigned, w, u32);
    ASSUME(w >= 1 && w <= NN);
    NODE *l0 = pool_(w).n.left, *r0 = pool_(w).n.right, *p0 = T_(parent)(&pool_(w).n);
    NODE *r = T_(insert)(&T, &x->n, cmp_item);
    if (resident)
    {
        ASSERT(r == &pool_(resident).n, "insert: a resident key returns the resident element");
        ASSERT(T.node == root0, "insert: a duplicate changes nothing (root)");
        if (ex[w]) { ASSERT(pool_(w).n.left == l0 && pool_(w).n.right == r0 && T_(parent)(&pool_(w).n) == p0, "insert: a duplicate changes no link"); }
    }
    else
    {
        ASSERT(r == A_NULL, "insert: a new key is accepted");
        ASSERT(valid_tree(), "insert: still a balanced/coloured, correctly linked search tree");
        ASSERT(seen == count0 + 1, "insert: exactly one element more");
        ASSERT(T_(search)(&T, x, cmp_item) == &x->n, "lookup finds the inserted element");
        if (ex[w]) { ASSERT(T_(search)(&T, &pool_(w), cmp_item) == &pool_(w).n, "lookup still finds every earlier element"); }
        { item probe; probe.key = (k % 2) ? k + 2 : k + 1; /* an absent key next to the new one */
          if (probe.key % 2) { ASSERT(T_(search)(&T, &probe, cmp_item) == A_NULL, "lookup does not find an absent key"); } }
    }
    VERIF_CANARY();
}

/* ---- remove ---- */
void h_remove(void)
{
    build();
    WITNESS(v);
    unsigned i;
    T_(remove)(&T, &pool_(v).n);
    ASSERT(valid_tree(), "remove: still a balanced/coloured, correctly linked search tree");
    ASSERT(seen == count0 - 1, "remove: exactly one element less");
    ASSERT(T_(search)(&T, &pool_(v), cmp_item) == A_NULL, "lookup no longer finds the removed element");
    if (count0 > 1) { WITNESS(w); if (w != v) { ASSERT(T_(search)(&T, &pool_(w), cmp_item) == &pool_(w).n, "lookup still finds every other element"); } }
    (void)i;
    VERIF_CANARY();
}

/* ---- C03: iteration protocols through the real macros, compared with recursive traversals of the same shape ---- */
static unsigned out[NN + 2], nout;          /* what the iterator produced (heap positions) */
static unsigned ref_[NN + 2], nref;         /* reference traversal */
static void ref_in(unsigned i, int rev) { if (i > NN || !ex[i]) { return; } ref_in(rev ? 2 * i + 1 : 2 * i, rev); ref_[nref++] = i; ref_in(rev ? 2 * i : 2 * i + 1, rev); }
static void ref_pre(unsigned i, int rev) { if (i > NN || !ex[i]) { return; } ref_[nref++] = i; ref_pre(rev ? 2 * i + 1 : 2 * i, rev); ref_pre(rev ? 2 * i : 2 * i + 1, rev); }
static void ref_post(unsigned i, int rev) { if (i > NN || !ex[i]) { return; } ref_post(rev ? 2 * i + 1 : 2 * i, rev); ref_post(rev ? 2 * i : 2 * i + 1, rev); ref_[nref++] = i; }
static unsigned idx_of(void const *p) { unsigned i, r = 0; for (i = 1; i <= NN + 1; ++i) { if ((void const *)P[i] == p) { r = i; } } return r; }
#define IDX(p) idx_of(p)
#define RECORD(cur) do { if (nout <= NN) { out[nout] = IDX(cur); } ++nout; } while (0)
static int same_seq(void) { unsigned k; int ok = (nout == nref); for (k = 0; k < NN; ++k) { if (k < nref && k < nout && out[k] != ref_[k]) { ok = 0; } } return ok; }
#ifdef TREE_RBT
#define FOREACH(kind) A_RBT_##kind
#define foreach_(kind) a_rbt_##kind
#else
#define FOREACH(kind) A_AVL_##kind
#define foreach_(kind) a_avl_##kind
#endif
void h_iter(void)
{
    build();
    NODE *cur;
    nout = 0; nref = 0; ref_in(1, 0);
    FOREACH(FOREACH)(cur, &T) { RECORD(cur); }
    ASSERT(same_seq(), "in-order iteration yields every element once in ascending order");
    nout = 0; nref = 0; ref_in(1, 1);
    FOREACH(FOREACH_REVERSE)(cur, &T) { RECORD(cur); }
    ASSERT(same_seq(), "reverse iteration yields every element once in descending order");
    nout = 0; nref = 0; ref_pre(1, 0);
    FOREACH(PRE_FOREACH)(cur, &T) { RECORD(cur); }
    ASSERT(same_seq(), "pre-order iteration visits root-left-right");
    nout = 0; nref = 0; ref_pre(1, 1);
    FOREACH(PRE_FOREACH_REVERSE)(cur, &T) { RECORD(cur); }
    ASSERT(same_seq(), "reverse pre-order iteration visits root-right-left");
    nout = 0; nref = 0; ref_post(1, 0);
    FOREACH(POST_FOREACH)(cur, &T) { RECORD(cur); }
    ASSERT(same_seq(), "post-order iteration visits left-right-root");
    nout = 0; nref = 0; ref_post(1, 1);
    FOREACH(POST_FOREACH_REVERSE)(cur, &T) { RECORD(cur); }
    ASSERT(same_seq(), "reverse post-order iteration visits right-left-root");
    if (count0 > 0)
    {
        WITNESS(w);
        NODE *x = &pool_(w).n, *nx = T_(next)(x), *pv = T_(prev)(x);
        if (nx) { ASSERT(T_(prev)(nx) == x, "predecessor of the successor is the element itself"); }
        if (pv) { ASSERT(T_(next)(pv) == x, "successor of the predecessor is the element itself"); }
        ASSERT((nx == A_NULL) == (x == T_(tail)(&T)) && (pv == A_NULL) == (x == T_(head)(&T)), "only the last/first element has no successor/predecessor");
    }
    VERIF_CANARY();
}

/* destructive tear-down: every element exactly once, children before parents, never touched again, tree empty;
   interrupted after any number of steps the rest is still a well linked tree */
void h_tear(void)
{
    build();
    NODE *cur, *next = A_NULL;
    _Bool given[NN + 2];
    unsigned i, steps = 0;
    ND(unsigned, stop_after, u32); ND(unsigned, start, u32); /* start == 0: from the root (what the fortear macro does); else from that node */
    ASSUME(start <= NN && (start == 0 || ex[start]));
    for (i = 0; i <= NN + 1; ++i) { given[i] = 0; }
    if (start) { next = &pool_(start).n; }
    for (cur = T_(tear)(&T, &next); cur; cur = T_(tear)(&T, &next))
    {
        unsigned c = IDX(cur);
        ASSERT(c >= 1 && c <= NN && ex[c] && !given[c], "tear-down hands out every element at most once");
        ASSERT((2 * c > NN || !ex[2 * c] || given[2 * c]) && (2 * c + 1 > NN || !ex[2 * c + 1] || given[2 * c + 1]), "tear-down hands out children before parents");
        given[c] = 1;
        /* poison the element: any later read of it shows up as a changed traversal or a failed check */
        cur->left = cur->right = (NODE *)&pool_(0).n;
        ++steps;
        if (steps == stop_after)
        {
            /* interrupted: every element not yet handed out is still reachable from the root through live links */
            unsigned w; ND_SET(w, w2, u32); ASSUME(w >= 1 && w <= NN && ex[w] && !given[w]);
            NODE *p = &pool_(w).n; unsigned g = 0;
            while (T_(parent)(p) && g < D + 1) { NODE *q = T_(parent)(p); ASSERT(q->left == p || q->right == p, "interrupted tear-down: the remaining structure is still linked"); ASSERT(!given[IDX(q)], "interrupted tear-down: no remaining element hangs below a handed-out one"); p = q; ++g; }
            ASSERT(p == T.node, "interrupted tear-down: remaining elements are reachable from the root");
        }
    }
    ASSERT(steps == count0, "tear-down hands out every element exactly once");
    ASSERT(T.node == A_NULL, "tear-down leaves the tree empty");
    /* the documented macro form */
    build();
    steps = 0;
    FOREACH(FORTEAR)(cur, next, &T) { ++steps; }
    ASSERT(steps == count0 && T.node == A_NULL, "fortear macro: every element once, tree empty");
    VERIF_CANARY();
}

/* ---- packed parent word (default layout): accessor round trips for every parent pointer and factor / colour ---- */
void h_packed(void)
{
    NODE *x = &nd1.n;
    ND(unsigned, pi, u32); ND(unsigned, qi, u32);
    ASSUME(pi <= 3 && qi <= 3);
    NODE *p = pi == 0 ? (NODE *)A_NULL : &P[pi + 1]->n, *q = qi == 0 ? (NODE *)A_NULL : &P[qi + 1]->n;
#ifdef TREE_RBT
    ND(unsigned, c, u32);
    ASSUME(c <= 1);
    a_rbt_set_parent_color(x, p, c);
    ASSERT(a_rbt_parent(x) == p && a_rbt_color(x) == c, "packed word: set_parent_color stores parent and colour");
    a_rbt_set_parent(x, q);
    ASSERT(a_rbt_parent(x) == q && a_rbt_color(x) == c, "packed word: set_parent keeps the colour");
    a_rbt_set_black(x);
    ASSERT(a_rbt_parent(x) == q && a_rbt_color(x) == 1, "packed word: set_black keeps the parent");
    (void)a_rbt_init(x, p);
    ASSERT(a_rbt_parent(x) == p && a_rbt_color(x) == 0 && x->left == A_NULL && x->right == A_NULL, "init: red leaf below its parent");
#else
    ND(int, f, int); ND(int, amount, int);
    ASSUME(f >= -1 && f <= 1 && f + amount >= -1 && f + amount <= 1 && amount >= -2 && amount <= 2);
    a_avl_set_parent_factor(x, p, f);
    ASSERT(a_avl_parent(x) == p && a_avl_factor(x) == f, "packed word: set_parent_factor stores parent and balance factor");
    a_avl_set_parent(x, q);
    ASSERT(a_avl_parent(x) == q && a_avl_factor(x) == f, "packed word: set_parent keeps the balance factor");
    a_avl_set_factor(x, amount);
    ASSERT(a_avl_parent(x) == q && a_avl_factor(x) == f + amount, "packed word: adjusting the factor keeps the parent");
    (void)a_avl_init(x, p);
    ASSERT(a_avl_parent(x) == p && a_avl_factor(x) == 0 && x->left == A_NULL && x->right == A_NULL, "init: balanced leaf below its parent");
#endif
    VERIF_CANARY();
}
