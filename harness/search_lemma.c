/* C01 / C02, unbounded part: the DESCENT loops of a_avl_search / a_avl_insert (a_rbt_search / a_rbt_insert with -DTREE_RBT) under
   loop contracts, on an arbitrary heap.
   Heap: a pool of NP node objects with arbitrary child links (pool node or null) - any tree shape of any depth - each carrying
   its key and a GHOST open key interval (lo, hi): the keys its subtree may hold.  Assumed for every pool node (the local form
   of "is a search tree"): lo < key < hi, a left child has the interval (lo, key), a right child (key, hi).
   Loop invariant (props/C01.py, C02.py): the current node is null or a pool node whose interval contains the searched key K
   [insert: the link under inspection is the root link or the child link of `parent` on the side K belongs to, and K lies in
   parent's interval].  Proved: the invariant holds initially and is kept by every iteration (so a wrong turn, which leaves
   the interval, fails), termination (ghost depth), and after the loop:
   - search: a non-null result is a pool node whose key is K; null is returned only after falling off a null link;
   - insert: a resident element with key K is returned and NOTHING is written (assigns clause), or the new node is linked into
     an empty child slot of a node whose interval contains K, on the side K belongs to (so the order is kept), initialised as a
     leaf, and the rebalancing is started exactly once for (root, node) - a_*_insert_adjust is replaced by a recording contract.
   Paper step: intervals of different subtrees are disjoint, so "K is in the interval of the empty slot reached" means that no
   element with key K is in the tree. */
#include "contracts/verif.h"
#ifdef TREE_RBT
#include "a/rbt.h"
#define NODE a_rbt_node
#define TREE a_rbt
#define T_SEARCH a_rbt_search
#define T_INSERT a_rbt_insert
#define T_PARENT a_rbt_parent
#else
#include "a/avl.h"
#define NODE a_avl_node
#define TREE a_avl
#define T_SEARCH a_avl_search
#define T_INSERT a_avl_insert
#define T_PARENT a_avl_parent
#endif

unsigned verif_adj_calls;
TREE *verif_adj_root;
NODE *verif_adj_node;
#ifndef VERIF_NATIVE
#ifdef TREE_RBT
void contract_adjust(a_rbt *root, a_rbt_node *node)
#else
void contract_adjust(a_avl *root, a_avl_node *node)
#endif
    __CPROVER_assigns(verif_adj_calls, verif_adj_root, verif_adj_node)
    __CPROVER_ensures(verif_adj_calls == __CPROVER_old(verif_adj_calls) + 1 && verif_adj_root == root && verif_adj_node == node);
#endif

#ifdef TREE_RBT
#include "src/rbt.c"
#else
#include "src/avl.c"
#endif

struct wn_s { NODE n; int key; int lo, hi; int dep; };
/* the loop contracts (lib/descent.py) name the ghost fields through the pool objects q0..q7 */
#ifndef NP
#define NP 8
#endif
#define DMAX 1000000
struct wn_s q0, q1, q2, q3, q4, q5, q6, q7, qnew;
static struct wn_s *const Q[8] = {&q0, &q1, &q2, &q3, &q4, &q5, &q6, &q7}; /* the first NP are used */
TREE verif_tree;
int verif_K;
static unsigned LX[NP], RX[NP];
static int cmpk(void const *lhs, void const *rhs)
{
    /* search hands over (context, node), insert (new node, node): both are read as "an object whose key is K" */
    int const kn = ((struct wn_s const *)rhs)->key;
    (void)lhs;
    ND(unsigned, mag, u32); /* only the sign of the result may be used */
    int const m = 1 + (int)(mag & 0xFFFF);
    return verif_K < kn ? -m : verif_K > kn ? m : 0;
}
static void heap(void)
{
    unsigned k;
    for (k = 0; k < NP; ++k)
    {
        unsigned l, r; int key, lo, hi, dep;
        ND_ARR(l, LX, k, u32); ND_ARR(r, RX, k, u32);
        ND_SET(key, hkey, int); ND_SET(lo, hlo, int); ND_SET(hi, hhi, int); ND_SET(dep, hdep, int);
        ASSUME(l <= NP && r <= NP && lo < key && key < hi && 0 <= dep && dep < DMAX);
        LX[k] = l; RX[k] = r;
        Q[k]->key = key; Q[k]->lo = lo; Q[k]->hi = hi; Q[k]->dep = dep;
        Q[k]->n.left = l < NP ? &Q[l]->n : (NODE *)A_NULL;
        Q[k]->n.right = r < NP ? &Q[r]->n : (NODE *)A_NULL;
    }
    for (k = 0; k < NP; ++k) /* local search-tree consistency of the ghost intervals, ghost depth grows downwards */
    {
        if (LX[k] < NP) { ASSUME(Q[LX[k]]->lo == Q[k]->lo && Q[LX[k]]->hi == Q[k]->key && Q[LX[k]]->dep == Q[k]->dep + 1); }
        if (RX[k] < NP) { ASSUME(Q[RX[k]]->lo == Q[k]->key && Q[RX[k]]->hi == Q[k]->hi && Q[RX[k]]->dep == Q[k]->dep + 1); }
    }
    {
        ND(unsigned, rt, u32); ND(int, K, int);
        ASSUME(rt <= NP);
        verif_tree.node = rt < NP ? &Q[rt]->n : (NODE *)A_NULL;
        if (rt < NP) { ASSUME(Q[rt]->lo < K && K < Q[rt]->hi); } /* the root's interval is everything */
        verif_K = K;
    }
}
/* straight-line selection by object identity (a loop over Q[] or a cast of the pointer made single obligations take > 10 min) */
#define SEL(x, f, d) ((x) == &q0.n ? q0.f : (x) == &q1.n ? q1.f : (x) == &q2.n ? q2.f : (x) == &q3.n ? q3.f : (NP > 4 && (x) == &q4.n) ? q4.f : (NP > 5 && (x) == &q5.n) ? q5.f : (NP > 6 && (x) == &q6.n) ? q6.f : (NP > 7 && (x) == &q7.n) ? q7.f : (d))
static int in_pool(NODE const *x) { return x == &q0.n || x == &q1.n || x == &q2.n || x == &q3.n || (NP > 4 && x == &q4.n) || (NP > 5 && x == &q5.n) || (NP > 6 && x == &q6.n) || (NP > 7 && x == &q7.n); }

void h_search(void)
{
    heap();
    NODE *r = T_SEARCH(&verif_tree, &verif_K, cmpk);
    if (r) { ASSERT(in_pool(r) && SEL(r, key, verif_K + 1) == verif_K, "search: a result is an element of the tree whose key is the searched key"); }
    VERIF_CANARY();
}
void h_insert(void)
{
    heap();
    unsigned k;
    NODE *l0[NP], *r0[NP];
    for (k = 0; k < NP; ++k) { l0[k] = Q[k]->n.left; r0[k] = Q[k]->n.right; }
    NODE *root0 = verif_tree.node;
    qnew.key = verif_K;
    verif_adj_calls = 0;
    NODE *r = T_INSERT(&verif_tree, &qnew.n, cmpk);
    if (r)
    {
        ASSERT(in_pool(r) && SEL(r, key, verif_K + 1) == verif_K, "insert: a key already present returns the resident element");
        ASSERT(verif_adj_calls == 0 && verif_tree.node == root0, "insert: a key already present starts no rebalancing and leaves the root alone");
        for (k = 0; k < NP; ++k) { ASSERT(Q[k]->n.left == l0[k] && Q[k]->n.right == r0[k], "insert: a key already present changes no link"); }
    }
    else
    {
        NODE *p = T_PARENT(&qnew.n);
        ASSERT(verif_adj_calls == 1 && verif_adj_root == &verif_tree && verif_adj_node == &qnew.n, "insert: the rebalancing is started once, for the new node");
        ASSERT(qnew.n.left == A_NULL && qnew.n.right == A_NULL, "insert: the new node is a leaf");
        if (p == A_NULL) { ASSERT(root0 == A_NULL && verif_tree.node == &qnew.n, "insert into an empty tree: the new node is the root"); }
        else
        {
            int const Pkey = SEL(p, key, 0), Plo = SEL(p, lo, 0), Phi = SEL(p, hi, 0);
            unsigned changed = 0;
            ASSERT(in_pool(p) && Plo < verif_K && verif_K < Phi && verif_K != Pkey, "insert: the parent's key interval contains the new key");
            ASSERT(verif_K < Pkey ? p->left == &qnew.n : p->right == &qnew.n, "insert: the new node hangs on the side its key belongs to");
            for (k = 0; k < NP; ++k)
            {
                if (Q[k]->n.left != l0[k]) { ++changed; ASSERT(&Q[k]->n == p && l0[k] == A_NULL && verif_K < Pkey, "insert: the only link written is an EMPTY child slot of the parent"); }
                if (Q[k]->n.right != r0[k]) { ++changed; ASSERT(&Q[k]->n == p && r0[k] == A_NULL && verif_K > Pkey, "insert: the only link written is an EMPTY child slot of the parent"); }
            }
            ASSERT(changed == 1 && verif_tree.node == root0, "insert: exactly one link of the old tree is written");
        }
    }
    VERIF_CANARY();
}
