/* C19: integer square root, gcd, lcm of /repo/src/math.c */
#include "contracts/verif.h"
#include "src/math.c"

/* Start value + fast path of the Newton routine.  The loop contract (props/C19.py, loop 0 of
   a_u32_sqrt / a_u64_sqrt) carries the invariant "x1 is not below the root" in the division form
   x / (x1 + 1) < x1 + 1; only its *base case* (= the start value) is discharged here, the
   inductive step is the textbook integer-Newton lemma (listed as assumption). */
void h_sqrt32_start(void)
{
    a_u32 x = nondet_u32();
    a_u16 r = a_u32_sqrt(x);
    if (x <= 1) { ASSERT(r == x, "sqrt fast path: 0 -> 0, 1 -> 1"); }
    VERIF_CANARY();
}
void h_sqrt64_start(void)
{
    a_u64 x = nondet_u64();
    a_u32 r = a_u64_sqrt(x);
    if (x <= 1) { ASSERT(r == x, "sqrt fast path: 0 -> 0, 1 -> 1"); }
    VERIF_CANARY();
}

/* bounded end-to-end stand-ins (complete unwinding for the stated domain) */
#ifndef SQRT_BOUND
#define SQRT_BOUND 0x10000u
#endif
void h_sqrt32_bounded(void)
{
    a_u32 x = nondet_u32();
    ASSUME(x < SQRT_BOUND);
    a_u32 r = a_u32_sqrt(x);
    ASSERT(r * r <= x, "sqrt: r*r <= x");
    ASSERT((r + 1) * (r + 1) > x, "sqrt: (r+1)*(r+1) > x");
    VERIF_CANARY();
}
void h_sqrt64_bounded(void)
{
    a_u64 x = nondet_u64();
    ASSUME(x < SQRT_BOUND);
    a_u64 r = a_u64_sqrt(x);
    ASSERT(r * r <= x, "sqrt: r*r <= x");
    ASSERT((r + 1) * (r + 1) > x, "sqrt: (r+1)*(r+1) > x");
    VERIF_CANARY();
}

/* gcd: unbounded facts (termination by the loop contract's decreases clause, gcd(a,0)=a, gcd(0,b)=b) */
/* ghosts of the gcd range units: whether the arguments are not both zero, and their maximum (set by the harness
   before the call, named by the loop invariant of props/C19.py) */
unsigned long verif_gcd_nz, verif_gcd_max, verif_gcd_a0z, verif_gcd_b0;
void h_gcd32_range(void)
{
    a_u32 a = nondet_u32(), b = nondet_u32();
    verif_gcd_nz = (a != 0 || b != 0);
    verif_gcd_max = a > b ? a : b;
    verif_gcd_a0z = (a == 0);
    verif_gcd_b0 = b;
    a_u32 g = a_u32_gcd(a, b);
    ASSERT((g == 0) == (a == 0 && b == 0), "gcd is zero only for two zeros");
    ASSERT(g <= (a > b ? a : b), "gcd does not exceed the larger argument");
    if (a == 0) { ASSERT(g == b, "gcd(0,b) == b"); }
    VERIF_CANARY();
}
void h_gcd64_range(void)
{
    a_u64 a = nondet_u64(), b = nondet_u64();
    verif_gcd_nz = (a != 0 || b != 0);
    verif_gcd_max = a > b ? a : b;
    verif_gcd_a0z = (a == 0);
    verif_gcd_b0 = b;
    a_u64 g = a_u64_gcd(a, b);
    ASSERT((g == 0) == (a == 0 && b == 0), "gcd is zero only for two zeros");
    ASSERT(g <= (a > b ? a : b), "gcd does not exceed the larger argument");
    if (a == 0) { ASSERT(g == b, "gcd(0,b) == b"); }
    VERIF_CANARY();
}
void h_gcd32(void)
{
    a_u32 a = nondet_u32(), b = nondet_u32();
    a_u32 g = a_u32_gcd(a, b);
    if (b == 0) { ASSERT(g == a, "gcd(a,0) == a"); }
    VERIF_CANARY();
}
void h_gcd64(void)
{
    a_u64 a = nondet_u64(), b = nondet_u64();
    a_u64 g = a_u64_gcd(a, b);
    if (b == 0) { ASSERT(g == a, "gcd(a,0) == a"); }
    VERIF_CANARY();
}

/* gcd / lcm bounded: divisibility, maximality (ghost witness divisor d), lcm*gcd == a*b */
#ifndef GCD_BOUND
#define GCD_BOUND 64u
#endif
void h_gcdlcm32_bounded(void)
{
    a_u32 a = nondet_u32(), b = nondet_u32(), d = nondet_u32();
    ASSUME(a < GCD_BOUND && b < GCD_BOUND && d < GCD_BOUND);
    a_u32 g = a_u32_gcd(a, b);
    a_u32 l = a_u32_lcm(a, b);
    if (a == 0 && b == 0) { ASSERT(g == 0, "gcd(0,0) == 0"); }
    else
    {
        ASSERT(g != 0, "gcd is zero only for two zeros");
        ASSERT(a % g == 0 && b % g == 0, "gcd divides both arguments");
        if (d != 0 && a % d == 0 && b % d == 0) { ASSERT(g % d == 0 && d <= g, "every common divisor divides the gcd"); }
        ASSERT(l * g == a * b, "lcm * gcd == a * b (representable)");
    }
    if (a == 0 || b == 0) { ASSERT(l == 0, "lcm with a zero argument is 0"); }
    VERIF_CANARY();
}
void h_gcdlcm64_bounded(void)
{
    a_u64 a = nondet_u64(), b = nondet_u64(), d = nondet_u64();
    ASSUME(a < GCD_BOUND && b < GCD_BOUND && d < GCD_BOUND);
    a_u64 g = a_u64_gcd(a, b);
    a_u64 l = a_u64_lcm(a, b);
    if (a == 0 && b == 0) { ASSERT(g == 0, "gcd(0,0) == 0"); }
    else
    {
        ASSERT(g != 0, "gcd is zero only for two zeros");
        ASSERT(a % g == 0 && b % g == 0, "gcd divides both arguments");
        if (d != 0 && a % d == 0 && b % d == 0) { ASSERT(g % d == 0 && d <= g, "every common divisor divides the gcd"); }
        ASSERT(l * g == a * b, "lcm * gcd == a * b (representable)");
    }
    if (a == 0 || b == 0) { ASSERT(l == 0, "lcm with a zero argument is 0"); }
    VERIF_CANARY();
}

/* bounded stand-in over wide values: a = A * 2^s, b = B * 2^s with A, B < GCD_BOUND (the remainders
   of Euclid's loop then exceed 32 bits, so a narrowed intermediate is visible) */
#ifndef GCD_SHIFT
#define GCD_SHIFT 40
#endif
void h_gcdlcm64_scaled(void)
{
    a_u64 A = nondet_u64(), B = nondet_u64(), D = nondet_u64();
    ASSUME(A < GCD_BOUND && B < GCD_BOUND && D < GCD_BOUND && D != 0);
    a_u64 a = A << GCD_SHIFT, b = B << GCD_SHIFT, d = D << GCD_SHIFT;
    a_u64 g = a_u64_gcd(a, b);
    if (A == 0 && B == 0) { ASSERT(g == 0, "gcd(0,0) == 0"); }
    else
    {
        ASSERT(g != 0, "gcd is zero only for two zeros");
        ASSERT(a % g == 0 && b % g == 0, "gcd divides both arguments (wide values)");
        if (a % d == 0 && b % d == 0) { ASSERT(g % d == 0, "every common divisor divides the gcd (wide values)"); }
    }
    a_u64 l = a_u64_lcm(A << 20, B << 20);
    if (A != 0 && B != 0) { ASSERT(l % (A << 20) == 0 && l % (B << 20) == 0, "lcm is a common multiple (wide values)"); }
    VERIF_CANARY();
}

/* ---- [P] lcm against the contract of gcd (the callee is replaced by its contract: a caller is checked against the callee's
        contract, not its body): for ALL 64-bit (32-bit) argument pairs a_uNN_lcm consults the gcd of exactly its two full-width
        arguments once (a narrowed or different gcd call is visible for every argument pair), and returns 0 when that gcd is 0.  The value (a / g) * b is decided on the bounded domains only. ---- */
unsigned verif_gcd_calls;
a_u64 verif_gcd_a, verif_gcd_b, verif_gcd_g;
#ifndef VERIF_NATIVE
a_u64 contract_a_u64_gcd(a_u64 a, a_u64 b)
    __CPROVER_assigns(verif_gcd_calls, verif_gcd_a, verif_gcd_b)
    __CPROVER_ensures(verif_gcd_calls == __CPROVER_old(verif_gcd_calls) + 1 && verif_gcd_a == a && verif_gcd_b == b)
    __CPROVER_ensures(__CPROVER_return_value == verif_gcd_g);
a_u32 contract_a_u32_gcd(a_u32 a, a_u32 b)
    __CPROVER_assigns(verif_gcd_calls, verif_gcd_a, verif_gcd_b)
    __CPROVER_ensures(verif_gcd_calls == __CPROVER_old(verif_gcd_calls) + 1 && verif_gcd_a == a && verif_gcd_b == b)
    __CPROVER_ensures(__CPROVER_return_value == (a_u32)verif_gcd_g);
#endif
void h_lcm64_protocol(void)
{
    ND(a_u64, a, u64); ND(a_u64, b, u64); ND(a_u64, g, u64);
    /* g: whatever the gcd routine returns (its own contract - divides both, zero only for two zeros - is not needed for this step) */
    verif_gcd_calls = 0; verif_gcd_g = g;
    a_u64 l = a_u64_lcm(a, b);
    ASSERT(verif_gcd_calls == 1 && verif_gcd_a == a && verif_gcd_b == b, "lcm64: consults the 64-bit gcd of its two full-width arguments, once");
    if (g == 0) { ASSERT(l == 0, "lcm64: 0 when the gcd is 0"); } /* the value (a / g) * b for g != 0 needs two divider/multiplier circuits proved equal - out of the solvers' reach; bounded units */
    if (a == 0 || b == 0) { ASSERT(l == 0, "lcm64: 0 when an argument is 0, whatever the gcd routine returns"); }
    VERIF_CANARY();
}
void h_lcm32_protocol(void)
{
    ND(a_u32, a, u32); ND(a_u32, b, u32); ND(a_u32, g, u32);
    verif_gcd_calls = 0; verif_gcd_g = g;
    a_u32 l = a_u32_lcm(a, b);
    ASSERT(verif_gcd_calls == 1 && verif_gcd_a == a && verif_gcd_b == b, "lcm32: consults the gcd of its two arguments, once");
    if (g == 0) { ASSERT(l == 0, "lcm32: 0 when the gcd is 0"); }
    if (a == 0 || b == 0) { ASSERT(l == 0, "lcm32: 0 when an argument is 0, whatever the gcd routine returns"); }
    VERIF_CANARY();
}

/* ---- [B] 32-bit lcm where a * b wraps although the lcm is representable: a = A * 2^15, b = B * 2^15, A, B < GCD_BOUND
        (a * b = A*B*2^30 >= 2^32 from A*B >= 4; lcm = lcm(A,B) * 2^15 < 2^25).  An unbounded statement "l == (a / g) * b" with the gcd
        replaced by its contract was tried for g = 2^k: two divider/multiplier circuits, no answer in 300 s (32 and 64 bit). ---- */
void h_lcm32_scaled(void)
{
    a_u32 A = nondet_u32(), B = nondet_u32();
    ASSUME(A < GCD_BOUND && B < GCD_BOUND && A != 0 && B != 0);
    a_u32 a = A << 15, b = B << 15;
    a_u32 g = a_u32_gcd(a, b), l = a_u32_lcm(a, b), l2 = a_u32_lcm(b, a);
    ASSERT(l % a == 0 && l % b == 0, "lcm32 is a common multiple (product above 2^32)");
    ASSERT((a_u64)l * g == (a_u64)a * b && l2 == l, "lcm32 * gcd32 == a * b as 64-bit numbers (product above 2^32, lcm representable), symmetric");
    VERIF_CANARY();
}

/* ---- [B] lcm on wide values: a = A * 2^33 (above 32 bits), b = B, A, B < GCD_BOUND: lcm * gcd == a * b, common multiple ---- */
void h_lcm64_wide(void)
{
    a_u64 A = nondet_u64(), B = nondet_u64();
    ASSUME(A < GCD_BOUND && B < GCD_BOUND && A != 0 && B != 0);
    a_u64 a = A << 33, b = B;
    a_u64 g = a_u64_gcd(a, b), l = a_u64_lcm(a, b), l2 = a_u64_lcm(b, a);
    ASSERT(l % a == 0 && l % b == 0, "lcm is a common multiple (one argument above 2^32)");
    ASSERT(l * g == a * b && l2 == l, "lcm * gcd == a * b (one argument above 2^32, product representable), symmetric");
    VERIF_CANARY();
}

/* ---- [B] square root around perfect squares of every magnitude: n = 2^k + j and n = 2^k - 1 - j (j < 4, every k): the root of
        n^2 - 1 is n - 1, of n^2 is n, of n^2 + 2n (the last value below (n+1)^2) is n ---- */
void h_sqrt64_squares(void)
{
    ND(unsigned, j, u32); ND(unsigned, k, u32);
#ifdef BELOW
    _Bool const below = BELOW;
#else
    ND(_Bool, below, bool);
#endif
    ASSUME(j < 4 && 2 <= k && k <= 32);
    int ok0, ok1, ok2;
    a_u64 n = below ? ((a_u64)1 << k) - 1 - j : ((a_u64)1 << k) + j;
    ASSUME((n >> 32) == 0 && n >= 1);
    ok0 = a_u64_sqrt(n * n) == n;
    ok1 = a_u64_sqrt(n * n - 1) == n - 1;
    ok2 = a_u64_sqrt(n * n + 2 * n) == n;
    ASSERT(ok0, "sqrt64: the root of n^2 is n (n = 2^k + j, 2^k - 1 - j)");
    ASSERT(ok1, "sqrt64: the root of n^2 - 1 is n - 1");
    ASSERT(ok2, "sqrt64: the root of n^2 + 2n = (n+1)^2 - 1 is n");
    VERIF_CANARY();
}
void h_sqrt32_squares(void)
{
    ND(unsigned, j, u32); ND(_Bool, below, bool); ND(unsigned, k, u32);
    ASSUME(j < 4 && 2 <= k && k <= 16);
    int ok0, ok1, ok2;
    a_u32 n = below ? ((a_u32)1 << k) - 1 - j : ((a_u32)1 << k) + j;
    ASSUME((n >> 16) == 0 && n >= 1);
    ok0 = a_u32_sqrt(n * n) == n;
    ok1 = a_u32_sqrt(n * n - 1) == n - 1;
    ok2 = a_u32_sqrt(n * n + 2 * n) == n;
    ASSERT(ok0, "sqrt32: the root of n^2 is n (n = 2^k + j, 2^k - 1 - j)");
    ASSERT(ok1, "sqrt32: the root of n^2 - 1 is n - 1");
    ASSERT(ok2, "sqrt32: the root of n^2 + 2n = (n+1)^2 - 1 is n");
    VERIF_CANARY();
}
