/* C19: integer square root, gcd, lcm of /repo/src/math.c */
#include "contracts/verif.h"
#include "src/math.c"

/* Start value + fast path of the Newton routine.  The loop contract (props/C19.py, loop 0 of
   a_u32_sqrt / a_u64_sqrt) carries the invariant "x1 is not below the root" in the division form
   x / (x1 + 1) < x1 + 1; only its *base case* (= the start value) is discharged here, the
   inductive step is the textbook integer-Newton lemma (listed as assumption). */
void h_sqrt32_start(void)
{
    a_u32 x = nondet_u32();
    a_u16 r = a_u32_sqrt(x);
    if (x <= 1) { ASSERT(r == x, "sqrt fast path: 0 -> 0, 1 -> 1"); }
    VERIF_CANARY();
}
void h_sqrt64_start(void)
{
    a_u64 x = nondet_u64();
    a_u32 r = a_u64_sqrt(x);
    if (x <= 1) { ASSERT(r == x, "sqrt fast path: 0 -> 0, 1 -> 1"); }
    VERIF_CANARY();
}

/* bounded end-to-end stand-ins (complete unwinding for the stated domain) */
#ifndef SQRT_BOUND
#define SQRT_BOUND 0x10000u
#endif
void h_sqrt32_bounded(void)
{
    a_u32 x = nondet_u32();
    ASSUME(x < SQRT_BOUND);
    a_u32 r = a_u32_sqrt(x);
    ASSERT(r * r <= x, "sqrt: r*r <= x");
    ASSERT((r + 1) * (r + 1) > x, "sqrt: (r+1)*(r+1) > x");
    VERIF_CANARY();
}
void h_sqrt64_bounded(void)
{
    a_u64 x = nondet_u64();
    ASSUME(x < SQRT_BOUND);
    a_u64 r = a_u64_sqrt(x);
    ASSERT(r * r <= x, "sqrt: r*r <= x");
    ASSERT((r + 1) * (r + 1) > x, "sqrt: (r+1)*(r+1) > x");
    VERIF_CANARY();
}

/* gcd: unbounded facts (termination by the loop contract's decreases clause, gcd(a,0)=a, gcd(0,b)=b) */
void h_gcd32(void)
{
    a_u32 a = nondet_u32(), b = nondet_u32();
    a_u32 g = a_u32_gcd(a, b);
    if (b == 0) { ASSERT(g == a, "gcd(a,0) == a"); }
    VERIF_CANARY();
}
void h_gcd64(void)
{
    a_u64 a = nondet_u64(), b = nondet_u64();
    a_u64 g = a_u64_gcd(a, b);
    if (b == 0) { ASSERT(g == a, "gcd(a,0) == a"); }
    VERIF_CANARY();
}

/* gcd / lcm bounded: divisibility, maximality (ghost witness divisor d), lcm*gcd == a*b */
#ifndef GCD_BOUND
#define GCD_BOUND 64u
#endif
void h_gcdlcm32_bounded(void)
{
    a_u32 a = nondet_u32(), b = nondet_u32(), d = nondet_u32();
    ASSUME(a < GCD_BOUND && b < GCD_BOUND && d < GCD_BOUND);
    a_u32 g = a_u32_gcd(a, b);
    a_u32 l = a_u32_lcm(a, b);
    if (a == 0 && b == 0) { ASSERT(g == 0, "gcd(0,0) == 0"); }
    else
    {
        ASSERT(g != 0, "gcd is zero only for two zeros");
        ASSERT(a % g == 0 && b % g == 0, "gcd divides both arguments");
        if (d != 0 && a % d == 0 && b % d == 0) { ASSERT(g % d == 0 && d <= g, "every common divisor divides the gcd"); }
        ASSERT(l * g == a * b, "lcm * gcd == a * b (representable)");
    }
    if (a == 0 || b == 0) { ASSERT(l == 0, "lcm with a zero argument is 0"); }
    VERIF_CANARY();
}
void h_gcdlcm64_bounded(void)
{
    a_u64 a = nondet_u64(), b = nondet_u64(), d = nondet_u64();
    ASSUME(a < GCD_BOUND && b < GCD_BOUND && d < GCD_BOUND);
    a_u64 g = a_u64_gcd(a, b);
    a_u64 l = a_u64_lcm(a, b);
    if (a == 0 && b == 0) { ASSERT(g == 0, "gcd(0,0) == 0"); }
    else
    {
        ASSERT(g != 0, "gcd is zero only for two zeros");
        ASSERT(a % g == 0 && b % g == 0, "gcd divides both arguments");
        if (d != 0 && a % d == 0 && b % d == 0) { ASSERT(g % d == 0 && d <= g, "every common divisor divides the gcd"); }
        ASSERT(l * g == a * b, "lcm * gcd == a * b (representable)");
    }
    if (a == 0 || b == 0) { ASSERT(l == 0, "lcm with a zero argument is 0"); }
    VERIF_CANARY();
}

/* bounded stand-in over wide values: a = A * 2^s, b = B * 2^s with A, B < GCD_BOUND (the remainders
   of Euclid's loop then exceed 32 bits, so a narrowed intermediate is visible) */
#ifndef GCD_SHIFT
#define GCD_SHIFT 40
#endif
void h_gcdlcm64_scaled(void)
{
    a_u64 A = nondet_u64(), B = nondet_u64(), D = nondet_u64();
    ASSUME(A < GCD_BOUND && B < GCD_BOUND && D < GCD_BOUND && D != 0);
    a_u64 a = A << GCD_SHIFT, b = B << GCD_SHIFT, d = D << GCD_SHIFT;
    a_u64 g = a_u64_gcd(a, b);
    if (A == 0 && B == 0) { ASSERT(g == 0, "gcd(0,0) == 0"); }
    else
    {
        ASSERT(g != 0, "gcd is zero only for two zeros");
        ASSERT(a % g == 0 && b % g == 0, "gcd divides both arguments (wide values)");
        if (a % d == 0 && b % d == 0) { ASSERT(g % d == 0, "every common divisor divides the gcd (wide values)"); }
    }
    a_u64 l = a_u64_lcm(A << 20, B << 20);
    if (A != 0 && B != 0) { ASSERT(l % (A << 20) == 0 && l % (B << 20) == 0, "lcm is a common multiple (wide values)"); }
    VERIF_CANARY();
}
