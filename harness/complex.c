/* C10: complex arithmetic and functions (src/complex.c, include/a/complex.h, constants of include/a/math.h).
   Build configuration: config/a.verif.h, every A_HAVE_* switch OFF -> the library's own FALLBACK bodies of
   a_complex_sqrt_/pow_/exp_/log_/sin_..atanh_ are the text under verification.
   The real libm functions AND the real helpers of src/math.c that complex.c calls in this configuration
   (a_real_hypot = a_real_norm2, a_real_atan2, a_real_log1p, a_real_acosh, a_real_atanh: C11's subject) are
   replaced by ASSUMED CONTRACTS: deterministic (uninterpreted function of the argument) + ISO C sign/range facts.
   In the native replay build (-DVERIF_NATIVE) the same harness runs against libm and src/math.c. */
#include "contracts/verif.h"
#include "a/math.h"
#include "a/complex.h"

#define ISNAN(x) ((x) != (x))
#define FINITE(x) ((x) - (x) == 0)
#define BIG 0x1p500 /* |inputs| <= 2^500: sums, differences and squares of inputs cannot overflow */
#define INR(x) (FINITE(x) && -BIG <= (x) && (x) <= BIG)
#define TINY 0x1p-500
#define NZ(a, b) ((a) >= TINY || (a) <= -TINY || (b) >= TINY || (b) <= -TINY) /* max(|a|,|b|) >= 2^-500: 1/|z| cannot overflow */
/* IEEE equality with NaN == NaN; functions, so that every operand expression is evaluated exactly once */
static int SAME(double a, double b) { return a == b || (ISNAN(a) && ISNAN(b)); }
#define CSAME(z, re, im) csame_((z).real, (z).imag, re, im)
static int csame_(double zr, double zi, double re, double im) { return SAME(zr, re) && SAME(zi, im); }
/* the reference constants, written independently of a/math.h (correctly rounded binary64 values) */
#define S_PI 0x1.921fb54442d18p+1
#define S_PI_2 0x1.921fb54442d18p+0
#define S_SQRT1_2 0x1.6a09e667f3bcdp-1
#define S_1_LN2 0x1.71547652b82fep+0  /* 1/ln(2)  = 1.44269504088896340736 */
#define S_1_LN10 0x1.bcb7b1526e50ep-2 /* 1/ln(10) = 0.43429448190325182765 */

#ifndef VERIF_NATIVE
/* ---- assumed contracts (trusted base): r = F(x) for an uninterpreted F, plus ISO C / IEEE facts only ---- */
#define UF1(n) double __CPROVER_uninterpreted_##n(double)
#define UF2(n) double __CPROVER_uninterpreted_##n(double, double)
UF1(sqrt); UF1(exp); UF1(log); UF1(log1p); UF1(sin); UF1(cos); UF1(sinh); UF1(cosh); UF1(tanh);
UF1(asin); UF1(acos); UF1(atan); UF1(acosh); UF1(atanh); UF2(pow); UF2(atan2); UF2(hypot);
#define STUB1(name, uf, contract) double name(double x) { double r = __CPROVER_uninterpreted_##uf(x); __CPROVER_assume(contract); return r; }
/* sqrt: NaN below 0; otherwise >= 0, zero only at zero and then with the sign of the argument (sqrt(+-0) = +-0, F.10.4.5), between 1 and x
   (so sqrt(1) == 1), not below 2^-537 (IEEE squareRoot) */
STUB1(sqrt, sqrt, (ISNAN(x) || x < 0) ? ISNAN(r) : (r >= 0 && (x == 0) == (r == 0) && (x >= 1 ? (1 <= r && r <= x) : (x <= r && r <= 1)) && (x == 0 ? __CPROVER_signd(r) == __CPROVER_signd(x) : r >= 0x1p-537)))
/* exp: never negative, exp(0) == 1, >= 1 right of 0, <= 1 left of 0, positive unless the argument is below -700 */
STUB1(exp, exp, ISNAN(x) ? ISNAN(r) : (r >= 0 && (x != 0 || r == 1) && (x < 0 || r >= 1) && (x > 0 || r <= 1) && (x < -700 || r > 0) && (x > 700 || FINITE(r))))
/* log: NaN below 0, -inf at 0, sign follows x - 1, finite for finite positive x */
STUB1(log, log, (ISNAN(x) || x < 0) ? ISNAN(r) : (x == 0 ? (r < 0 && !FINITE(r)) : (!ISNAN(r) && (x > 1) == (r > 0) && (x < 1) == (r < 0) && (!FINITE(x) || FINITE(r)))))
/* log1p (a_real_log1p of src/math.c in this configuration): sign of the argument on (-1, inf), finite there */
STUB1(a_real_log1p, log1p, (ISNAN(x) || x < -1) ? ISNAN(r) : (x == -1 ? (r < 0 && !FINITE(r)) : (!ISNAN(r) && (x > 0) == (r > 0) && (x < 0) == (r < 0) && (!FINITE(x) || FINITE(r)))))
STUB1(sin, sin, !FINITE(x) ? ISNAN(r) : (-1 <= r && r <= 1 && (x != 0 || r == 0)))
STUB1(cos, cos, !FINITE(x) ? ISNAN(r) : (-1 <= r && r <= 1 && (x != 0 || r == 1)))
STUB1(sinh, sinh, ISNAN(x) ? ISNAN(r) : ((x > 0) == (r > 0) && (x < 0) == (r < 0)))
STUB1(cosh, cosh, ISNAN(x) ? ISNAN(r) : (r >= 1 && (x != 0 || r == 1)))
STUB1(tanh, tanh, ISNAN(x) ? ISNAN(r) : (-1 <= r && r <= 1 && (x > 0) == (r > 0) && (x < 0) == (r < 0)))
/* asin: [-pi/2, pi/2] with the sign of the argument; acos: [0, pi], <= pi/2 right of 0, >= pi/2 left of 0, acos(1) == 0 */
STUB1(asin, asin, (ISNAN(x) || x < -1 || x > 1) ? ISNAN(r) : (-S_PI_2 <= r && r <= S_PI_2 && (x > 0) == (r > 0) && (x < 0) == (r < 0)))
STUB1(acos, acos, (ISNAN(x) || x < -1 || x > 1) ? ISNAN(r) : (0 <= r && r <= S_PI && (x < 0 || r <= S_PI_2) && (x > 0 || r >= S_PI_2) && (x != 1 || r == 0)))
STUB1(atan, atan, ISNAN(x) ? ISNAN(r) : (-S_PI_2 <= r && r <= S_PI_2 && (x > 0) == (r > 0) && (x < 0) == (r < 0)))
/* acosh (a_real_acosh of src/math.c): NaN below 1, >= 0, zero only at 1, finite for finite x */
STUB1(a_real_acosh, acosh, (ISNAN(x) || x < 1) ? ISNAN(r) : (r >= 0 && (x == 1) == (r == 0) && (!FINITE(x) || FINITE(r))))
/* atanh (a_real_atanh of src/math.c): NaN outside [-1,1], sign of the argument, infinite exactly at +-1 */
STUB1(a_real_atanh, atanh, (ISNAN(x) || x < -1 || x > 1) ? ISNAN(r) : (!ISNAN(r) && (x > 0) == (r > 0) && (x < 0) == (r < 0) && (x == 1 || x == -1) == !FINITE(r)))
double pow(double x, double y)
{
    double r = __CPROVER_uninterpreted_pow(x, y);
    __CPROVER_assume(!(y == 2 && !ISNAN(x)) || r >= 0); /* an even power is never negative */
    return r;
}
/* atan2 (a_real_atan2 of src/math.c): [-pi, pi], half plane of y, |r| <= pi/2 iff x >= 0; exact axis values for y == 0 < x and (0,0) */
double a_real_atan2(double y, double x)
{
    double r = __CPROVER_uninterpreted_atan2(y, x);
    __CPROVER_assume((ISNAN(x) || ISNAN(y)) ? ISNAN(r)
        : (-S_PI <= r && r <= S_PI && (y <= 0 || r >= 0) && (y >= 0 || r <= 0) && (x <= 0 || (-S_PI_2 <= r && r <= S_PI_2)) &&
           (x >= 0 || r >= S_PI_2 || r <= -S_PI_2) && (!(y == 0 && x >= 0) || r == 0)));
    return r;
}
/* hypot (a_real_hypot = a_real_norm2 of src/math.c): even in both arguments, hypot(x, +-0) == |x| (ISO C F.10.4.3),
   max(|x|,|y|) <= r <= 2 max(|x|,|y|) */
double a_real_norm2(double x, double y)
{
    double ax = fabs(x), ay = fabs(y), m = ax < ay ? ay : ax;
    double r = __CPROVER_uninterpreted_hypot(ax, ay);
    __CPROVER_assume((ISNAN(x) || ISNAN(y)) ? ISNAN(r) : (m <= r && r <= 2 * m && (ay != 0 || r == ax) && (ax != 0 || r == ay)));
    return r;
}
/* ---- contracts used ONLY to replace a callee inside a composition (units asinh .. acoth, wrappers_d .. g): the callee is a
   deterministic function of *ctx and writes only *ctx; its own behaviour is the subject of the units asin, acos, atan, ... ---- */
#define SAMEX(a, b) ((a) == (b) || ((a) != (a) && (b) != (b)))
#define CUF(f)                                                                                                                 \
    double __CPROVER_uninterpreted_c##f##_re(double, double);                                                                  \
    double __CPROVER_uninterpreted_c##f##_im(double, double);                                                                  \
    void contract_##f##_(a_complex *ctx)                                                                                       \
        __CPROVER_requires(__CPROVER_rw_ok(ctx, sizeof(*ctx)))                                                                 \
        __CPROVER_assigns(ctx->real, ctx->imag)                                                                                \
        __CPROVER_ensures(SAMEX(ctx->real, __CPROVER_uninterpreted_c##f##_re(__CPROVER_old(ctx->real), __CPROVER_old(ctx->imag))) && \
                          SAMEX(ctx->imag, __CPROVER_uninterpreted_c##f##_im(__CPROVER_old(ctx->real), __CPROVER_old(ctx->imag))));
CUF(asin) CUF(acos) CUF(atan) CUF(asinh) CUF(acosh) CUF(atanh)
CUF(sqrt) CUF(exp) CUF(log) CUF(log2) CUF(log10) CUF(proj) CUF(sin) CUF(cos) CUF(tan) CUF(sec) CUF(csc) CUF(cot)
CUF(sinh) CUF(cosh) CUF(tanh) CUF(sech) CUF(csch) CUF(coth) CUF(asec) CUF(acsc) CUF(acot) CUF(asech) CUF(acsch) CUF(acoth)
/* the same for the in-place functions with a second operand */
#define CUFX(f, T, A1, A2)                                                                                                     \
    double __CPROVER_uninterpreted_c##f##_re(double, double, double, double);                                                  \
    double __CPROVER_uninterpreted_c##f##_im(double, double, double, double);                                                  \
    void contract_##f##_(a_complex *ctx, T a)                                                                                  \
        __CPROVER_requires(__CPROVER_rw_ok(ctx, sizeof(*ctx)))                                                                 \
        __CPROVER_assigns(ctx->real, ctx->imag)                                                                                \
        __CPROVER_ensures(SAMEX(ctx->real, __CPROVER_uninterpreted_c##f##_re(__CPROVER_old(ctx->real), __CPROVER_old(ctx->imag), A1, A2)) && \
                          SAMEX(ctx->imag, __CPROVER_uninterpreted_c##f##_im(__CPROVER_old(ctx->real), __CPROVER_old(ctx->imag), A1, A2)));
CUFX(pow, a_complex, a.real, a.imag) CUFX(logb, a_complex, a.real, a.imag) CUFX(pow_real, a_real, a, 0)
#endif /* !VERIF_NATIVE */

#include "src/complex.c"

/* vacuity guard of the heavy units: reachable at a named witness input (the solver need not search a model of the whole body) */
#ifndef VERIF_NATIVE
#define CANARY_AT(c) do { if (c) { VERIF_CANARY(); } } while (0)
#else
#define CANARY_AT(c) VERIF_CANARY()
#endif
#define Z2(z, re, im) a_complex z; (z).real = (re); (z).imag = (im)
#define IN2(a, b) ND(a_real, a, double); ND(a_real, b, double)

/* =====================================================================================================
   constants
   ===================================================================================================== */
void h_const_pi(void)
{
    ASSERT(A_REAL_PI == S_PI, "const: A_REAL_PI is pi rounded to binary64");
    ASSERT(A_REAL_PI_2 == S_PI_2, "const: A_REAL_PI_2 is pi/2 rounded to binary64");
    ASSERT(A_REAL_PI_2 * 2 == A_REAL_PI && A_REAL_PI - A_REAL_PI_2 == A_REAL_PI_2, "const: pi and pi/2 are consistent (pi - pi/2 == pi/2 exactly)");
    ASSERT(A_REAL_PI_4 * 2 == A_REAL_PI_2 && A_REAL_C(0.5) * A_REAL_PI_2 == A_REAL_PI_4, "const: A_REAL_PI_4 is half of A_REAL_PI_2 exactly");
    ASSERT(A_REAL_SQRT1_2 == S_SQRT1_2, "const: A_REAL_SQRT1_2 is 1/sqrt(2) rounded to binary64");
    VERIF_CANARY();
}
void h_const_log(void)
{
    ASSERT(A_REAL_LN1_10 == S_1_LN10, "const: A_REAL_LN1_10 (factor of a_complex_log10_) is 1/ln(10) rounded to binary64");
    ASSERT(A_REAL_LN1_2 == S_1_LN2, "const: A_REAL_LN1_2 (factor of a_complex_log2_) is 1/ln(2) rounded to binary64");
    VERIF_CANARY();
}

/* =====================================================================================================
   field arithmetic
   ===================================================================================================== */
void h_arith_addsub(void)
{
    IN2(a, b); IN2(c, d); ND(a_real, y, double);
    ASSUME(FINITE(a) && FINITE(b) && FINITE(c) && FINITE(d) && FINITE(y));
    Z2(x, a, b); Z2(z, c, d); a_complex r;
    a_complex_rect(&r, a, b); ASSERT(r.real == a && r.imag == b, "rect: (re, im)");
    ASSERT(a_complex_eq(x, z) == (a == c && b == d) && a_complex_ne(x, z) == !(a == c && b == d), "eq/ne: componentwise");
    a_complex_add(&r, x, z); ASSERT(r.real == a + c && r.imag == b + d, "add: (a+c) + (b+d)i");
    r = x; a_complex_add_(&r, z); ASSERT(r.real == a + c && r.imag == b + d, "add_: (a+c) + (b+d)i");
    a_complex_sub(&r, x, z); ASSERT(r.real == a - c && r.imag == b - d, "sub: (a-c) + (b-d)i");
    r = x; a_complex_sub_(&r, z); ASSERT(r.real == a - c && r.imag == b - d, "sub_: (a-c) + (b-d)i");
    a_complex_add_real(&r, x, y); ASSERT(r.real == a + y && r.imag == b, "add_real: (a+y) + bi");
    r = x; a_complex_add_real_(&r, y); ASSERT(r.real == a + y && r.imag == b, "add_real_: (a+y) + bi");
    a_complex_add_imag(&r, x, y); ASSERT(r.real == a && r.imag == b + y, "add_imag: a + (b+y)i");
    r = x; a_complex_add_imag_(&r, y); ASSERT(r.real == a && r.imag == b + y, "add_imag_: a + (b+y)i");
    a_complex_sub_real(&r, x, y); ASSERT(r.real == a - y && r.imag == b, "sub_real: (a-y) + bi");
    r = x; a_complex_sub_real_(&r, y); ASSERT(r.real == a - y && r.imag == b, "sub_real_: (a-y) + bi");
    a_complex_sub_imag(&r, x, y); ASSERT(r.real == a && r.imag == b - y, "sub_imag: a + (b-y)i");
    r = x; a_complex_sub_imag_(&r, y); ASSERT(r.real == a && r.imag == b - y, "sub_imag_: a + (b-y)i");
    a_complex_conj(&r, x); ASSERT(r.real == a && r.imag == -b, "conj: a - bi");
    r = x; a_complex_conj_(&r); ASSERT(r.real == a && r.imag == -b, "conj_: a - bi");
    a_complex_neg(&r, x); ASSERT(r.real == -a && r.imag == -b, "neg: -a - bi");
    r = x; a_complex_neg_(&r); ASSERT(r.real == -a && r.imag == -b, "neg_: -a - bi");
    VERIF_CANARY();
}
/* (a+bi)(c+di) = (ac - bd) + (ad + bc)i as IEEE expressions, all finite operands (overflow -> inf/NaN compared as such) */
void h_arith_mul(void)
{
    IN2(a, b); IN2(c, d);
    ASSUME(FINITE(a) && FINITE(b) && FINITE(c) && FINITE(d));
    Z2(x, a, b); Z2(z, c, d); a_complex r;
    r = x; a_complex_mul_(&r, z);
    ASSERT(SAME(r.real, a * c - b * d), "mul_: Re = ac - bd");
    ASSERT(SAME(r.imag, a * d + b * c), "mul_: Im = ad + bc");
    a_complex_mul(&r, x, z);
    ASSERT(SAME(r.real, a * c - b * d) && SAME(r.imag, a * d + b * c), "mul: (ac - bd) + (ad + bc)i");
    VERIF_CANARY();
}
/* the same on the exact domain, against integer arithmetic (independent of the association chosen by the code) */
void h_arith_mul_exact(void)
{
    ND(int, ia, int); ND(int, ib, int); ND(int, ic, int); ND(int, id, int);
    ASSUME(-8 <= ia && ia <= 8 && -8 <= ib && ib <= 8 && -8 <= ic && ic <= 8 && -8 <= id && id <= 8);
    Z2(x, ia, ib); Z2(z, ic, id);
    a_complex_mul_(&x, z);
    ASSERT(x.real == (a_real)(ia * ic - ib * id), "mul_ (integers): Re = ac - bd exactly");
    ASSERT(x.imag == (a_real)(ia * id + ib * ic), "mul_ (integers): Im = ad + bc exactly");
    VERIF_CANARY();
}
/* scalar forms: z*y, z*(iy) = -by + ay i, z/y */
void h_arith_scalar(void)
{
    IN2(a, b); ND(a_real, y, double);
    ASSUME(FINITE(a) && FINITE(b) && FINITE(y));
    Z2(x, a, b); a_complex r;
    a_complex_mul_real(&r, x, y); ASSERT(CSAME(r, a * y, b * y), "mul_real: ay + by i");
    r = x; a_complex_mul_real_(&r, y); ASSERT(CSAME(r, a * y, b * y), "mul_real_: ay + by i");
    a_complex_mul_imag(&r, x, y); ASSERT(CSAME(r, -b * y, a * y), "mul_imag: (a+bi)(iy) = -by + ay i");
    r = x; a_complex_mul_imag_(&r, y); ASSERT(CSAME(r, -b * y, a * y), "mul_imag_: (a+bi)(iy) = -by + ay i");
    a_complex_div_real(&r, x, y); ASSERT(CSAME(r, a / y, b / y), "div_real: a/y + (b/y) i");
    r = x; a_complex_div_real_(&r, y); ASSERT(CSAME(r, a / y, b / y), "div_real_: a/y + (b/y) i");
    VERIF_CANARY();
}
/* (a+bi)/(iy) = (b - ai)/y */
void h_arith_div_imag(void)
{
    IN2(a, b); ND(a_real, y, double);
    ASSUME(FINITE(a) && FINITE(b) && FINITE(y) && y != 0);
    Z2(x, a, b); a_complex r;
    a_complex_div_imag(&r, x, y); ASSERT(CSAME(r, b / y, -a / y), "div_imag: (a+bi)/(iy) = b/y - (a/y) i");
    r = x; a_complex_div_imag_(&r, y); ASSERT(CSAME(r, b / y, -a / y), "div_imag_: (a+bi)/(iy) = b/y - (a/y) i");
    /* dividing by iy undoes multiplying by iy on the exact domain (y a power of two): */
    if (y == 2 && INR(a) && INR(b))
    {
        a_complex_mul_imag(&r, x, y); a_complex_div_imag_(&r, y);
        ASSERT(r.real == a && r.imag == b, "div_imag_ undoes mul_imag (y = 2, exact)");
    }
    VERIF_CANARY();
}
/* 1/z: sign / zero structure and the field formula conj(z)/|z|^2 evaluated as (1/|z|) * x * (1/|z|) */
void h_arith_inv(void)
{
    IN2(a, b);
    ASSUME(INR(a) && INR(b) && NZ(a, b));
    Z2(z, a, b); a_complex r;
    a_real const inv = 1 / a_complex_abs(z);
    r = z; a_complex_inv_(&r);
    ASSERT(!ISNAN(r.real) && !ISNAN(r.imag), "inv_: never NaN for 2^-500 <= |z| <= 2^500");
    ASSERT((a < 0 || r.real >= 0) && (a > 0 || r.real <= 0), "inv_: Re(1/z) has the sign of Re z (or is zero)");
    ASSERT((b < 0 || r.imag <= 0) && (b > 0 || r.imag >= 0), "inv_: Im(1/z) has the opposite sign of Im z (or is zero)");
    ASSERT(r.real == inv * a * inv && r.imag == -inv * b * inv, "inv_: (a/|z|)/|z| - (b/|z|)/|z| i with the scaling applied factor by factor");
    a_complex_inv(&r, z);
    ASSERT(r.real == inv * a * inv && r.imag == -inv * b * inv, "inv: same as inv_");
    VERIF_CANARY();
}
/* 2^e as a binary64 value built from its bit pattern, -1022 <= e <= 1023 (exact domain of the reciprocal) */
static a_real pow2(int e)
{
    union { a_real d; unsigned long u; } v;
    v.u = (unsigned long)(e + 1023) << 52;
    return v.d;
}
/* magnitudes from tiny to large: z = +-2^e or +-2^e i, |e| <= 1000: the reciprocal is exactly +-2^-e, never 0/inf/NaN */
void h_arith_inv_pow2(void)
{
    ND(int, e, int); ND(_Bool, neg, bool); ND(_Bool, onimag, bool);
    ASSUME(-1000 <= e && e <= 1000);
    a_real const p = neg ? -pow2(e) : pow2(e), q = neg ? -pow2(-e) : pow2(-e);
    Z2(z, onimag ? 0 : p, onimag ? p : 0);
    a_complex_inv_(&z);
    ASSERT(FINITE(z.real) && FINITE(z.imag) && (z.real != 0 || z.imag != 0), "inv_ (|z| = 2^e, e in [-1000,1000]): result is finite and not zero (no intermediate over/underflow)");
    if (onimag) { ASSERT(z.real == 0 && z.imag == -q, "inv_ (z = +-2^e i): exactly -+2^-e i"); }
    else { ASSERT(z.real == q && z.imag == 0, "inv_ (z = +-2^e): exactly +-2^-e"); }
    VERIF_CANARY();
}
/* x/z: field formula x conj(z)/|z|^2 with both operands scaled by 1/|z| first; zero numerator */
void h_arith_div(void)
{
    IN2(a, b); IN2(c, d);
    ASSUME(INR(a) && INR(b) && INR(c) && INR(d) && NZ(c, d));
    Z2(x, a, b); Z2(z, c, d); a_complex r;
    a_real const inv = 1 / a_complex_abs(z);
    a_real const xr = a * inv, xi = b * inv, yr = c * inv, yi = d * inv;
    r = x; a_complex_div_(&r, z);
    ASSERT(SAME(r.real, xr * yr + xi * yi), "div_: Re = (a c + b d)/|z|^2 with a, b, c, d each scaled by 1/|z|");
    ASSERT(SAME(r.imag, xi * yr - xr * yi), "div_: Im = (b c - a d)/|z|^2 with a, b, c, d each scaled by 1/|z|");
    if (a == 0 && b == 0) { ASSERT(r.real == 0 && r.imag == 0, "div_: 0/z = 0"); }
    a_complex_div(&r, x, z);
    ASSERT(SAME(r.real, xr * yr + xi * yi) && SAME(r.imag, xi * yr - xr * yi), "div: same as div_");
    VERIF_CANARY();
}
/* exact domain: divisor +-2^e on either axis, numerator parts zero or of magnitude in [2^-100, 2^100] (the scaling by 2^-e is
   exact): the quotient is the textbook value exactly */
#define MOD(x) ((x) == 0 || (0x1p-100 <= (x) && (x) <= 0x1p100) || (-0x1p100 <= (x) && (x) <= -0x1p-100))
void h_arith_div_exact(void)
{
    IN2(a, b); ND(int, e, int); ND(_Bool, neg, bool); ND(_Bool, onimag, bool);
    ASSUME(MOD(a) && MOD(b) && -900 <= e && e <= 900);
    a_real const p = neg ? -pow2(e) : pow2(e);
    Z2(x, a, b); Z2(z, onimag ? 0 : p, onimag ? p : 0);
    a_complex_div_(&x, z);
    if (onimag) { ASSERT(x.real == b / p && x.imag == -a / p, "div_ (divisor +-2^e i): (a+bi)/(pi) = b/p - (a/p) i exactly"); }
    else { ASSERT(x.real == a / p && x.imag == b / p, "div_ (divisor +-2^e): a/p + (b/p) i exactly"); }
    VERIF_CANARY();
}
/* modulus, argument, log|z|, projection, polar form: callee and formula */
void h_abs_arg(void)
{
    IN2(a, b);
    ASSUME(INR(a) && INR(b));
    Z2(z, a, b); a_complex r;
    ASSERT(a_complex_abs2(z) == a * a + b * b, "abs2: a^2 + b^2");
    ASSERT(a_complex_abs(z) == a_real_hypot(a, b) && a_complex_abs(z) >= 0, "abs: hypot(a, b), never negative");
    if (a == 0 && b == 0) { ASSERT(a_complex_arg(z) == 0, "arg: 0 at the origin"); }
    else { ASSERT(a_complex_arg(z) == a_real_atan2(b, a), "arg: atan2(Im, Re)"); }
    ASSERT(-A_REAL_PI <= a_complex_arg(z) && a_complex_arg(z) <= A_REAL_PI, "arg: principal value in [-pi, pi]");
    if (b > 0) { ASSERT(a_complex_arg(z) >= 0, "arg: upper half plane -> non-negative"); }
    if (b < 0) { ASSERT(a_complex_arg(z) <= 0, "arg: lower half plane -> non-positive"); }
    if (a != 0 || b != 0)
    {
        a_real const xa = fabs(a), ya = fabs(b);
        a_real const m = xa >= ya ? xa : ya, u = xa >= ya ? ya / xa : xa / ya;
        ASSERT(a_complex_logabs(z) == a_real_log(m) + A_REAL_C(0.5) * a_real_log1p(u * u), "logabs: log(max) + log1p((min/max)^2)/2");
    }
    r = z; a_complex_proj_(&r); ASSERT(r.real == a && r.imag == b, "proj_: identity on finite z");
    a_complex_proj(&r, z); ASSERT(r.real == a && r.imag == b, "proj: identity on finite z");
    VERIF_CANARY();
}
void h_polar(void)
{
    IN2(rho, theta);
    ASSUME(FINITE(rho) && FINITE(theta));
    a_complex r;
    a_complex_polar(&r, rho, theta);
    ASSERT(r.real == rho * a_real_cos(theta) && r.imag == rho * a_real_sin(theta), "polar: rho cos(theta) + rho sin(theta) i");
    if (theta == 0) { ASSERT(r.real == rho && r.imag == 0, "polar: theta = 0 -> rho"); }
    VERIF_CANARY();
}

/* NOTE on the shape of the harnesses below: the expected value is written under the SAME branch structure as the code
   and evaluated once into locals. With identical guards the two evaluations are the same term for the solver (seconds);
   with a logically equivalent but differently shaped guard it has to prove two bit-blasted multipliers equal (minutes). */

/* =====================================================================================================
   square root
   ===================================================================================================== */
void h_sqrt(void)
{
    IN2(re, im);
    ASSUME(FINITE(re) && FINITE(im));
    Z2(z, re, im);
    a_complex_sqrt_(&z);
    if (re == 0 && im == 0) { ASSERT(z.real == 0 && z.imag == 0, "sqrt_: sqrt(0) = 0"); }
    if (!(im == 0 && re < 0)) /* off the negative real axis */
    {
        ASSERT(z.real >= 0, "sqrt_: Re sqrt(z) >= 0 off the negative real axis (principal branch; not NaN)");
        if (im > 0) { ASSERT(z.imag >= 0, "sqrt_: Im sqrt(z) >= 0 in the upper half plane"); }
        if (im < 0) { ASSERT(z.imag <= 0, "sqrt_: Im sqrt(z) <= 0 in the lower half plane"); }
        if (im == 0) { ASSERT(z.imag == 0, "sqrt_: real result for a non-negative real argument"); }
    }
    if (re < 0 && im > 0) { ASSERT(z.imag > 0, "sqrt_: second quadrant -> Im sqrt(z) > 0 strictly"); }
    if (re < 0 && im < 0) { ASSERT(z.imag < 0, "sqrt_: third quadrant -> Im sqrt(z) < 0 strictly"); }
    if (re > 0) { ASSERT(z.real > 0, "sqrt_: right half plane -> Re sqrt(z) > 0 strictly"); }
    VERIF_CANARY();
}
void h_sqrt_real(void)
{
    ND(a_real, x, double);
    ASSUME(FINITE(x));
    a_complex r;
    a_complex_sqrt_real(&r, x);
    if (x >= 0) { ASSERT(r.real == a_real_sqrt(x) && r.imag == 0 && r.real >= 0, "sqrt_real: x >= 0 -> sqrt(x) + 0i"); }
    else { ASSERT(r.real == 0 && r.imag == a_real_sqrt(-x) && r.imag > 0, "sqrt_real: x < 0 -> 0 + sqrt(-x) i (upper side of the cut)"); }
    VERIF_CANARY();
}

/* =====================================================================================================
   exp, log, logarithms to a base, powers
   ===================================================================================================== */
void h_exp(void)
{
    IN2(re, im);
    ASSUME(INR(re) && INR(im));
    Z2(z, re, im); a_complex r;
    a_real const e = a_real_exp(re), er = e * a_real_cos(im), ei = e * a_real_sin(im);
    r = z; a_complex_exp_(&r);
    ASSERT(CSAME(r, er, ei), "exp_: e^Re (cos Im + i sin Im)");
    if (im == 0 && re <= 700) { ASSERT(r.real == e && r.imag == 0, "exp_: real argument -> real result exp(Re)"); }
    a_complex_exp(&r, z);
    ASSERT(CSAME(r, er, ei), "exp: same as exp_");
    VERIF_CANARY();
}
void h_log(void)
{
    IN2(re, im);
    ASSUME(INR(re) && INR(im));
    Z2(z, re, im); a_complex r;
    a_real const la = a_complex_logabs(z), ar = a_complex_arg(z);
    r = z; a_complex_log_(&r);
    ASSERT(CSAME(r, la, ar), "log_: log|z| + i arg z");
    if (re != 0 || im != 0)
    {
        ASSERT(-A_REAL_PI <= r.imag && r.imag <= A_REAL_PI, "log_: Im log z in [-pi, pi] (principal branch)");
        if (im > 0) { ASSERT(r.imag >= 0, "log_: Im log z >= 0 in the upper half plane"); }
        if (im < 0) { ASSERT(r.imag <= 0, "log_: Im log z <= 0 in the lower half plane"); }
        if (re < 0) { ASSERT(r.imag >= A_REAL_PI_2 || r.imag <= -A_REAL_PI_2, "log_: |Im log z| >= pi/2 in the left half plane"); }
        if (re > 0) { ASSERT(-A_REAL_PI_2 <= r.imag && r.imag <= A_REAL_PI_2, "log_: |Im log z| <= pi/2 in the right half plane"); }
        if (im == 0 && re > 0) { ASSERT(r.imag == 0 && r.real == a_real_log(re), "log_: positive real argument -> real result log(Re)"); }
    }
    a_complex_log(&r, z);
    ASSERT(CSAME(r, la, ar), "log: same as log_");
    VERIF_CANARY();
}
void h_log2_10(void)
{
    IN2(re, im);
    ASSUME(INR(re) && INR(im));
    Z2(z, re, im); a_complex r, l;
    l = z; a_complex_log_(&l);
    r = z; a_complex_log2_(&r);
    ASSERT(CSAME(r, l.real * A_REAL_LN1_2, l.imag * A_REAL_LN1_2), "log2_: log_(z) times the constant A_REAL_LN1_2 (value of the constant: unit const_log)");
    r = z; a_complex_log10_(&r);
    ASSERT(CSAME(r, l.real * A_REAL_LN1_10, l.imag * A_REAL_LN1_10), "log10_: log_(z) times the constant A_REAL_LN1_10 (value of the constant: unit const_log)");
    VERIF_CANARY();
}
void h_logb(void)
{
    IN2(re, im); IN2(c, d);
    ASSUME(INR(re) && INR(im) && INR(c) && INR(d));
    Z2(z, re, im); Z2(b, c, d); a_complex r, q, lb;
    q = z; a_complex_log_(&q);
    lb = b; a_complex_log_(&lb);
    a_complex_div_(&q, lb);
    r = z; a_complex_logb_(&r, b);
    ASSERT(CSAME(r, q.real, q.imag), "logb_: log_(z) / log_(b) by a_complex_div_");
    VERIF_CANARY();
}
void h_pow(void)
{
    IN2(re, im); IN2(c, d);
    ASSUME(INR(re) && INR(im) && INR(c) && INR(d));
    Z2(z, re, im); Z2(a, c, d); a_complex r;
    r = z; a_complex_pow_(&r, a);
    if (re != 0 || im != 0)
    {
        a_real const logr = a_complex_logabs(z), theta = a_complex_arg(z);
        a_real const rho = a_real_exp(logr * c - theta * d), beta = theta * c + logr * d;
        a_real const er = rho * a_real_cos(beta), ei = rho * a_real_sin(beta);
        ASSERT(CSAME(r, er, ei), "pow_: exp(a log z) in polar form: modulus exp(c log|z| - d arg z), angle c arg z + d log|z|");
    }
    else
    {
        if (c == 0 && d == 0) { ASSERT(r.real == 1 && r.imag == 0, "pow_: 0^0 = 1"); }
        else { ASSERT(r.real == 0 && r.imag == 0, "pow_: 0^a = 0 for a != 0"); }
    }
    VERIF_CANARY();
}
void h_pow_real(void)
{
    IN2(re, im); ND(a_real, c, double);
    ASSUME(INR(re) && INR(im) && INR(c));
    Z2(z, re, im); a_complex r;
    r = z; a_complex_pow_real_(&r, c);
    if (re != 0 || im != 0)
    {
        a_real const logr = a_complex_logabs(z), theta = a_complex_arg(z);
        a_real const rho = a_real_exp(logr * c), beta = theta * c;
        a_real const er = rho * a_real_cos(beta), ei = rho * a_real_sin(beta);
        ASSERT(CSAME(r, er, ei), "pow_real_: modulus exp(a log|z|), angle a arg z");
    }
    else
    {
        if (c == 0) { ASSERT(r.real == 1 && r.imag == 0, "pow_real_: 0^0 = 1"); }
        else { ASSERT(r.real == 0 && r.imag == 0, "pow_real_: 0^a = 0 for a != 0"); }
    }
    VERIF_CANARY();
}

/* =====================================================================================================
   trigonometric and hyperbolic functions: the addition-theorem formulas with the right real callees
   ===================================================================================================== */
void h_sin(void)
{
    IN2(x, y);
    ASSUME(INR(x) && INR(y));
    Z2(z, x, y); a_complex r;
    r = z; a_complex_sin_(&r);
    if (y != 0)
    {
        a_real const er = a_real_sin(x) * a_real_cosh(y), ei = a_real_cos(x) * a_real_sinh(y);
        ASSERT(CSAME(r, er, ei), "sin_: sin x cosh y + i cos x sinh y");
    }
    else { ASSERT(r.real == a_real_sin(x) && r.imag == 0, "sin_: real argument -> sin x"); }
    VERIF_CANARY();
}
void h_cos(void)
{
    IN2(x, y);
    ASSUME(INR(x) && INR(y));
    Z2(z, x, y); a_complex r;
    r = z; a_complex_cos_(&r);
    if (y != 0)
    {
        a_real const sx = a_real_sin(x);
        a_real const er = a_real_cos(x) * a_real_cosh(y), ei = sx * a_real_sinh(-y);
        ASSERT(CSAME(r, er, ei), "cos_: cos x cosh y + i sin x sinh(-y)  (= cos x cosh y - i sin x sinh y)");
        if ((sx > 0 && y > 0) || (sx < 0 && y < 0)) { ASSERT(r.imag <= 0, "cos_: Im cos z <= 0 where sin x and y have the same sign"); }
        if ((sx > 0 && y < 0) || (sx < 0 && y > 0)) { ASSERT(r.imag >= 0, "cos_: Im cos z >= 0 where sin x and y have opposite signs"); }
    }
    else { ASSERT(r.real == a_real_cos(x) && r.imag == 0, "cos_: real argument -> cos x"); }
    VERIF_CANARY();
}
void h_tan(void)
{
    IN2(x, y);
    ASSUME(INR(x) && INR(y));
    Z2(z, x, y); a_complex r;
    r = z; a_complex_tan_(&r);
    a_real const cr = a_real_cos(x), si = a_real_sinh(y), den = cr * cr + si * si;
    a_real const er = A_REAL_C(0.5) * a_real_sin(2 * x) / den;
    ASSERT(SAME(r.real, er), "tan_: Re = sin(2x)/2 / (cos^2 x + sinh^2 y)");
    if (a_real_abs(y) < 1)
    {
        a_real const ei = A_REAL_C(0.5) * a_real_sinh(2 * y) / den;
        ASSERT(SAME(r.imag, ei), "tan_: Im = sinh(2y)/2 / (cos^2 x + sinh^2 y) for |y| < 1");
    }
    else
    {
        a_real const dd = a_real_pow(cr / si, 2) + 1;
        a_real const ei = 1 / (a_real_tanh(y) * dd);
        ASSERT(SAME(r.imag, ei), "tan_: Im = 1 / (tanh y (1 + (cos x / sinh y)^2)) for |y| >= 1");
    }
    if (y > 0) { ASSERT(!(r.imag < 0), "tan_: Im tan z is not negative in the upper half plane"); }
    if (y < 0) { ASSERT(!(r.imag > 0), "tan_: Im tan z is not positive in the lower half plane"); }
    VERIF_CANARY();
}
void h_sinh(void)
{
    IN2(x, y);
    ASSUME(INR(x) && INR(y));
    Z2(z, x, y); a_complex r;
    a_real const er = a_real_sinh(x) * a_real_cos(y), ei = a_real_cosh(x) * a_real_sin(y);
    r = z; a_complex_sinh_(&r);
    ASSERT(CSAME(r, er, ei), "sinh_: sinh x cos y + i cosh x sin y");
    VERIF_CANARY();
}
void h_cosh(void)
{
    IN2(x, y);
    ASSUME(INR(x) && INR(y));
    Z2(z, x, y); a_complex r;
    a_real const er = a_real_cosh(x) * a_real_cos(y), ei = a_real_sinh(x) * a_real_sin(y);
    r = z; a_complex_cosh_(&r);
    ASSERT(CSAME(r, er, ei), "cosh_: cosh x cos y + i sinh x sin y");
    VERIF_CANARY();
}
void h_tanh(void)
{
    IN2(x, y);
    ASSUME(INR(x) && INR(y));
    Z2(z, x, y); a_complex r;
    r = z; a_complex_tanh_(&r);
    a_real const ci = a_real_cos(y), sr = a_real_sinh(x), den = ci * ci + sr * sr;
    a_real const ei = A_REAL_C(0.5) * a_real_sin(2 * y) / den;
    ASSERT(SAME(r.imag, ei), "tanh_: Im = sin(2y)/2 / (cos^2 y + sinh^2 x)");
    if (a_real_abs(x) < 1)
    {
        a_real const er = a_real_sinh(x) * a_real_cosh(x) / den;
        ASSERT(SAME(r.real, er), "tanh_: Re = sinh x cosh x / (cos^2 y + sinh^2 x) for |x| < 1");
    }
    else
    {
        a_real const dd = a_real_pow(ci / sr, 2) + 1;
        a_real const er = 1 / (a_real_tanh(x) * dd);
        ASSERT(SAME(r.real, er), "tanh_: Re = 1 / (tanh x (1 + (cos y / sinh x)^2)) for |x| >= 1");
    }
    if (x > 0) { ASSERT(!(r.real < 0), "tanh_: Re tanh z is not negative in the right half plane"); }
    if (x < 0) { ASSERT(!(r.real > 0), "tanh_: Re tanh z is not positive in the left half plane"); }
    VERIF_CANARY();
}
/* reciprocal families: inv_ applied to the result of the primary function */
#define H_RECIP(name, f)                                                                                          \
    void h_##name(void)                                                                                           \
    {                                                                                                             \
        IN2(x, y);                                                                                                \
        ASSUME(INR(x) && INR(y));                                                                                 \
        Z2(r, x, y); Z2(w, x, y);                                                                                 \
        a_complex_##name##_(&r); a_complex_##f##_(&w); a_complex_inv_(&w);                                        \
        ASSERT(CSAME(r, w.real, w.imag), #name "_: 1 / " #f "_(z) (a_complex_inv_ of a_complex_" #f "_)");        \
        VERIF_CANARY();                                                                                           \
    }
H_RECIP(sec, cos) H_RECIP(csc, sin) H_RECIP(cot, tan) H_RECIP(sech, cosh) H_RECIP(csch, sinh) H_RECIP(coth, tanh)

/* =====================================================================================================
   inverse trigonometric functions: principal ranges and quadrant signs off the cuts
   ===================================================================================================== */
/* asin: cuts are the real axis outside [-1, 1] */
void h_asin(void)
{
    IN2(re, im);
    ASSUME(INR(re) && INR(im) && (im != 0 || (-1 <= re && re <= 1)));
    Z2(z, re, im);
    a_complex_asin_(&z);
    ASSERT(-A_REAL_PI_2 <= z.real && z.real <= A_REAL_PI_2, "asin_: Re asin z in [-pi/2, pi/2] (not NaN)");
    if (re > 0) { ASSERT(z.real >= 0, "asin_: Re asin z >= 0 in the right half plane"); }
    if (re < 0) { ASSERT(z.real <= 0, "asin_: Re asin z <= 0 in the left half plane"); }
    if (re == 0) { ASSERT(z.real == 0, "asin_: Re asin z == 0 on the imaginary axis"); }
    if (im > 0) { ASSERT(z.imag >= 0, "asin_: Im asin z >= 0 in the upper half plane"); }
    if (im < 0) { ASSERT(z.imag <= 0, "asin_: Im asin z <= 0 in the lower half plane"); }
    if (im == 0) { ASSERT(z.imag == 0 && z.real == a_real_asin(re), "asin_: real argument in [-1,1] -> asin(Re) + 0i"); }
    CANARY_AT(re == 1 && im == 1);
}
/* acos: same cuts */
void h_acos(void)
{
    IN2(re, im);
    ASSUME(INR(re) && INR(im) && (im != 0 || (-1 <= re && re <= 1)));
    Z2(z, re, im);
    a_complex_acos_(&z);
    ASSERT(0 <= z.real && z.real <= A_REAL_PI, "acos_: Re acos z in [0, pi] (not NaN)");
    if (re > 0) { ASSERT(z.real <= A_REAL_PI_2, "acos_: Re acos z <= pi/2 in the right half plane"); }
    if (re < 0) { ASSERT(z.real >= A_REAL_PI_2, "acos_: Re acos z >= pi/2 in the left half plane"); }
    if (im > 0) { ASSERT(z.imag <= 0, "acos_: Im acos z <= 0 in the upper half plane"); }
    if (im < 0) { ASSERT(z.imag >= 0, "acos_: Im acos z >= 0 in the lower half plane"); }
    if (im == 0) { ASSERT(z.imag == 0 && z.real == a_real_acos(re), "acos_: real argument in [-1,1] -> acos(Re) + 0i"); }
    CANARY_AT(re == 1 && im == 1);
}
/* asin z + acos z = pi/2: the imaginary parts are exact negatives of each other (both fallbacks evaluate |Im| by the
   same formula from |Re z|, |Im z|; only the sign selection differs) */
void h_asin_acos_twin(void)
{
    IN2(re, im);
    ASSUME(INR(re) && INR(im));
    Z2(s, re, im); Z2(c, re, im);
    a_complex_asin_(&s);
    a_complex_acos_(&c);
    if (im != 0) { ASSERT(SAME(s.imag, -c.imag), "asin_/acos_: Im asin z == -Im acos z (asin z + acos z = pi/2), bit for bit"); }
    CANARY_AT(re == 1 && im == 1);
}
/* the same identity at one named point of each region of the |Im| formula (x < 1 and x >= 1 with a <= 1.5; a > 1.5).
   On correct code this is implied by asin_acos_twin; it exists because the solver finds a counterexample of the symbolic
   obligation only after > 5 min, whereas a difference at a named point is found in well under a minute. */
#define H_TWIN_AT(n, x0, y0, txt)                                                                \
    void h_asin_acos_twin_##n(void)                                                              \
    {                                                                                            \
        IN2(re, im);                                                                             \
        ASSUME(re == (x0) && im == (y0));                                                        \
        Z2(s, re, im); Z2(c, re, im);                                                            \
        a_complex_asin_(&s); a_complex_acos_(&c);                                                \
        ASSERT(SAME(s.imag, -c.imag), "asin_/acos_: Im asin z == -Im acos z at z = " txt);       \
        VERIF_CANARY();                                                                          \
    }
H_TWIN_AT(p1, 0.5, 0.25, "0.5 + 0.25i (|Re z| < 1, a <= 1.5)")
H_TWIN_AT(p2, 1.25, 0.25, "1.25 + 0.25i (|Re z| > 1, a <= 1.5)")
H_TWIN_AT(p3, 3, 2, "3 + 2i (a > 1.5)")
/* atan: cuts are the imaginary axis outside (-i, i); poles at +-i */
void h_atan(void)
{
    IN2(re, im);
    ASSUME(INR(re) && INR(im) && !(re == 0 && (im >= 1 || im <= -1)));
    Z2(z, re, im);
    a_real const r = a_real_hypot(re, im), u = 2 * im / (r * r + 1);
    a_complex_atan_(&z);
    ASSERT(-A_REAL_PI_2 <= z.real && z.real <= A_REAL_PI_2, "atan_: Re atan z in [-pi/2, pi/2] off the cuts (not NaN)");
    if (re > 0) { ASSERT(z.real >= 0, "atan_: Re atan z >= 0 in the right half plane"); }
    if (re < 0) { ASSERT(z.real <= 0, "atan_: Re atan z <= 0 in the left half plane"); }
    if (re == 0) { ASSERT(z.real == 0, "atan_: Re atan z == 0 on the imaginary axis between -i and i"); }
    if (im == 0) { ASSERT(z.imag == 0 && z.real == a_real_atan(re), "atan_: real argument -> atan(Re) + 0i"); }
    if (im != 0 && r < 1) { ASSERT(-A_REAL_PI_4 <= z.real && z.real <= A_REAL_PI_4, "atan_: |Re atan z| <= pi/4 inside the unit circle (|z| < 1, Im z != 0)"); }
    if (im != 0 && re != 0 && r > 1) { ASSERT(z.real >= A_REAL_PI_4 || z.real <= -A_REAL_PI_4, "atan_: |Re atan z| >= pi/4 outside the unit circle (|z| > 1, off the axes)"); }
    if (im != 0 && a_real_abs(u) < A_REAL_C(0.1))
    {
        if (im > 0) { ASSERT(z.imag >= 0, "atan_: Im atan z >= 0 in the upper half plane (log1p branch)"); }
        if (im < 0) { ASSERT(z.imag <= 0, "atan_: Im atan z <= 0 in the lower half plane (log1p branch)"); }
    }
    /* the field formulas: Re atan z = atan2(2x, 1 - |z|^2)/2, Im atan z = ln(|z + i| / |z - i|)/2 = (log1p(u) - log1p(-u))/4, u = 2y/(|z|^2 + 1) */
    if (im != 0)
    {
        a_real const r1 = a_real_hypot(re, im), u1 = 2 * im / (r1 * r1 + 1);
        if (a_real_abs(u1) < A_REAL_C(0.1))
        {
            a_real const ei = A_REAL_C(0.25) * (a_real_log1p(u1) - a_real_log1p(-u1));
            ASSERT(SAME(z.imag, ei), "atan_: Im atan z = (log1p(u) - log1p(-u))/4, u = 2y/(|z|^2 + 1), for |u| < 0.1");
        }
        else
        {
            a_real const a1 = a_real_hypot(re, im + 1), b1 = a_real_hypot(re, im - 1);
            a_real const ei = A_REAL_C(0.5) * a_real_log(a1 / b1);
            ASSERT(SAME(z.imag, ei), "atan_: Im atan z = ln(|z + i| / |z - i|)/2 for |u| >= 0.1");
        }
        if (re != 0)
        {
            a_real const er = A_REAL_C(0.5) * a_real_atan2(2 * re, (1 + r1) * (1 - r1));
            ASSERT(SAME(z.real, er), "atan_: Re atan z = atan2(2x, (1 + |z|)(1 - |z|))/2 off the imaginary axis");
        }
    }
    CANARY_AT(re == 1 && im == 1);
}
/* real-argument variants: documented branch constants and callees */
void h_inv_real(void)
{
    ND(a_real, x, double);
    ASSUME(INR(x));
    a_complex r;
    a_complex_asin_real(&r, x);
    if (-1 <= x && x <= 1) { ASSERT(r.real == a_real_asin(x) && r.imag == 0, "asin_real: |x| <= 1 -> asin(x) + 0i"); }
    else if (x > 1) { ASSERT(r.real == A_REAL_PI_2 && r.imag == -a_real_acosh(x) && r.imag < 0, "asin_real: x > 1 -> pi/2 - acosh(x) i"); }
    else { ASSERT(r.real == -A_REAL_PI_2 && r.imag == a_real_acosh(-x) && r.imag > 0, "asin_real: x < -1 -> -pi/2 + acosh(-x) i"); }
    a_complex_acos_real(&r, x);
    if (-1 <= x && x <= 1) { ASSERT(r.real == a_real_acos(x) && r.imag == 0, "acos_real: |x| <= 1 -> acos(x) + 0i"); }
    else if (x > 1) { ASSERT(r.real == 0 && r.imag == a_real_acosh(x) && r.imag > 0, "acos_real: x > 1 -> 0 + acosh(x) i"); }
    else { ASSERT(r.real == A_REAL_PI && r.imag == -a_real_acosh(-x) && r.imag < 0, "acos_real: x < -1 -> pi - acosh(-x) i"); }
    a_complex_acosh_real(&r, x);
    if (x >= 1) { ASSERT(r.real == a_real_acosh(x) && r.imag == 0, "acosh_real: x >= 1 -> acosh(x) + 0i"); }
    else if (x >= -1) { ASSERT(r.real == 0 && r.imag == a_real_acos(x) && 0 <= r.imag && r.imag <= A_REAL_PI, "acosh_real: -1 <= x < 1 -> 0 + acos(x) i"); }
    else { ASSERT(r.real == a_real_acosh(-x) && r.real > 0 && r.imag == A_REAL_PI, "acosh_real: x < -1 -> acosh(-x) + pi i"); }
    a_complex_atanh_real(&r, x);
    if (-1 < x && x < 1) { ASSERT(r.real == a_real_atanh(x) && r.imag == 0, "atanh_real: |x| < 1 -> atanh(x) + 0i"); }
    else if (x > 1) { ASSERT(r.real == a_real_atanh(1 / x) && r.imag == -A_REAL_PI_2, "atanh_real: x > 1 -> atanh(1/x) - pi/2 i"); }
    else if (x < -1) { ASSERT(r.real == a_real_atanh(1 / x) && r.imag == A_REAL_PI_2, "atanh_real: x < -1 -> atanh(1/x) + pi/2 i"); }
    if (x != 0)
    {
        a_complex_asec_real(&r, x);
        if (x <= -1 || x >= 1) { ASSERT(r.real == a_real_acos(1 / x) && r.imag == 0 && 0 <= r.real && r.real <= A_REAL_PI, "asec_real: |x| >= 1 -> acos(1/x) + 0i"); }
        else if (x > 0) { ASSERT(r.real == 0 && r.imag == a_real_acosh(1 / x) && r.imag >= 0, "asec_real: 0 < x < 1 -> 0 + acosh(1/x) i"); }
        else { ASSERT(r.real == A_REAL_PI && r.imag == -a_real_acosh(-1 / x) && r.imag <= 0, "asec_real: -1 < x < 0 -> pi - acosh(-1/x) i"); }
        a_complex_acsc_real(&r, x);
        if (x <= -1 || x >= 1) { ASSERT(r.real == a_real_asin(1 / x) && r.imag == 0 && -A_REAL_PI_2 <= r.real && r.real <= A_REAL_PI_2, "acsc_real: |x| >= 1 -> asin(1/x) + 0i"); }
        else if (x > 0) { ASSERT(r.real == A_REAL_PI_2 && r.imag == -a_real_acosh(1 / x) && r.imag <= 0, "acsc_real: 0 < x < 1 -> pi/2 - acosh(1/x) i"); }
        else { ASSERT(r.real == -A_REAL_PI_2 && r.imag == a_real_acosh(-1 / x) && r.imag >= 0, "acsc_real: -1 < x < 0 -> -pi/2 + acosh(-1/x) i"); }
    }
    VERIF_CANARY();
}
/* the real-argument variants agree with the general functions on the real axis (delegation) */
void h_inv_real_delegation(void)
{
    ND(a_real, x, double);
    ASSUME(INR(x));
    Z2(z, x, 0); a_complex r;
    a_complex_asin_real(&r, x); z.real = x; z.imag = 0; a_complex_asin_(&z); ASSERT(CSAME(z, r.real, r.imag), "asin_: real argument -> asin_real");
    a_complex_acos_real(&r, x); z.real = x; z.imag = 0; a_complex_acos_(&z); ASSERT(CSAME(z, r.real, r.imag), "acos_: real argument -> acos_real");
    a_complex_atanh_real(&r, x); z.real = x; z.imag = 0; a_complex_atanh_(&z); ASSERT(CSAME(z, r.real, r.imag), "atanh_: real argument -> atanh_real");
    VERIF_CANARY();
}

/* =====================================================================================================
   composition skeletons: the callee is the library's own function, evaluated by the harness on the transformed argument
   ===================================================================================================== */
/* i z and -i z are formed with the library's own a_complex_mul_imag_(., +-1) (verified to be the multiplication by +-i in arith_scalar) */
void h_asinh(void)
{
    IN2(re, im);
    ASSUME(INR(re) && INR(im));
    Z2(z, re, im); Z2(w, re, im);
    a_complex_asinh_(&z);
    a_complex_mul_imag_(&w, +1); a_complex_asin_(&w); a_complex_mul_imag_(&w, -1);
    ASSERT(CSAME(z, w.real, w.imag), "asinh_: asinh z = -i asin(i z)");
    CANARY_AT(re == 1 && im == 1);
}
void h_acosh(void)
{
    IN2(re, im);
    ASSUME(INR(re) && INR(im));
    Z2(z, re, im); Z2(w, re, im);
    a_complex_acosh_(&z);
    a_complex_acos_(&w);
    a_real const ar = w.real, ai = w.imag;
    a_complex_mul_imag_(&w, ai > 0 ? -1 : +1);
    ASSERT(CSAME(z, w.real, w.imag), "acosh_: acosh z = -i acos z if Im acos z > 0, +i acos z otherwise");
    if (ai > 0) { ASSERT(SAME(z.real, ai) && SAME(z.imag, -ar), "acosh_: Im acos z > 0 -> acosh z = Im acos z - i Re acos z"); }
    else { ASSERT(SAME(z.real, -ai) && SAME(z.imag, ar), "acosh_: Im acos z <= 0 -> acosh z = -Im acos z + i Re acos z"); }
    CANARY_AT(re == 1 && im == 1);
}
/* principal branch of acosh: Re >= 0, Im in [-pi, pi] with the sign of Im z */
void h_acosh_range(void)
{
    IN2(re, im);
    ASSUME(INR(re) && INR(im));
    Z2(z, re, im);
    a_complex_acosh_(&z);
    ASSERT(z.real >= 0, "acosh_: Re acosh z >= 0 (principal branch; not NaN)");
    ASSERT(-A_REAL_PI <= z.imag && z.imag <= A_REAL_PI, "acosh_: Im acosh z in [-pi, pi]");
    if (im > 0) { ASSERT(z.imag >= 0, "acosh_: Im acosh z >= 0 in the upper half plane"); }
    CANARY_AT(re == 1 && im == 1);
}
/* lower half plane: Im acosh z <= 0.  Needs Im acos z > 0 strictly, i.e. no underflow of (Im z)^2: magnitudes restricted.
   (Observed and NOT asserted: acosh(0.5 - 1e-200 i) = -0 + 1.047i, the sign selector sees Im acos z == +0.) */
void h_acosh_lower(void)
{
    IN2(re, im);
    ASSUME(FINITE(re) && FINITE(im) && -0x1p20 <= re && re <= 0x1p20 && -0x1p20 <= im && im <= -0x1p-400);
    Z2(z, re, im);
    a_complex_acosh_(&z);
    ASSERT(z.imag <= 0, "acosh_: Im acosh z <= 0 in the lower half plane (2^-400 <= -Im z, |z| <= 2^20)");
    CANARY_AT(re == 1 && im == -1);
}
void h_atanh(void)
{
    IN2(re, im);
    ASSUME(INR(re) && INR(im));
    Z2(z, re, im); Z2(w, re, im);
    a_complex r;
    a_complex_atanh_(&z);
    if (im != 0)
    {
        a_complex_mul_imag_(&w, +1); a_complex_atan_(&w); a_complex_mul_imag_(&w, -1);
        ASSERT(CSAME(z, w.real, w.imag), "atanh_: atanh z = -i atan(i z) off the real axis");
    }
    else
    {
        a_complex_atanh_real(&r, re);
        ASSERT(CSAME(z, r.real, r.imag), "atanh_: real argument -> atanh_real");
    }
    CANARY_AT(re == 1 && im == 1);
}
/* arc-reciprocal families: the primary inverse function applied to a_complex_inv_(z) */
#define H_ARECIP(name, f)                                                                                         \
    void h_##name(void)                                                                                           \
    {                                                                                                             \
        IN2(x, y);                                                                                                \
        ASSUME(INR(x) && INR(y) && NZ(x, y));                                                                     \
        Z2(r, x, y); Z2(w, x, y);                                                                                 \
        a_complex_##name##_(&r); a_complex_inv_(&w); a_complex_##f##_(&w);                                        \
        ASSERT(CSAME(r, w.real, w.imag), #name "_: " #f "_(1/z) (a_complex_" #f "_ of a_complex_inv_)");          \
        CANARY_AT(x == 1 && y == 1);                                                                                           \
    }
H_ARECIP(asec, acos) H_ARECIP(acsc, asin) H_ARECIP(asech, acosh) H_ARECIP(acsch, asinh) H_ARECIP(acoth, atanh)
void h_acot(void)
{
    IN2(x, y);
    ASSUME(INR(x) && INR(y));
    Z2(r, x, y); Z2(w, x, y);
    a_complex_acot_(&r);
    if (x != 0 || y != 0)
    {
        a_complex_inv_(&w); a_complex_atan_(&w);
        ASSERT(CSAME(r, w.real, w.imag), "acot_: atan_(1/z) (a_complex_atan_ of a_complex_inv_)");
    }
    else { ASSERT(r.real == A_REAL_PI_2 && r.imag == 0, "acot_: acot(0) = pi/2"); }
    CANARY_AT(x == 1 && y == 1);
}
/* by-value wrappers f(ctx, z) == { f_(&z); *ctx = z; } */
#define WRAP(f)                                                                                \
    do {                                                                                       \
        a_complex r_, w_ = z;                                                                  \
        a_complex_##f(&r_, z); a_complex_##f##_(&w_);                                          \
        ASSERT(CSAME(r_, w_.real, w_.imag), #f ": by-value form equals the in-place form");    \
    } while (0)
#define H_WRAP(n, body)                        \
    void h_wrappers_##n(void)                  \
    {                                          \
        IN2(x, y);                             \
        ASSUME(INR(x) && INR(y));              \
        Z2(z, x, y);                           \
        body                                   \
        VERIF_CANARY();                        \
    }
H_WRAP(a, WRAP(sqrt); WRAP(exp); WRAP(log); WRAP(log2); WRAP(log10); WRAP(proj);)
H_WRAP(b, WRAP(sin); WRAP(cos); WRAP(tan); WRAP(sec); WRAP(csc); WRAP(cot);)
H_WRAP(c, WRAP(sinh); WRAP(cosh); WRAP(tanh); WRAP(sech); WRAP(csch); WRAP(coth);)
H_WRAP(d, WRAP(asin); WRAP(acos); WRAP(atan);)
H_WRAP(e, WRAP(asec); WRAP(acsc); WRAP(acot);)
H_WRAP(f, WRAP(asinh); WRAP(acosh); WRAP(atanh);)
H_WRAP(g, WRAP(asech); WRAP(acsch); WRAP(acoth);)
void h_wrappers_h(void)
{
    IN2(x, y); IN2(c, d);
    ASSUME(INR(x) && INR(y) && INR(c) && INR(d));
    Z2(z, x, y); Z2(a, c, d); a_complex r, w;
    a_complex_pow(&r, z, a); w = z; a_complex_pow_(&w, a); ASSERT(CSAME(r, w.real, w.imag), "pow: by-value form equals the in-place form");
    a_complex_pow_real(&r, z, c); w = z; a_complex_pow_real_(&w, c); ASSERT(CSAME(r, w.real, w.imag), "pow_real: by-value form equals the in-place form");
    a_complex_logb(&r, z, a); w = z; a_complex_logb_(&w, a); ASSERT(CSAME(r, w.real, w.imag), "logb: by-value form equals the in-place form");
    VERIF_CANARY();
}
