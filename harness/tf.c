/* C16: discrete transfer function (src/tf.c), its delay-line shift (a_real_push_fore/back of src/math.c),
   first-order RC filters (include/a/lpf.h, include/a/hpf.h).
   The delay lines and coefficient vectors are exactly sized heap blocks: every access outside is a
   pointer-check failure.  Contents are compared bit for bit (BITS) so that NaN payloads and signed zeros count. */
#include "contracts/verif.h"
#include "a/tf.h"
#include "a/lpf.h"
#include "a/hpf.h"
#include "a/math.h"

#if defined(VERIF_TYPED_MOVE) && !defined(VERIF_NATIVE)
/* Only for the exact-domain equation units: cbmc's byte-level memmove model hides from the solver that the shifted
   samples ARE the old samples (the products of the code and of the reference are then no longer the same terms and
   neither back end decides their equality).  Assumed contract of memmove for whole a_real elements, as a stub:
   element-wise copy in the non-clobbering order.  The units that decide the shift itself (push_fore, push_back,
   tf_iter_shift_*) use cbmc's own byte-level model and compare bit patterns. */
void *memmove(void *d, const void *s, size_t n)
{
    size_t k, w = n / sizeof(double);
    __CPROVER_assert(n % sizeof(double) == 0, "typed memmove model: only whole a_real elements are moved");
    if ((double *)d < (double const *)s) { for (k = 0; k < w; ++k) { ((double *)d)[k] = ((double const *)s)[k]; } }
    else { for (k = w; k > 0; --k) { ((double *)d)[k - 1] = ((double const *)s)[k - 1]; } }
    return d;
}
#endif
#include "src/a.c"    /* a_zero / a_move (memset / memmove) */
#include "src/math.c" /* a_real_push_fore / a_real_push_back: the real shift */
#include "src/tf.c"

#define ISNAN(x) ((x) != (x))
#define FINITE(x) ((x) - (x) == 0)
#define SAME(a, b) ((a) == (b) || (ISNAN(a) && ISNAN(b)))
#define BITS(lv) (*(a_u64 const *)&(lv))
#ifndef NB
#define NB 4 /* largest order / length of the bounded units */
#endif
#ifndef NBIG
#define NBIG 0xFFFFFFFFu /* orders of the units that need no unwinding: every unsigned order */
#endif
/* exactly sized block of n reals (n == 0: a one-byte block, every a_real access is outside) */
static a_real *block_sym(a_size n) /* symbolic n: untyped block */
{
    a_real *p = (a_real *)malloc(n ? sizeof(a_real) * n : 1);
    ASSUME(p != 0);
    return p;
}
static a_real *block(a_size n) /* n concrete on the path: typed block */
{
    a_real *p;
    if (n) { p = (a_real *)malloc(sizeof(a_real) * n); } else { p = (a_real *)malloc(1); }
    ASSUME(p != 0);
    return p;
}
/* native replay only: release the blocks (LeakSanitizer would otherwise end the process before stdout is flushed) */
#ifdef VERIF_NATIVE
#define RELEASE(p) free((void *)(p))
#else
#define RELEASE(p) (void)(p)
#endif
#define RELEASE4(a, b, c, d) RELEASE(a); RELEASE(b); RELEASE(c); RELEASE(d)
/* up to NB individually named symbolic reals (named so that a native replay can take them from the counterexample) */
#define DECL4(v) ND(a_real, v##0, double); ND(a_real, v##1, double); ND(a_real, v##2, double); ND(a_real, v##3, double); \
    a_real v[4]; v[0] = v##0; v[1] = v##1; v[2] = v##2; v[3] = v##3
#define DECL4I(v, m) ND(int, v##0, int); ND(int, v##1, int); ND(int, v##2, int); ND(int, v##3, int); \
    ASSUME(-(m) <= v##0 && v##0 <= (m) && -(m) <= v##1 && v##1 <= (m) && -(m) <= v##2 && v##2 <= (m) && -(m) <= v##3 && v##3 <= (m)); \
    a_real v[4]; v[0] = v##0; v[1] = v##1; v[2] = v##2; v[3] = v##3
static void load(a_real *p, a_real const *v, a_size n)
{
    a_size k;
    for (k = 0; k < NB; ++k) { if (k < n) { p[k] = v[k]; } }
}

/* ---- [P] a_tf_set_num / a_tf_set_den: pointers and order stored, delay line zeroed, other half untouched;
        all orders 0 .. 65536 (no loop: memset model) ---- */
void h_tf_set(void)
{
    ND(unsigned, vn, u32); ND(unsigned, vm, u32); ND(a_size, vw, size); ND(_Bool, den, bool);
    ASSUME(vn <= NBIG && vm <= NBIG);
    a_real *coef = block_sym(vn), *line = block_sym(vn);
    a_real *p1 = block_sym(vm), *p2 = block_sym(vm);
    a_tf c;
    if (den) { c.num_p = p1; c.input = p2; c.num_n = vm; } else { c.den_p = p1; c.output = p2; c.den_n = vm; }
    if (den) { a_tf_set_den(&c, vn, coef, line); } else { a_tf_set_num(&c, vn, coef, line); }
    if (den)
    {
        ASSERT(c.den_p == coef && c.output == line && c.den_n == vn, "set_den: coefficient pointer, delay line and order are stored");
        ASSERT(c.num_p == p1 && c.input == p2 && c.num_n == vm, "set_den: numerator half untouched");
    }
    else
    {
        ASSERT(c.num_p == coef && c.input == line && c.num_n == vn, "set_num: coefficient pointer, delay line and order are stored");
        ASSERT(c.den_p == p1 && c.output == p2 && c.den_n == vm, "set_num: denominator half untouched");
    }
    if (vw < vn) { ASSERT(BITS(line[vw]) == 0, "set_num/set_den: every entry of the delay line is +0 (witness entry)"); }
    RELEASE4(coef, line, p1, p2);
    VERIF_CANARY();
}

/* ---- [P] a_tf_init = both halves; a_tf_zero restores exactly the state after init ---- */
void h_tf_init_zero(void)
{
    ND(unsigned, vn, u32); ND(unsigned, vm, u32); ND(a_size, vw, size); ND(a_size, vv, size);
    ASSUME(vn <= NBIG && vm <= NBIG);
    a_real *num = block_sym(vn), *in = block_sym(vn), *den = block_sym(vm), *out = block_sym(vm);
    a_tf c;
    a_tf_init(&c, vn, num, in, vm, den, out);
    ASSERT(c.num_p == num && c.input == in && c.num_n == vn && c.den_p == den && c.output == out && c.den_n == vm, "init: pointers and orders are stored");
    if (vw < vn) { ASSERT(BITS(in[vw]) == 0, "init: input delay line is zero (witness entry)"); }
    if (vv < vm) { ASSERT(BITS(out[vv]) == 0, "init: output delay line is zero (witness entry)"); }
    /* arbitrary later state of the two lines */
    if (vw < vn) { ND(a_real, dirt_in, double); in[vw] = dirt_in; }
    if (vv < vm) { ND(a_real, dirt_out, double); out[vv] = dirt_out; }
    a_tf_zero(&c);
    if (vw < vn) { ASSERT(BITS(in[vw]) == 0, "zero: input delay line is back to the initial state (witness entry)"); }
    if (vv < vm) { ASSERT(BITS(out[vv]) == 0, "zero: output delay line is back to the initial state (witness entry)"); }
    ASSERT(c.num_p == num && c.input == in && c.num_n == vn && c.den_p == den && c.output == out && c.den_n == vm, "zero: pointers and orders untouched");
    RELEASE4(num, in, den, out);
    VERIF_CANARY();
}

/* The byte-copy model of memmove is only tractable for a concrete length: the bounded units dispatch on the
   symbolic length/order so that it is a constant on every path (EACH), still with exactly sized blocks. */
#define EACH(k, n, bound) for (k = 0; k <= (bound); ++k) if ((n) == k)
#ifdef MD /* denominator order fixed per unit (-DMD=0..4): keeps each SAT instance small */
#define EACH_M(j, m) for (j = MD; j == MD && (m) == MD; ++j)
#else
#define EACH_M(j, m) EACH(j, m, NB)
#endif

/* ---- [B n <= NL] a_real_push_fore / a_real_push_back: shift by one with ghost witness
        (n == 0: nothing is touched; n == 1: only the new sample is stored) ---- */
#ifndef NL
#define NL 8
#endif
static void push_fore_n(a_size n, a_size w, a_real x, a_real oldw, a_real oldp)
{
    a_real *p = block(n);
    if (w < n) { p[w] = oldw; }
    if (w >= 1 && w < n) { p[w - 1] = oldp; }
    a_real_push_fore(p, n, x);
    if (n >= 1) { ASSERT(BITS(p[0]) == BITS(x), "push_fore: the new sample is entry 0 (also for n == 1)"); }
    if (w >= 1 && w < n) { ASSERT(BITS(p[w]) == BITS(oldp), "push_fore: entry w is the old entry w-1 (witness w >= 1)"); }
    RELEASE(p);
}
void h_push_fore(void)
{
    ND(a_size, vn, size); ND(a_size, vw, size); ND(a_real, vx, double); ND(a_real, oldw, double); ND(a_real, oldp, double);
    a_size k;
    ASSUME(vn <= NL);
    EACH(k, vn, NL) { push_fore_n(k, vw, vx, oldw, oldp); }
    VERIF_CANARY();
}
static void push_back_n(a_size n, a_size w, a_real x, a_real oldw, a_real oldn)
{
    a_real *p = block(n);
    if (w < n) { p[w] = oldw; }
    if (w < n && w + 1 < n) { p[w + 1] = oldn; }
    a_real_push_back(p, n, x);
    if (n >= 1) { ASSERT(BITS(p[n - 1]) == BITS(x), "push_back: the new sample is the last entry (also for n == 1)"); }
    if (w < n && w + 1 < n) { ASSERT(BITS(p[w]) == BITS(oldn), "push_back: entry w is the old entry w+1 (witness w < n-1)"); }
    RELEASE(p);
}
void h_push_back(void)
{
    ND(a_size, vn, size); ND(a_size, vw, size); ND(a_real, vx, double); ND(a_real, oldw, double); ND(a_real, oldn, double);
    a_size k;
    ASSUME(vn <= NL);
    EACH(k, vn, NL) { push_back_n(k, vw, vx, oldw, oldn); }
    VERIF_CANARY();
}

/* ---- [B orders <= 4] a_tf_iter: delay lines after the call, returned value, frame, memory safety;
        arbitrary contents (any bit pattern) ---- */
static void tf_iter_shift_nm(unsigned n, unsigned m, unsigned w, a_real x, a_real const *nu, a_real const *de, a_real const *in, a_real const *ou)
{
    a_real *num = block(n), *inp = block(n), *den = block(m), *out = block(m);
    load(num, nu, n); load(inp, in, n); load(den, de, m); load(out, ou, m);
    a_tf c;
    c.num_p = num; c.input = inp; c.num_n = n; c.den_p = den; c.output = out; c.den_n = m;
    a_real y = a_tf_iter(&c, x);
    if (n >= 1) { ASSERT(BITS(inp[0]) == BITS(x), "iter: input line starts with the new sample (also for order 1)"); }
    if (w >= 1 && w < n) { ASSERT(BITS(inp[w]) == BITS(in[w - 1]), "iter: input line entry w is the old entry w-1 (witness)"); }
    if (m >= 1) { ASSERT(BITS(out[0]) == BITS(y), "iter: output line starts with the returned value (also for order 1)"); }
    if (w >= 1 && w < m) { ASSERT(BITS(out[w]) == BITS(ou[w - 1]), "iter: output line entry w is the old entry w-1 (witness)"); }
    if (w < n) { ASSERT(BITS(num[w]) == BITS(nu[w]), "iter: numerator coefficients untouched"); }
    if (w < m) { ASSERT(BITS(den[w]) == BITS(de[w]), "iter: denominator coefficients untouched"); }
    if (n == 0 && m == 0) { ASSERT(BITS(y) == 0, "iter: orders 0/0 give +0"); }
    ASSERT(c.num_p == num && c.input == inp && c.num_n == n && c.den_p == den && c.output == out && c.den_n == m, "iter: instance untouched");
    RELEASE4(num, inp, den, out);
}
void h_tf_iter_shift(void)
{
    ND(unsigned, vn, u32); ND(unsigned, vm, u32); ND(unsigned, vw, u32); ND(a_real, vx, double);
    unsigned k, j;
    ASSUME(vn <= NB && vm <= NB);
    DECL4(nu); DECL4(de); DECL4(in); DECL4(ou);
    EACH(k, vn, NB) EACH_M(j, vm) { tf_iter_shift_nm(k, j, vw, vx, nu, de, in, ou); }
    VERIF_CANARY();
}

/* ---- [B orders <= 4, exact domain] difference equation
        y = sum num[i]*input'[i] - sum den[i]*output[i], input' = x followed by the old input line,
        output = the OLD output line (the value is pushed after it has been used).
        Integers |v| <= EXM: every product and partial sum is exact, so the accumulation order is immaterial;
        the reference below is the definition, written independently of src/tf.c ---- */
#ifndef EXM
#define EXM 1024
#endif
/* the definition: u = most recent inputs including the current one, v = most recent outputs, both most recent first */
static a_real ref_step(unsigned n, unsigned m, a_real const *nu, a_real const *de, a_real const *u, a_real const *v)
{
    a_real y = 0;
    unsigned k;
    for (k = 0; k < NB; ++k) { if (k < n) { y += nu[k] * u[k]; } }
    for (k = 0; k < NB; ++k) { if (k < m) { y -= de[k] * v[k]; } }
    return y;
}
static void tf_iter_equation_nm(unsigned n, unsigned m, a_real x, a_real const *nu, a_real const *de, a_real const *in, a_real const *ou)
{
    a_real *num = block(n), *inp = block(n), *den = block(m), *out = block(m);
    load(num, nu, n); load(inp, in, n); load(den, de, m); load(out, ou, m);
    a_tf c;
    c.num_p = num; c.input = inp; c.num_n = n; c.den_p = den; c.output = out; c.den_n = m;
    a_real u[NB];
    u[0] = x; u[1] = in[0]; u[2] = in[1]; u[3] = in[2];
    a_real ref = ref_step(n, m, nu, de, u, ou);
    a_real y = a_tf_iter(&c, x);
    ASSERT(y == ref, "iter: y = sum num[i]*input'[i] - sum den[i]*output[i] (most recent first; old outputs)");
    RELEASE4(num, inp, den, out);
}
void h_tf_iter_equation(void)
{
    ND(unsigned, vn, u32); ND(unsigned, vm, u32); ND(int, xi, int);
    unsigned k, j;
    ASSUME(vn <= NB && vm <= NB && -EXM <= xi && xi <= EXM);
    DECL4I(nu, EXM); DECL4I(de, EXM); DECL4I(in, EXM); DECL4I(ou, EXM);
    EACH(k, vn, NB) EACH_M(j, vm) { tf_iter_equation_nm(k, j, (a_real)xi, nu, de, in, ou); }
    VERIF_CANARY();
}

/* ---- [B, concrete vectors] the same equation for two fixed integer vectors and all orders 0..4 x 0..4.
        A test, not a proof: it backs tf_iter_equation_*, whose proof rests on the code and the reference building the
        same terms - for a wrong formula the solver may fail to produce a counterexample in time, this unit does not ---- */
static void tf_iter_spot_nm(unsigned n, unsigned m)
{
    static a_real const NU[2][NB] = {{2, 3, 5, 7}, {-2, 0, 9, -4}}, DE[2][NB] = {{11, 13, 17, 19}, {1, -6, 0, 10}};
    static a_real const IN[2][NB] = {{23, 29, 31, 37}, {-8, 14, -15, 1}}, OU[2][NB] = {{41, 43, 47, 53}, {12, -7, 5, -9}};
    static a_real const X[2] = {59, -3};
    unsigned t;
    for (t = 0; t < 2; ++t)
    {
        a_real *num = block(n), *inp = block(n), *den = block(m), *out = block(m);
        load(num, NU[t], n); load(inp, IN[t], n); load(den, DE[t], m); load(out, OU[t], m);
        a_tf c;
        c.num_p = num; c.input = inp; c.num_n = n; c.den_p = den; c.output = out; c.den_n = m;
        a_real u[NB];
        u[0] = X[t]; u[1] = IN[t][0]; u[2] = IN[t][1]; u[3] = IN[t][2];
        a_real ref = ref_step(n, m, NU[t], DE[t], u, OU[t]);
        a_real y = a_tf_iter(&c, X[t]);
        ASSERT(y == ref, "iter (concrete vectors): y = sum num[i]*input'[i] - sum den[i]*output[i]");
        RELEASE4(num, inp, den, out);
    }
}
void h_tf_iter_spot(void)
{
    ND(unsigned, vn, u32); ND(unsigned, vm, u32);
    unsigned k, j;
    ASSUME(vn <= NB && vm <= NB);
    EACH(k, vn, NB) EACH(j, vm, NB) { tf_iter_spot_nm(k, j); }
    VERIF_CANARY();
}

/* ---- [B] three consecutive steps from zero state against the reference recurrence (history direction of both
        delay lines seen through the API only; integers |v| <= 16 so that three steps stay exact), then zero ---- */
#ifndef STEPS
#define STEPS 2
#endif
static void tf_steps_nm(unsigned n, unsigned m, a_real x1, a_real x2, a_real x3, a_real const *nu, a_real const *de)
{
    a_real *num = block(n), *inp = block(n), *den = block(m), *out = block(m);
    load(num, nu, n); load(den, de, m);
    a_tf c;
    a_tf_init(&c, n, num, inp, m, den, out);
    a_real y1 = a_tf_iter(&c, x1);
    a_real y2 = a_tf_iter(&c, x2);
#if STEPS >= 3
    a_real y3 = a_tf_iter(&c, x3);
#endif
    /* reference recurrence over explicit histories, starting from zero state */
    a_real u[NB] = {0, 0, 0, 0}, v[NB] = {0, 0, 0, 0};
    u[0] = x1;
    a_real r1 = ref_step(n, m, nu, de, u, v);
    u[1] = x1; u[0] = x2; v[0] = r1;
    a_real r2 = ref_step(n, m, nu, de, u, v);
#if STEPS >= 3
    u[2] = x1; u[1] = x2; u[0] = x3; v[1] = r1; v[0] = r2;
    a_real r3 = ref_step(n, m, nu, de, u, v);
    ASSERT(y3 == r3, "three steps from zero state: third output equals the reference recurrence (uses x2, x1, y2, y1)");
#else
    (void)x3;
#endif
    ASSERT(y1 == r1, "steps from zero state: first output equals the reference recurrence");
    ASSERT(y2 == r2, "steps from zero state: second output equals the reference recurrence (uses x1 and y1)");
    a_tf_zero(&c);
    a_real z1 = a_tf_iter(&c, x1);
    ASSERT(z1 == r1, "zeroing restores the initial state: the first output repeats");
    RELEASE4(num, inp, den, out);
}
void h_tf_steps(void)
{
    ND(unsigned, vn, u32); ND(unsigned, vm, u32); ND(int, x1i, int); ND(int, x2i, int); ND(int, x3i, int);
    unsigned k, j;
    ASSUME(vn <= NB && vm <= NB && -16 <= x1i && x1i <= 16 && -16 <= x2i && x2i <= 16 && -16 <= x3i && x3i <= 16);
    DECL4I(nu, 16); DECL4I(de, 16);
    EACH(k, vn, NB) EACH_M(j, vm) { tf_steps_nm(k, j, (a_real)x1i, (a_real)x2i, (a_real)x3i, nu, de); }
    VERIF_CANARY();
}


/* ---- [P] low-pass: documented update V(n) = (1-alpha)*V(n-1) + alpha*x evaluated in IEEE double, for ALL doubles;
        end points of alpha, where no rounding occurs: the range claim holds exactly ---- */
void h_lpf(void)
{
    ND(a_real, alpha, double); ND(a_real, out0, double); ND(a_real, vx, double);
    a_lpf f;
    f.alpha = alpha; f.output = out0;
    a_real y = a_lpf_iter(&f, vx);
    ASSERT(SAME(y, (1 - alpha) * out0 + alpha * vx), "lpf: output = (1-alpha)*output + alpha*x (the documented convex combination)");
    ASSERT(SAME(y, f.output) && SAME(f.alpha, alpha), "lpf: returns the stored output, coefficient untouched");
    if (FINITE(out0) && FINITE(vx) && alpha == 1) { ASSERT(y == vx, "lpf: alpha = 1 passes every finite input through exactly (no overflow of intermediates)"); }
    if (FINITE(out0) && FINITE(vx) && alpha == 0) { ASSERT(y == out0, "lpf: alpha = 0 holds the output exactly"); }
    if (FINITE(out0) && FINITE(vx) && alpha >= 0 && alpha <= 1 && out0 == vx && (vx >= 0x1p-1000 || vx <= -0x1p-1000 || vx == 0) && (alpha == 0.5 || alpha == 0.25 || alpha == 0.75))
    {
        ASSERT(y == vx, "lpf: a settled filter stays settled for a constant input (dyadic alpha)");
    }
    a_lpf_zero(&f);
    ASSERT(f.output == 0 && SAME(f.alpha, alpha), "lpf zero: output zero, coefficient untouched");
    a_lpf g;
    a_lpf_init(&g, alpha);
    ASSERT(g.output == 0 && SAME(g.alpha, alpha) && BITS(g.output) == BITS(f.output), "lpf init: coefficient stored, output zero; zero restores the initial state");
    VERIF_CANARY();
}

/* ---- [P] high-pass: documented update V(n) = alpha*(V(n-1) + x(n) - x(n-1)) for ALL doubles ---- */
void h_hpf(void)
{
    ND(a_real, alpha, double); ND(a_real, out0, double); ND(a_real, in0, double); ND(a_real, vx, double);
    a_hpf f;
    f.alpha = alpha; f.output = out0; f.input = in0;
    a_real y = a_hpf_iter(&f, vx);
    ASSERT(SAME(y, alpha * (out0 + vx - in0)), "hpf: output = alpha*(output + x - previous input)");
    ASSERT(SAME(y, f.output) && SAME(f.input, vx) && SAME(f.alpha, alpha), "hpf: returns the stored output, caches the input, coefficient untouched");
    if (FINITE(vx) && in0 == vx && out0 == 0 && FINITE(alpha)) { ASSERT(y == 0, "hpf: constant input and decayed output stay at zero"); }
    a_hpf_zero(&f);
    ASSERT(f.output == 0 && f.input == 0 && SAME(f.alpha, alpha), "hpf zero: output and cached input zero, coefficient untouched");
    a_hpf g;
    a_hpf_init(&g, alpha);
    ASSERT(g.output == 0 && g.input == 0 && SAME(g.alpha, alpha), "hpf init: coefficient stored, state zero (zero restores it)");
    VERIF_CANARY();
}
