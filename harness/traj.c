/* C14: trapezoidal (src/trajtrap.c) and bell-shaped / double-S (src/trajbell.c) velocity-profile trajectories.
   Only what is decided by comparisons is stated here; kinematic limits, continuity and the end state are
   nonlinear real arithmetic with sqrt (not applicable, see props/C14.py). */
#include "contracts/verif.h"
#include "a/a.h"

#define ISNAN(x) ((x) != (x))
#define EQ(r, e) ((r) == (e) || (ISNAN(r) && ISNAN(e)))
#define BITS(lv) (*(unsigned long const *)&(lv))
#define BIG 0x1p200 /* |inputs| <= 2^200 */
#define INR(x) (-BIG <= (x) && (x) <= BIG)

#ifndef VERIF_NATIVE
/* assumed contract of the C library (what ISO C / IEEE 754 guarantee about the sign and the exceptional cases) */
double sqrt(double x)
{
    double r = nondet_double();
    __CPROVER_assume(x >= 0 ? (r >= 0 && (x == 0) == (r == 0) && (x - x == 0) == (r - r == 0)) : ISNAN(r));
#ifdef SQRT_TIGHT /* bounded companion units only: additionally r^2 within relative 2^-51 of x (satisfied by every correctly rounded sqrt), so that counterexamples replay with the real sqrt */
    __CPROVER_assume(!(x >= 0 && x - x == 0) || (r * r >= x * (1 - 0x1p-51) && r * r <= x * (1 + 0x1p-51)));
#endif
    return r;
}
#endif

#include "src/trajtrap.c"
#include "src/trajbell.c"

static a_real spec_abs(a_real x) { return x < 0 ? -x : x; }
static a_real spec_sat(a_real x, a_real lo, a_real hi) { return lo < x ? (x < hi ? x : hi) : lo; } /* documented clamp */

/* =====================================================================================================
   trapezoid generator
   ===================================================================================================== */
#define TRAP_ARGS                                                                                       \
    ND(a_real, vm, double); ND(a_real, ac, double); ND(a_real, de, double); ND(a_real, p0, double);     \
    ND(a_real, p1, double); ND(a_real, v0, double); ND(a_real, v1, double);
#define TRAP_PRIOR(c) /* arbitrary prior content of the context */                                     \
    ND(a_real, o_t, double); ND(a_real, o_p0, double); ND(a_real, o_p1, double); ND(a_real, o_v0, double); \
    ND(a_real, o_v1, double); ND(a_real, o_vc, double); ND(a_real, o_ta, double); ND(a_real, o_td, double); \
    ND(a_real, o_pa, double); ND(a_real, o_pd, double); ND(a_real, o_ac, double); ND(a_real, o_de, double); \
    (c).t = o_t; (c).p0 = o_p0; (c).p1 = o_p1; (c).v0 = o_v0; (c).v1 = o_v1; (c).vc = o_vc;            \
    (c).ta = o_ta; (c).td = o_td; (c).pa = o_pa; (c).pd = o_pd; (c).ac = o_ac; (c).de = o_de;

/* ---- [P] ac == de: returns 0 and plans nothing (the context is left as it was), for ALL doubles ---- */
void h_trap_gen_degenerate(void)
{
    TRAP_ARGS
    a_trajtrap c;
    TRAP_PRIOR(c)
    ASSUME(ac == de);
    a_real r = a_trajtrap_gen(&c, vm, ac, de, p0, p1, v0, v1);
    ASSERT(r == 0, "trap gen: equal acceleration and deceleration is refused with 0");
    ASSERT(BITS(c.t) == BITS(o_t) && BITS(c.p0) == BITS(o_p0) && BITS(c.p1) == BITS(o_p1) && BITS(c.v0) == BITS(o_v0) &&
           BITS(c.v1) == BITS(o_v1) && BITS(c.vc) == BITS(o_vc) && BITS(c.ta) == BITS(o_ta) && BITS(c.td) == BITS(o_td) &&
           BITS(c.pa) == BITS(o_pa) && BITS(c.pd) == BITS(o_pd) && BITS(c.ac) == BITS(o_ac) && BITS(c.de) == BITS(o_de),
           "trap gen: a refused request (ac == de) plans nothing: the context is untouched");
    VERIF_CANARY();
}

/* ---- [P] stored boundary data, clamping, the four-way plan shape; all arguments of magnitude <= 2^200.
        The case split is the library's own: peak velocity squared vc2 against vm^2, v0^2, v1^2 (recomputed here
        with the documented formula; the comparison with the code's value is by congruence) ---- */
static void check_trap_gen(a_trajtrap c, a_real vm, a_real ac, a_real de, a_real p0, a_real p1, a_real v0, a_real v1)
{
    a_real const m = spec_abs(vm);
    a_real const v0c = spec_sat(v0, -m, +m), v1c = spec_sat(v1, -m, +m);
    a_real const p = p1 - p0;
    a_real const v02 = v0c * v0c, v12 = v1c * v1c;
    a_real const vc2 = (v12 * ac - v02 * de - 2 * p * ac * de) / (ac - de);
    int const rev = p < 0;
    a_real r = a_trajtrap_gen(&c, vm, ac, de, p0, p1, v0, v1);
    ASSERT(c.p0 == p0 && c.p1 == p1, "trap gen: the boundary positions are stored");
    ASSERT(c.v0 == v0c, "trap gen: the initial velocity is stored clamped to [-|vm|, |vm|]");
    ASSERT(-m <= c.v0 && c.v0 <= m, "trap gen: the stored initial velocity is inside the velocity limit");
    if (vc2 <= 0)
    {
        ASSERT(r == 0, "trap gen: a request without a positive peak velocity is refused with 0");
        ASSERT(c.v1 == v1c && -m <= c.v1 && c.v1 <= m, "trap gen: the final velocity is stored clamped to [-|vm|, |vm|]");
    }
    else if (vc2 > m * m) /* acceleration, cruise, deceleration */
    {
        ASSERT(c.v1 == v1c && -m <= c.v1 && c.v1 <= m, "trap gen: the final velocity is stored clamped to [-|vm|, |vm|]");
        ASSERT(c.vc == (rev ? -m : m), "trap gen: cruise plan: the cruise velocity is the velocity limit with the sign of travel");
        ASSERT(EQ(r, c.t), "trap gen: the returned duration is the stored one");
        ASSERT(c.ac == ac && c.de == de, "trap gen: the accelerations are stored");
    }
    else if (vc2 > v02 && vc2 <= v12) /* acceleration only */
    {
        if (r != 0 || ISNAN(r))
        {
            ASSERT(c.vc == c.v1 || ISNAN(c.v1), "trap gen: acceleration-only plan ends at the recorded final velocity");
            ASSERT(rev ? c.v1 <= 0 : c.v1 >= 0, "trap gen: acceleration-only plan: the recorded final velocity has the sign of travel");
            ASSERT(EQ(c.ta, c.t) && EQ(c.td, c.t) && c.pd == p1, "trap gen: acceleration-only plan: no cruise and no final blend (ta == td == t, pd == p1)");
            ASSERT(EQ(r, c.t) && c.ac == ac && c.de == de, "trap gen: the returned duration is the stored one; the accelerations are stored");
        }
    }
    else if (vc2 <= v02 && vc2 > v12) /* deceleration only */
    {
        if (r != 0 || ISNAN(r))
        {
            ASSERT(c.vc == c.v0, "trap gen: deceleration-only plan starts from the (clamped) initial velocity");
            ASSERT(rev ? c.v1 <= 0 : c.v1 >= 0, "trap gen: deceleration-only plan: the recorded final velocity has the sign of travel");
            ASSERT(c.ta == 0 && c.td == 0 && c.pa == p0 && c.pd == p0, "trap gen: deceleration-only plan: the final blend starts at time 0 from the initial position");
            ASSERT(EQ(r, c.t) && c.ac == ac && c.de == de, "trap gen: the returned duration is the stored one; the accelerations are stored");
            /* the motion starts at the initial state: the evaluators at time 0 */
            if (c.t > 0)
            {
                ASSERT(a_trajtrap_pos(&c, 0) == c.p0, "trap: deceleration-only plan: the position at time 0 is the initial position");
                ASSERT(a_trajtrap_vel(&c, 0) == c.v0, "trap: deceleration-only plan: the velocity at time 0 is the (clamped) initial velocity");
            }
        }
    }
    else if (!ISNAN(vc2)) /* acceleration, deceleration */
    {
        ASSERT(c.v1 == v1c && -m <= c.v1 && c.v1 <= m, "trap gen: the final velocity is stored clamped to [-|vm|, |vm|]");
        ASSERT(rev ? c.vc <= 0 : c.vc >= 0, "trap gen: triangular plan: the peak velocity has the sign of travel");
        ASSERT(EQ(c.ta, c.td) && EQ(c.pd, c.pa), "trap gen: triangular plan: no cruise (ta == td, pd == pa)");
        ASSERT(EQ(r, c.t) && c.ac == ac && c.de == de, "trap gen: the returned duration is the stored one; the accelerations are stored");
    }
}
void h_trap_gen(void)
{
    TRAP_ARGS
    a_trajtrap c;
    TRAP_PRIOR(c)
    ASSUME(INR(vm) && INR(ac) && INR(de) && INR(p0) && INR(p1) && INR(v0) && INR(v1) && ac != de);
    check_trap_gen(c, vm, ac, de, p0, p1, v0, v1);
    VERIF_CANARY();
}
/* ---- [B small integer requests] the same clauses on a domain the back end can enumerate: on a changed library the
        unbounded unit above needs a counter-model of nonlinear float constraints, which cvc5 does not find within minutes;
        here a violated clause is reported with a concrete request in seconds ---- */
#ifndef DS
#define DS 2
#endif
#define SMALLI(name) ND(int, i_##name, int); ASSUME(-(DS) <= i_##name && i_##name <= (DS)); a_real const name = i_##name
void h_trap_gen_small(void)
{
    SMALLI(vm); SMALLI(ac); SMALLI(de); SMALLI(p0); SMALLI(p1); SMALLI(v0); SMALLI(v1);
    a_trajtrap c;
    c.t = c.p0 = c.p1 = c.v0 = c.v1 = c.vc = c.ta = c.td = c.pa = c.pd = c.ac = c.de = 0;
    ASSUME(ac != de);
    check_trap_gen(c, vm, ac, de, p0, p1, v0, v1);
    VERIF_CANARY();
}

/* ---- [P] lemma: adding a non-negative duration does not move a time backwards (closes t >= td above) ---- */
void h_lemma_add(void)
{
    ND(a_real, q, double); ND(a_real, d, double);
    ASSUME(q >= 0);
    a_real const t = q + d;
    ASSERT(t >= d || ISNAN(d) || ISNAN(t), "lemma: q >= 0 implies q + d >= d (unless d or the sum is NaN)");
    VERIF_CANARY();
}

/* =====================================================================================================
   trapezoid evaluators: ANY context with ordered phase times 0 <= ta <= td <= t (all other fields any double)
   ===================================================================================================== */
#define TRAP_CTX(c)                                                                                     \
    a_trajtrap c;                                                                                       \
    TRAP_PRIOR(c)                                                                                       \
    ND(a_real, x, double);                                                                              \
    ASSUME(0 <= c.ta && c.ta <= c.td && c.td <= c.t && !ISNAN(x));
void h_trap_eval(void)
{
    TRAP_CTX(c)
    a_real const pos = a_trajtrap_pos(&c, x), vel = a_trajtrap_vel(&c, x), acc = a_trajtrap_acc(&c, x);
    if (x < 0)
    {
        ASSERT(EQ(pos, c.p0) && EQ(vel, c.v0), "trap: before the start position and velocity hold the initial state");
        ASSERT(acc == 0, "trap: before the start the acceleration is zero");
    }
    if (x == 0 && c.ta > 0)
    {
        ASSERT(EQ(pos, c.p0) && EQ(vel, c.v0), "trap: at the start position and velocity are the initial state");
        ASSERT(EQ(acc, c.ac), "trap: at the start of an acceleration phase the acceleration is ac");
    }
    if (x >= c.t)
    {
        ASSERT(EQ(pos, c.p1) && EQ(vel, c.v1), "trap: from the end on position and velocity hold the final state");
    }
    if (x > c.t) { ASSERT(acc == 0, "trap: after the end the acceleration is zero"); }
    /* the three evaluators select the same phase for the same time */
    if (0 < x && x < c.ta)
    {
        ASSERT(EQ(pos, c.p0 + c.v0 * x + A_REAL_C(0.5) * c.ac * x * x), "trap: initial blend: position p0 + v0 x + ac x^2 / 2");
        ASSERT(EQ(vel, c.v0 + c.ac * x), "trap: initial blend: velocity v0 + ac x");
        ASSERT(EQ(acc, c.ac), "trap: initial blend: acceleration ac");
    }
    if (c.ta <= x && x < c.td)
    {
        ASSERT(EQ(pos, c.pa + c.vc * (x - c.ta)), "trap: cruise: position pa + vc (x - ta)");
        ASSERT(EQ(vel, c.vc), "trap: cruise: velocity vc");
        ASSERT(acc == 0, "trap: cruise: acceleration 0");
    }
    if (c.td <= x && x < c.t)
    {
        a_real const y = x - c.td;
        ASSERT(EQ(pos, c.pd + c.vc * y + A_REAL_C(0.5) * c.de * y * y), "trap: final blend: position pd + vc y + de y^2 / 2, y = x - td");
        ASSERT(EQ(vel, c.vc + c.de * (x - c.td)), "trap: final blend: velocity vc + de (x - td)");
        ASSERT(EQ(acc, c.de), "trap: final blend: acceleration de");
    }
    VERIF_CANARY();
}

/* =====================================================================================================
   bell profile (double S)
   ===================================================================================================== */
#define BELL_PRIOR(c)                                                                                   \
    ND(a_real, o_t, double); ND(a_real, o_tv, double); ND(a_real, o_ta, double); ND(a_real, o_td, double); \
    ND(a_real, o_taj, double); ND(a_real, o_tdj, double); ND(a_real, o_p0, double); ND(a_real, o_p1, double); \
    ND(a_real, o_v0, double); ND(a_real, o_v1, double); ND(a_real, o_vm, double); ND(a_real, o_jm, double); \
    ND(a_real, o_am, double); ND(a_real, o_dm, double);                                                 \
    (c).t = o_t; (c).tv = o_tv; (c).ta = o_ta; (c).td = o_td; (c).taj = o_taj; (c).tdj = o_tdj;         \
    (c).p0 = o_p0; (c).p1 = o_p1; (c).v0 = o_v0; (c).v1 = o_v1; (c).vm = o_vm; (c).jm = o_jm;           \
    (c).am = o_am; (c).dm = o_dm;

/* ---- [P] lemma: a clamped value is inside the limit ---- */
void h_lemma_sat(void)
{
    ND(a_real, x, double); ND(a_real, vm, double);
    ASSUME(!ISNAN(vm));
    a_real const m = spec_abs(vm), y = spec_sat(x, -m, +m);
    ASSERT(-m <= y && y <= m, "lemma: a value clamped to [-|vm|, |vm|] is inside the velocity limit (NaN is clamped to -|vm|)");
    VERIF_CANARY();
}

/* ---- generator: stored boundary data, clamping, limits made positive, duration bookkeeping; in a no-cruise plan with
        both an acceleration and a deceleration phase the constant-acceleration segments have non-negative duration.
        The bisection loop is closed by a loop contract (props/C14.py): every clause below holds on every exit of
        every iteration. ---- */
static void check_bell_gen(int full, a_trajbell c, a_real jm, a_real am, a_real vm, a_real p0, a_real p1, a_real v0, a_real v1)
{
    a_real const m = spec_abs(vm);
    a_real const v0c = spec_sat(v0, -m, +m), v1c = spec_sat(v1, -m, +m);
    a_real r = a_trajbell_gen(&c, jm, am, vm, p0, p1, v0, v1);
    ASSERT(c.p0 == p0 && c.p1 == p1, "bell gen: the boundary positions are stored");
    ASSERT(c.v0 == v0c && c.v1 == v1c, "bell gen: the boundary velocities are stored clamped to [-|vm|, |vm|]");
    /* hence inside the velocity limit: h_lemma_sat (the direct obligation -m <= c.v0 <= m takes cvc5 between 160 s and > 300 s here) */
    ASSERT(c.jm == spec_abs(jm), "bell gen: the stored jerk limit is the magnitude of the requested one");
    ASSERT(EQ(r, c.t), "bell gen: the returned duration is the stored one (0 for a refused request)");
    if (full && r != 0) { ASSERT(EQ(c.t, c.ta + c.tv + c.td), "bell gen: the phase durations add up to the total (t == ta + tv + td)"); } /* equality of two adders: cvc5 only */
    if (r != 0) { ASSERT(c.tv >= 0 || ISNAN(c.tv), "bell gen: the cruise phase has non-negative duration"); }
    if (r > 0 && c.tv == 0 && c.ta > 0 && c.td > 0)
    {
        ASSERT(c.ta >= 2 * c.taj, "bell gen: no-cruise plan with both phases: the constant-acceleration segment has non-negative duration (ta >= 2 taj)");
        ASSERT(c.td >= 2 * c.tdj, "bell gen: no-cruise plan with both phases: the constant-deceleration segment has non-negative duration (td >= 2 tdj)");
    }
    if (!full && r > 0 && c.tv > 0)
    {
        /* cruise plan (exact domain only: the branch tests (vm - v) * jm < am^2 are exact on small integers, and rounding is monotonic):
           each ramp is built from ITS OWN velocity gap, so both constant segments are non-negative and the peak
           acceleration / deceleration stays inside the limit (1 ulp-scale slack for the rounded sqrt) */
        ASSERT(c.ta >= 2 * c.taj, "bell gen: cruise plan: the constant-acceleration segment has non-negative duration (ta >= 2 taj)");
        ASSERT(c.td >= 2 * c.tdj, "bell gen: cruise plan: the constant-deceleration segment has non-negative duration (td >= 2 tdj)");
        ASSERT(c.am >= 0 && c.am <= spec_abs(am) * (1 + 0x1p-40), "bell gen: cruise plan: the peak acceleration stays within the acceleration limit");
        ASSERT(c.dm <= 0 && -c.dm <= spec_abs(am) * (1 + 0x1p-40), "bell gen: cruise plan: the peak deceleration stays within the acceleration limit");
    }
}
void h_bell_gen(void)
{
#ifdef BELL_REACH /* vacuity guard of h_bell_gen, decided on one admissible request (the test suite's): the preconditions below are
                     satisfiable and the generator returns; finding a model of the unrestricted harness takes the back end ~5 min */
    a_real const jm = 3, am = 2, vm = 3, p0 = 0, p1 = 10, v0 = 0, v1 = 0;
#else
    ND(a_real, jm, double); ND(a_real, am, double); ND(a_real, vm, double); ND(a_real, p0, double);
    ND(a_real, p1, double); ND(a_real, v0, double); ND(a_real, v1, double);
#endif
    a_trajbell c;
    BELL_PRIOR(c)
    ASSUME(INR(jm) && INR(am) && INR(vm) && INR(p0) && INR(p1) && INR(v0) && INR(v1));
    check_bell_gen(1, c, jm, am, vm, p0, p1, v0, v1);
#ifndef BELL_NOCANARY /* the unrestricted unit leaves reachability to the unit compiled with BELL_REACH (same harness) */
    VERIF_CANARY();
#endif
}
/* ---- [B small integer requests, bisection unwound BU iterations] the same clauses on a domain where a violated clause is
        reported with a concrete request quickly (see h_trap_gen_small); paths needing more iterations are cut ---- */
void h_bell_gen_small(void)
{
    SMALLI(jm); SMALLI(am); SMALLI(vm); SMALLI(p0); SMALLI(p1); SMALLI(v0); SMALLI(v1);
    ASSUME(jm >= 1 && am >= 1 && vm >= 1 && -1 <= p0 && p0 <= 1 && -2 <= p1 && p1 <= 2); /* limits 1..DS, velocities -DS..DS (clamping is exercised) */
    a_trajbell c;
    c.t = c.tv = c.ta = c.td = c.taj = c.tdj = c.p0 = c.p1 = c.v0 = c.v1 = c.vm = c.jm = c.am = c.dm = 0;
    ASSUME(jm != 0 && am != 0 && vm != 0);
    check_bell_gen(0, c, jm, am, vm, p0, p1, v0, v1);
    VERIF_CANARY();
}

#define ORDER_CLOSURE (0 <= b2 && 0 <= b3 && b1 <= b3 && b1 <= b5 && b1 <= b7 && b2 <= b5 && b2 <= b7 && b3 <= b5 && b3 <= b6 && b3 <= b7 && b4 <= b6 && b4 <= b7 && b5 <= b7)
void h_lemma_order(void)
{
    ND(a_real, b1, double); ND(a_real, b2, double); ND(a_real, b3, double); ND(a_real, b4, double);
    ND(a_real, b5, double); ND(a_real, b6, double); ND(a_real, b7, double);
    ASSUME(0 <= b1 && b1 <= b2 && b2 <= b3 && b3 <= b4 && b4 <= b5 && b5 <= b6 && b6 <= b7);
    ASSERT(ORDER_CLOSURE, "lemma: the ordering of the segment boundaries is transitive");
    VERIF_CANARY();
}

/* ---- evaluators: ANY context whose seven segment boundaries, computed as the evaluators compute them, are ordered
        0 <= taj <= ta-taj <= ta <= ta+tv <= t-td+tdj <= t-tdj <= t (all other fields any double) ---- */
#define BELL_CTX                                                                                        \
    a_trajbell c;                                                                                       \
    BELL_PRIOR(c)                                                                                       \
    ND(a_real, x, double);                                                                              \
    a_real const b1 = c.taj, b2 = c.ta - c.taj, b3 = c.ta, b4 = c.ta + c.tv, b5 = c.t - c.td + c.tdj, b6 = c.t - c.tdj, b7 = c.t; \
    ASSUME(0 <= b1 && b1 <= b2 && b2 <= b3 && b3 <= b4 && b4 <= b5 && b5 <= b6 && b6 <= b7 && !ISNAN(x)); \
    ASSUME(ORDER_CLOSURE); /* no restriction: implied by the chain (h_lemma_order); spelled out to spare the back end the transitivity chains */ \
    ASSUME(!ISNAN(c.p0) && !ISNAN(c.p1));                                                               \
    int const rev = c.p0 > c.p1;
#define MIR(y) (rev ? -(y) : (y))

/* before the start, at the start, from the end on: the boundary state is held */
void h_bell_hold(void)
{
    BELL_CTX
    ASSUME(x <= 0 || x >= b7);
    a_real const pos = a_trajbell_pos(&c, x), vel = a_trajbell_vel(&c, x), acc = a_trajbell_acc(&c, x), jer = a_trajbell_jer(&c, x);
    if (x < 0)
    {
        ASSERT(EQ(pos, c.p0), "bell: before the start the position holds the initial position");
        ASSERT(EQ(vel, c.v0), "bell: before the start the velocity holds the initial velocity");
        ASSERT(acc == 0, "bell: before the start the acceleration is zero");
        ASSERT(jer == 0, "bell: before the start the jerk is zero");
    }
    if (x == 0 && b1 > 0)
    {
        ASSERT(EQ(pos, c.p0), "bell: at the start the position is the initial position");
        ASSERT(EQ(vel, c.v0), "bell: at the start the velocity is the initial velocity");
        ASSERT(acc == 0, "bell: at the start the acceleration is zero");
    }
    if (x >= b7)
    {
        ASSERT(EQ(pos, c.p1), "bell: from the end on the position holds the final position");
        ASSERT(EQ(vel, c.v1), "bell: from the end on the velocity holds the final velocity");
        ASSERT(acc == 0, "bell: from the end on the acceleration is zero");
    }
    if (x > b7) { ASSERT(jer == 0, "bell: after the end the jerk is zero"); }
    (void)rev;
    VERIF_CANARY();
}

/* the jerk takes no other value than +jm, -jm, 0: for EVERY context and time (no hypothesis at all) */
void h_bell_jerk(void)
{
    a_trajbell c;
    BELL_PRIOR(c)
    ND(a_real, x, double);
    a_real const jer = a_trajbell_jer(&c, x);
    ASSERT(EQ(jer, c.jm) || EQ(jer, -c.jm) || jer == 0, "bell: the jerk is +jm, -jm or 0 at every time, for every context");
    VERIF_CANARY();
}

#ifndef SEG
#define SEG 1
#endif
/* inside the motion: the four evaluators select the same segment for the same time; direction mirroring is applied by all */
void h_bell_eval(void)
{
    BELL_CTX
    ASSUME(0 < x && x < b7);
    /* one unit per segment (-DSEG=k): with the segment as a top-level hypothesis each obligation takes seconds instead of minutes */
    ASSUME((SEG == 1 && x < b1) || (SEG == 2 && b1 <= x && x < b2) || (SEG == 3 && b2 <= x && x < b3) || (SEG == 4 && b3 <= x && x < b4) ||
           (SEG == 5 && b4 <= x && x < b5) || (SEG == 6 && b5 <= x && x < b6) || (SEG == 7 && b6 <= x));
    a_real const q0 = rev ? -c.p0 : c.p0, q1 = rev ? -c.p1 : c.p1, w0 = rev ? -c.v0 : c.v0, w1 = rev ? -c.v1 : c.v1; /* mirrored boundary data */
    a_real const pos = a_trajbell_pos(&c, x), vel = a_trajbell_vel(&c, x), acc = a_trajbell_acc(&c, x), jer = a_trajbell_jer(&c, x);
    /* the four evaluators select the same segment for the same time; direction mirroring is applied by all of them */
#if SEG == 1
    if (0 < x && x < b1)
    {
        ASSERT(EQ(pos, MIR(q0 + w0 * x + c.jm * x * x * x / 6)), "bell: segment 1 (jerk +jm): position");
        ASSERT(EQ(vel, MIR(w0 + A_REAL_C(0.5) * c.jm * x * x)), "bell: segment 1 (jerk +jm): velocity");
        ASSERT(EQ(acc, MIR(c.jm * x)), "bell: segment 1 (jerk +jm): acceleration jm x");
        ASSERT(EQ(jer, MIR(c.jm)), "bell: segment 1: jerk +jm (mirrored for reverse travel)");
    }
#endif
#if SEG == 2
    if (b1 <= x && x < b2)
    {
        ASSERT(EQ(pos, MIR(q0 + w0 * x + c.am * (3 * x * x - 3 * x * c.taj + c.taj * c.taj) / 6)), "bell: segment 2 (constant acceleration): position");
        ASSERT(EQ(vel, MIR(w0 + c.am * (x - A_REAL_C(0.5) * c.taj))), "bell: segment 2 (constant acceleration): velocity");
        ASSERT(EQ(acc, MIR(c.am)), "bell: segment 2: acceleration am");
        ASSERT(jer == 0, "bell: segment 2: jerk 0");
    }
#endif
#if SEG == 3
    if (b2 <= x && x < b3)
    {
        a_real const y = c.ta - x;
        ASSERT(EQ(pos, MIR(q0 + A_REAL_C(0.5) * (c.vm + w0) * c.ta - c.vm * y + c.jm * y * y * y / 6)), "bell: segment 3 (jerk -jm): position");
        ASSERT(EQ(vel, MIR(c.vm - A_REAL_C(0.5) * c.jm * y * y)), "bell: segment 3 (jerk -jm): velocity");
        ASSERT(EQ(acc, MIR(c.jm * (c.ta - x))), "bell: segment 3 (jerk -jm): acceleration jm (ta - x)");
        ASSERT(EQ(jer, MIR(-c.jm)), "bell: segment 3: jerk -jm (mirrored for reverse travel)");
    }
#endif
#if SEG == 4
    if (b3 <= x && x < b4)
    {
        ASSERT(EQ(pos, MIR(q0 + A_REAL_C(0.5) * (c.vm + w0) * c.ta + c.vm * (x - c.ta))), "bell: segment 4 (cruise): position");
        ASSERT(EQ(vel, MIR(c.vm)), "bell: segment 4 (cruise): velocity vm");
        ASSERT(acc == 0 && jer == 0, "bell: segment 4 (cruise): acceleration and jerk 0");
    }
#endif
#if SEG == 5
    if (b4 <= x && x < b5)
    {
        a_real const y = x - (c.t - c.td);
        ASSERT(EQ(pos, MIR(q1 - A_REAL_C(0.5) * (c.vm + w1) * c.td + c.vm * y - c.jm * y * y * y / 6)), "bell: segment 5 (jerk -jm): position");
        ASSERT(EQ(vel, MIR(c.vm - A_REAL_C(0.5) * c.jm * y * y)), "bell: segment 5 (jerk -jm): velocity");
        ASSERT(EQ(acc, MIR(-c.jm * (x - c.t + c.td))), "bell: segment 5 (jerk -jm): acceleration -jm (x - t + td)");
        ASSERT(EQ(jer, MIR(-c.jm)), "bell: segment 5: jerk -jm (mirrored for reverse travel)");
    }
#endif
#if SEG == 6
    if (b5 <= x && x < b6)
    {
        a_real const y = x - (c.t - c.td);
        ASSERT(EQ(pos, MIR(q1 - A_REAL_C(0.5) * (c.vm + w1) * c.td + c.vm * y + c.dm * (3 * y * y - 3 * y * c.tdj + c.tdj * c.tdj) / 6)), "bell: segment 6 (constant deceleration): position");
        ASSERT(EQ(vel, MIR(c.vm + c.dm * (x - c.t + c.td - A_REAL_C(0.5) * c.tdj))), "bell: segment 6 (constant deceleration): velocity");
        ASSERT(EQ(acc, MIR(c.dm)), "bell: segment 6: acceleration dm");
        ASSERT(jer == 0, "bell: segment 6: jerk 0");
    }
#endif
#if SEG == 7
    if (b6 <= x && x < b7)
    {
        a_real const y = c.t - x;
        ASSERT(EQ(pos, MIR(q1 - w1 * y - c.jm * y * y * y / 6)), "bell: segment 7 (jerk +jm): position");
        ASSERT(EQ(vel, MIR(w1 + A_REAL_C(0.5) * c.jm * y * y)), "bell: segment 7 (jerk +jm): velocity");
        ASSERT(EQ(acc, MIR(-c.jm * (c.t - x))), "bell: segment 7 (jerk +jm): acceleration -jm (t - x)");
        ASSERT(EQ(jer, MIR(c.jm)), "bell: segment 7: jerk +jm (mirrored for reverse travel)");
    }
#endif
    VERIF_CANARY();
}
