/* C15 (polynomial part): a_poly_swap_/a_poly_swap, a_poly_eval_/a_poly_eval, a_poly_evar_/a_poly_evar of /repo/src/poly.c
   (the n-forms are the inline bodies of include/a/poly.h, compiled out of line by src/poly.c) */
#include "contracts/verif.h"
#include "a/a.h"

#define ISNAN(x) ((x) != (x))
#define EQ(r, e) ((r) == (e) || (ISNAN(r) && ISNAN(e))) /* same value (both NaN counts as same) */

/* ghost parameters of the reversal contracts: length, witness index (stands for "for all w < n") and the
   bit patterns of the witness element and of its mirror element before the call */
a_size verif_n;
a_size verif_w;
a_real verif_ow; /* value of element w before the call (a number; NaN payloads are covered on bit level by h_poly_swap_small) */
a_real verif_om; /* value of element n-1-w before the call */
#define BITS(lv) (*(unsigned long const *)&(lv)) /* the object representation: reversal moves bits, NaNs included */

#ifndef VERIF_NATIVE
/* what h_poly_swap_small decides about a_poly_swap_ (same pre/post text), in the form used for replacement
   at the call site inside a_poly_swap: the block a[0..n) is reversed, witness w */
void a_poly_swap_(a_real *a, a_real *b);
void contract_a_poly_swap_(a_real *a, a_real *b)
    __CPROVER_requires(verif_n >= 1 && verif_n <= (1ul << 40) && verif_w < verif_n)
    __CPROVER_requires(__CPROVER_rw_ok(a, verif_n * sizeof(a_real)))
    __CPROVER_requires(__CPROVER_same_object(a, b) && __CPROVER_POINTER_OFFSET(b) == __CPROVER_POINTER_OFFSET(a) + verif_n * sizeof(a_real))
    __CPROVER_requires(a[verif_w] == verif_ow && a[verif_n - 1 - verif_w] == verif_om)
    __CPROVER_assigns(__CPROVER_object_upto(a, verif_n * sizeof(a_real)))
    __CPROVER_ensures(a[verif_w] == verif_om && a[verif_n - 1 - verif_w] == verif_ow);
#endif

#include "src/poly.c"

/* ---- the definitions (include/a/poly.h): ascending order  S_n = a_n, S_i = S_{i+1} x + a_i, P = S_0;
        descending order S_0 = a_0, S_i = S_{i-1} x + a_i, P = S_n.  Index form, written from the header text. ---- */
static a_real spec_horner_asc(a_real const *q, unsigned n, a_real x)
{
    a_real s = q[n - 1];
    unsigned i;
    for (i = n - 1; i > 0; --i) { s = s * x + q[i - 1]; }
    return s;
}
static a_real spec_horner_desc(a_real const *q, unsigned n, a_real x)
{
    a_real s = q[0];
    unsigned i;
    for (i = 1; i < n; ++i) { s = s * x + q[i]; }
    return s;
}

#define NMAX 9 /* up to 9 coefficients = degree 8 */
#define DECL_Q                                                                                          \
    ND(a_real, q0, double); ND(a_real, q1, double); ND(a_real, q2, double); ND(a_real, q3, double);     \
    ND(a_real, q4, double); ND(a_real, q5, double); ND(a_real, q6, double); ND(a_real, q7, double);     \
    ND(a_real, q8, double);                                                                             \
    a_real q[NMAX];                                                                                     \
    q[0] = q0; q[1] = q1; q[2] = q2; q[3] = q3; q[4] = q4; q[5] = q5; q[6] = q6; q[7] = q7; q[8] = q8;
#define FOR_K(M) M(1) M(2) M(3) M(4) M(5) M(6) M(7) M(8) M(9)

/* ---- [B degree <= 8] evaluation in ascending order == the Horner value; exactly sized arrays, so any access
        outside a[0..n) is a pointer-check failure; all coefficient values and x (NaN, infinities included) ---- */
#define EVAL_K(K)                                                                                       \
    {                                                                                                   \
        a_real a[K];                                                                                    \
        unsigned i;                                                                                     \
        for (i = 0; i < K; ++i) { a[i] = q[i]; }                                                        \
        a_real r = a_poly_eval_(a, a + K, x);                                                           \
        ASSERT(EQ(r, spec_horner_asc(q, K, x)), "eval_: equals the Horner value of sum a_i x^i, " #K " coefficients"); \
        ASSERT(EQ(a_poly_eval(a, K, x), r), "eval: the length form equals the pointer form, " #K " coefficients"); \
    }
void h_poly_eval(void)
{
    DECL_Q
    ND(a_real, x, double);
    FOR_K(EVAL_K)
    ASSERT(a_poly_eval(q, 0, x) == 0, "eval: the empty polynomial evaluates to 0");
    VERIF_CANARY();
}

/* ---- [B degree <= 8] evaluation in descending order == the Horner value ---- */
#define EVAR_K(K)                                                                                       \
    {                                                                                                   \
        a_real a[K];                                                                                    \
        unsigned i;                                                                                     \
        for (i = 0; i < K; ++i) { a[i] = q[i]; }                                                        \
        a_real r = a_poly_evar_(a, a + K, x);                                                           \
        ASSERT(EQ(r, spec_horner_desc(q, K, x)), "evar_: equals the Horner value of sum a_i x^(n-i), " #K " coefficients"); \
        ASSERT(EQ(a_poly_evar(a, K, x), r), "evar: the length form equals the pointer form, " #K " coefficients"); \
    }
void h_poly_evar(void)
{
    DECL_Q
    ND(a_real, x, double);
    FOR_K(EVAR_K)
    ASSERT(a_poly_evar(q, 0, x) == 0, "evar: the empty polynomial evaluates to 0");
    VERIF_CANARY();
}

/* ---- [B degree <= 8] the two orders denote the same polynomial after order reversal:
        eval(a) == evar(swap a) and evar(a) == eval(swap a), reversal done by the library's a_poly_swap ---- */
#define BOTH_K(K)                                                                                       \
    {                                                                                                   \
        a_real a[K], b[K];                                                                              \
        unsigned i;                                                                                     \
        for (i = 0; i < K; ++i) { a[i] = b[i] = q[i]; }                                                 \
        a_poly_swap(b, K);                                                                              \
        ASSERT(EQ(a_poly_eval(a, K, x), a_poly_evar(b, K, x)), "eval(a) == evar(swap a), " #K " coefficients"); \
        ASSERT(EQ(a_poly_evar(a, K, x), a_poly_eval(b, K, x)), "evar(a) == eval(swap a), " #K " coefficients"); \
    }
void h_poly_both(void)
{
    DECL_Q
    ND(a_real, x, double);
    FOR_K(BOTH_K)
    VERIF_CANARY();
}

/* ---- [B n <= 16] order reversal, element by element on the object representation (NaN payloads included), both
        forms, every length 0..16 on an exactly sized array (any access outside it is a pointer-check failure);
        reversing twice restores the vector.
        (An unbounded version of a_poly_swap_ under a DFCC loop contract was tried: invariant base and step are
        discharged, but the moving pointers a, b are havocked by the loop contract, every *a, *b then splits over all
        objects and the post-loop obligation got no answer in 250 s / 17 GB with MiniSat, z3 and cvc5; a heap block of
        symbolic size n <= 32 with the loop unwound needs > 12 GB as well.) ---- */
#define SMAX 16
#define QS(i) ND(a_real, s##i, double); s[i] = s##i; /* named scalars: the native replay takes inputs by variable name */
#define SWAP_K(K)                                                                                       \
    {                                                                                                   \
        a_real a[K], b[K];                                                                              \
        unsigned i;                                                                                     \
        for (i = 0; i < K; ++i) { a[i] = b[i] = s[i]; }                                                 \
        a_poly_swap(a, K);                                                                              \
        a_poly_swap_(b, b + K);                                                                         \
        for (i = 0; i < K; ++i)                                                                         \
        {                                                                                               \
            ASSERT(BITS(a[i]) == BITS(s[K - 1 - i]), "swap: element i becomes the former element n-1-i, n = " #K); \
            ASSERT(BITS(b[i]) == BITS(s[K - 1 - i]), "swap_: element i becomes the former element n-1-i, n = " #K); \
        }                                                                                               \
        a_poly_swap(a, K);                                                                              \
        a_poly_swap_(b, b + K);                                                                         \
        for (i = 0; i < K; ++i)                                                                         \
        {                                                                                               \
            ASSERT(BITS(a[i]) == BITS(s[i]) && BITS(b[i]) == BITS(s[i]), "swap, swap_: reversing twice restores the vector, n = " #K); \
        }                                                                                               \
    }
void h_poly_swap_small(void)
{
    a_real s[SMAX];
    QS(0) QS(1) QS(2) QS(3) QS(4) QS(5) QS(6) QS(7) QS(8) QS(9) QS(10) QS(11) QS(12) QS(13) QS(14) QS(15)
    FOR_K(SWAP_K)
    SWAP_K(10) SWAP_K(11) SWAP_K(12) SWAP_K(13) SWAP_K(14) SWAP_K(15) SWAP_K(16)
    {
        a_real a[1];
        a[0] = s[0];
        a_poly_swap(a, 0);
        ASSERT(BITS(a[0]) == BITS(s[0]), "swap: n = 0 touches nothing");
    }
    VERIF_CANARY();
}

/* ---- a_poly_swap for ANY length (0, 1, 2 included): the guard and the call protocol; a_poly_swap_ is replaced by its
        reversal contract (decided by h_poly_swap_small for lengths <= 16 only, hence level B) ---- */
void h_poly_swap_n(void)
{
    ND(a_size, n, size);
    ND(a_size, w, size);
    ASSUME(n <= (1ul << 40) && (w < n || (n == 0 && w == 0)));
    a_real *a = (a_real *)malloc(n ? n * sizeof(a_real) : sizeof(a_real));
    ASSUME(a != 0);
    a_size m = n ? n - 1 - w : 0;
    ND(a_real, ew, double); /* content of the witness element and of its mirror element; the rest of the fresh block is arbitrary */
    ND(a_real, em, double);
    ASSUME(!ISNAN(ew) && !ISNAN(em));
    a[w] = ew;
    a[m] = em;
    verif_n = n;
    verif_w = w;
    verif_ow = a[w];
    verif_om = a[m];
    a_poly_swap(a, n);
    ASSERT(a[w] == verif_om, "swap: element w becomes the former element n-1-w (any n incl. 0, 1, 2; witness w)");
    ASSERT(a[m] == verif_ow, "swap: element n-1-w becomes the former element w (any n incl. 0, 1, 2; witness w)");
    VERIF_CANARY();
}
