/* C06 / C07: dynamic string (src/str.c, a_utf_catc) against an abstract byte string.
   One harness per public operation: an arbitrary valid string object (capacity 0, 8 or 16, length <= capacity,
   contents symbolic incl. NUL and bytes >= 0x80, terminated or not) -> the real operation -> comparison with the
   abstract byte string through a ghost witness byte.  Allocator model may fail at every request (C07). */
#include "contracts/verif.h"
#include <stdarg.h>
#include <stdio.h>
#include <string.h>
#include "a/str.h"
#include "a/utf.h"

#define MAXM 16
#define MAXB 32 /* largest block the operations below can request */

int verif_live, verif_alloc_failed, verif_requests;
unsigned verif_fail_mask;
#ifndef VERIF_NATIVE
static void *sized_malloc(a_size size)
{
    void *p = A_NULL;
    _Bool found = 0;
    unsigned k;
    for (k = 8; k <= MAXB; k += 8) { if (!found && size == k) { p = malloc(k); found = 1; } }
    __CPROVER_assert(found, "allocator model: the requested size is one of the modelled sizes");
    __CPROVER_assume(found && p != A_NULL);
    return p;
}
static void *verif_alloc(void *addr, a_size size)
{
    if (size == 0)
    {
        if (addr) { free(addr); --verif_live; }
        return A_NULL;
    }
    if (verif_requests < 32 && ((verif_fail_mask >> verif_requests++) & 1)) { verif_alloc_failed = 1; return A_NULL; }
    unsigned char *p = (unsigned char *)sized_malloc(size);
    if (addr)
    {
        a_size old = __CPROVER_OBJECT_SIZE(addr), k;
        __CPROVER_assert(old <= MAXB, "allocator model: old block within the modelled size");
        for (k = 0; k < MAXB; ++k) { if (k < old && k < size) { p[k] = ((unsigned char *)addr)[k]; } }
        free(addr);
    }
    else { ++verif_live; }
    return p;
}
/* libc by assumed contracts / small models */
static void *verif_memcpy(void *dst, void const *src, size_t n)
{
    size_t k;
    __CPROVER_assert(n <= MAXB, "memcpy model: length within the modelled size");
    __CPROVER_assert(n == 0 || (__CPROVER_r_ok(src, n) && __CPROVER_w_ok(dst, n)), "memcpy: source readable and destination writable for n bytes");
    for (k = 0; k < MAXB; ++k) { if (k < n) { ((unsigned char *)dst)[k] = ((unsigned char const *)src)[k]; } }
    return dst;
}
static void *verif_memmove(void *dst, void const *src, size_t n)
{
    unsigned char tmp[MAXB];
    size_t k;
    __CPROVER_assert(n <= MAXB, "memmove model: length within the modelled size");
    __CPROVER_assert(n == 0 || (__CPROVER_r_ok(src, n) && __CPROVER_w_ok(dst, n)), "memmove: source readable and destination writable for n bytes");
    for (k = 0; k < MAXB; ++k) { if (k < n) { tmp[k] = ((unsigned char const *)src)[k]; } }
    for (k = 0; k < MAXB; ++k) { if (k < n) { ((unsigned char *)dst)[k] = tmp[k]; } }
    return dst;
}
/* the C formatter: produces the ghost output verif_F[0..verif_L) (no NUL inside), writes min(L, size-1) bytes and a
   NUL when size > 0, returns L - the ISO C contract of vsnprintf; the same output for the same format/arguments */
unsigned char verif_F[12];
int verif_L;
int verif_fmt_calls;
char const *verif_fmt_seen;
int vsnprintf(char *s, size_t n, char const *fmt, va_list ap)
{
    size_t k;
    (void)ap;
    ++verif_fmt_calls;
    __CPROVER_assert(verif_fmt_calls == 1 || fmt == verif_fmt_seen, "formatter: the second pass uses the same format");
    verif_fmt_seen = fmt;
    __CPROVER_assert(n == 0 || __CPROVER_w_ok(s, n), "formatter: the destination holds the stated size");
    if (n > 0)
    {
        for (k = 0; k < 12; ++k) { if (k < (size_t)verif_L && k + 1 < n) { s[k] = (char)verif_F[k]; } }
        s[(size_t)verif_L < n - 1 ? (size_t)verif_L : n - 1] = 0;
    }
    return verif_L;
}
static void *verif_memchr(void const *s, int c, size_t n) /* first occurrence of (unsigned char)c in s[0..n), n <= 2 here */
{
    unsigned char const *p = (unsigned char const *)s;
    __CPROVER_assert(n <= 2, "memchr model: set of at most two bytes");
    if (n > 0 && p[0] == (unsigned char)c) { return (void *)p; }
    if (n > 1 && p[1] == (unsigned char)c) { return (void *)(p + 1); }
    return A_NULL;
}
#define memcpy verif_memcpy
#define memmove verif_memmove
#define VERIF_MEMCHR
#else
static void *verif_alloc(void *addr, a_size size)
{
    if (!size) { if (addr) { free(addr); --verif_live; } return 0; }
    if (verif_requests < 32 && ((verif_fail_mask >> verif_requests++) & 1)) { verif_alloc_failed = 1; return 0; }
    if (!addr) { ++verif_live; }
    return realloc(addr, size);
}
#endif
#include "src/a.c"
#ifndef VERIF_NATIVE
#undef memcpy
#undef memmove
#endif
#include "src/utf.c"
#ifdef VERIF_MEMCHR
#define memchr verif_memchr
#endif
#include "src/str.c"
#ifdef VERIF_MEMCHR
#undef memchr
#endif

/* ---- the string under test and its abstract view ---- */
static a_str S;
static unsigned char old_[MAXM];
static a_size num, mem;
static char *blk0;
static void mk(void)
{
    unsigned k;
    a_alloc = verif_alloc;
    verif_live = 0; verif_alloc_failed = 0; verif_requests = 0;
    { ND(unsigned, fail_mask, u32); verif_fail_mask = fail_mask; }
    ND(a_size, n_, size); ND(a_size, m_, size); ND(_Bool, term, bool);
    ASSUME((m_ == 0 || m_ == 8 || m_ == 16) && n_ <= m_);
#ifdef SMALLCAP
    ASSUME(m_ <= 8 && n_ <= SMALLCAP); /* the loop-heavy trim units use short strings */
#endif
    num = n_; mem = m_;
    S.num_ = num; S.mem_ = mem;
    S.ptr_ = mem == 0 ? (char *)A_NULL : mem == 8 ? (char *)malloc(8) : (char *)malloc(16);
    ASSUME(mem == 0 || S.ptr_ != A_NULL);
    verif_live = mem ? 1 : 0;
    for (k = 0; k < MAXM; ++k) { if (k < mem) { unsigned char b; ND_ARR(b, old_, k, u8); S.ptr_[k] = (char)b; old_[k] = b; } }
    if (term) { ASSUME(num < mem && old_[num] == 0); } /* terminated state (what the terminating variants leave) */
    blk0 = S.ptr_;
}
#define WITNESS(w, bound) ND(a_size, w, size); ASSUME(w < (bound))
#define VALID() ASSERT(S.num_ <= S.mem_ && (S.ptr_ != A_NULL || S.mem_ == 0), "invariant: length <= capacity, storage present when capacity > 0")
#define TERMINATED() ASSERT(S.num_ < S.mem_ && S.ptr_[S.num_] == 0, "terminating variant: a NUL directly after the content, inside the capacity")
#define PREFIX_KEPT(upto) do { WITNESS(wp, MAXM); if (wp < (upto)) { ASSERT((unsigned char)S.ptr_[wp] == old_[wp], "existing content unchanged"); } } while (0)
#define UNCHANGED(what)                                                                                \
    do {                                                                                               \
        ASSERT(S.num_ == num && S.mem_ == mem && S.ptr_ == blk0, what ": length, capacity and block unchanged"); \
        PREFIX_KEPT(num);                                                                              \
    } while (0)
#define LEDGER() ASSERT(verif_live == (S.ptr_ ? 1 : 0), "ledger: exactly the owned block is live")

/* ---- capacity ---- */
void h_setm(void)
{
    mk();
    ND(a_size, m, size); ND(_Bool, raw, bool);
    ASSUME(m <= MAXB);
    if (raw) { ASSUME(m >= num); } /* the unchecked primitive must not be asked to cut into the content */
    int rc = raw ? a_str_setm_(&S, m) : a_str_setm(&S, m);
    if (rc != A_SUCCESS) { ASSERT(rc == A_OMEMORY && verif_alloc_failed, "setm: fails only when the allocation failed"); UNCHANGED("failed setm"); }
    else
    {
        a_size up = (m + 7) / 8 * 8;
        ASSERT(S.num_ == num, "setm: length kept");
        if (raw) { ASSERT(S.mem_ == up, "setm_: capacity is the request rounded up to the pointer size"); }
        else { ASSERT(S.mem_ == (m > mem ? up : mem) && S.mem_ >= mem, "setm: capacity only grows, rounded up to the pointer size"); }
        VALID();
        PREFIX_KEPT(num);
    }
    LEDGER();
    VERIF_CANARY();
}

/* ---- append one character ---- */
void h_catc(void)
{
    mk();
    ND(int, c, int); ND(_Bool, t, bool);
    int r = t ? a_str_catc(&S, c) : a_str_catc_(&S, c);
    if (r != c || (c == ~0 && S.num_ == num)) { ASSERT(r == ~0 && verif_alloc_failed, "catc: fails only when the allocation failed"); UNCHANGED("failed catc"); }
    else
    {
        ASSERT(S.num_ == num + 1 && S.ptr_[num] == (char)c, "catc: the character is appended");
        VALID();
        if (t) { TERMINATED(); }
        PREFIX_KEPT(num);
    }
    LEDGER();
    VERIF_CANARY();
}

/* ---- append a byte block / C string / another string ---- */
#define MAXN 9
static unsigned char src0[MAXN + 1];
static void chk_cat(int rc, a_size n, int t)
{
    if (rc != A_SUCCESS) { ASSERT(rc == A_OMEMORY && verif_alloc_failed, "cat: fails only when the allocation failed"); UNCHANGED("failed cat"); }
    else
    {
        ASSERT(S.num_ == num + n, "cat: length grows by the number of appended bytes");
        VALID();
        if (t) { TERMINATED(); }
        PREFIX_KEPT(num);
        { WITNESS(v, MAXN); if (v < n) { ASSERT((unsigned char)S.ptr_[num + v] == src0[v], "cat: the appended bytes are the source bytes (incl. NUL and >= 0x80)"); } }
    }
    LEDGER();
}
static unsigned char *mk_src(a_size n, int nul_terminated) /* exactly n (+1) bytes */
{
    unsigned k;
    a_size sz = n + (nul_terminated ? 1 : 0);
    unsigned char *p = A_NULL;
    _Bool found = 0;
    for (k = 0; k <= MAXN + 1; ++k) { if (!found && sz == k) { p = (unsigned char *)malloc(k ? k : 1); found = 1; } }
    ASSUME(found && p != A_NULL);
    for (k = 0; k < MAXN; ++k) { if (k < n) { unsigned char b; ND_ARR(b, src0, k, u8); if (nul_terminated) { ASSUME(b != 0); } p[k] = b; src0[k] = b; } }
    if (nul_terminated) { p[n] = 0; }
    return p;
}
void h_catn(void)
{
    mk();
    ND(a_size, n, size); ND(_Bool, t, bool);
    ASSUME(n <= MAXN);
    unsigned char *p = mk_src(n, 0);
    chk_cat(t ? a_str_catn(&S, p, n) : a_str_catn_(&S, p, n), n, t);
    VERIF_CANARY();
}
void h_cats(void)
{
    mk();
    ND(a_size, n, size); ND(_Bool, t, bool);
    ASSUME(n <= MAXN);
    unsigned char *p = mk_src(n, 1);
    chk_cat(t ? a_str_cats(&S, p) : a_str_cats_(&S, p), n, t);
    VERIF_CANARY();
}
void h_cat(void)
{
    mk();
    ND(a_size, n, size); ND(_Bool, t, bool);
    ASSUME(n <= MAXN);
    a_str O;
    O.ptr_ = (char *)mk_src(n, 0); O.num_ = n; O.mem_ = n;
    chk_cat(t ? a_str_cat(&S, &O) : a_str_cat_(&S, &O), n, t);
    ASSERT(O.num_ == n && O.mem_ == n, "cat: the source string is untouched");
    VERIF_CANARY();
}

/* ---- pop ---- */
void h_getc(void)
{
    mk();
    ND(_Bool, t, bool);
    int r = t ? a_str_getc(&S) : a_str_getc_(&S);
    if (num == 0) { ASSERT(r == ~0, "getc: empty string yields the sentinel"); UNCHANGED("getc on empty"); }
    else
    {
        ASSERT(S.num_ == num - 1 && S.mem_ == mem && S.ptr_ == blk0, "getc: length shrinks by one");
        ASSERT((unsigned char)r == old_[num - 1], "getc: returns the removed character");
        if (t) { TERMINATED(); }
        PREFIX_KEPT(num - 1);
    }
    VERIF_CANARY();
}
void h_getn(void)
{
    mk();
    ND(a_size, n, size); ND(_Bool, t, bool); ND(_Bool, nobuf, bool);
    unsigned char out[MAXM], out0[MAXM];
    unsigned k;
    for (k = 0; k < MAXM; ++k) { out[k] = out0[k] = 0xA5; }
    a_size r = t ? a_str_getn(&S, nobuf ? A_NULL : out, n) : a_str_getn_(&S, nobuf ? A_NULL : out, n);
    a_size take = n < num ? n : num;
    ASSERT(r == take && S.num_ == num - take && S.mem_ == mem && S.ptr_ == blk0, "getn: removes min(n, length) bytes from the end");
    if (t && take) { TERMINATED(); }
    PREFIX_KEPT(num - take);
    { WITNESS(v, MAXM); if (!nobuf) { ASSERT(out[v] == (v < take ? old_[num - take + v] : 0xA5), "getn: the removed suffix is copied out, nothing beyond it written"); } }
    VERIF_CANARY();
}

/* ---- length change ---- */
void h_setn(void)
{
    mk();
    ND(a_size, n, size);
    int rc = a_str_setn(&S, n);
    if (n <= mem) { ASSERT(rc == A_SUCCESS && S.num_ == n, "setn: a length within the capacity is accepted"); }
    else { ASSERT(rc == A_OBOUNDS && S.num_ == num, "setn: a length beyond the capacity is refused"); }
    ASSERT(S.mem_ == mem && S.ptr_ == blk0, "setn: capacity and block kept");
    VERIF_CANARY();
}

/* ---- ownership hand-over ---- */
void h_exit(void)
{
    mk();
    char *p = a_str_exit(&S);
    if (mem == 0) { ASSERT(p == A_NULL && S.num_ == 0 && S.mem_ == 0 && S.ptr_ == A_NULL, "exit: a string without storage yields null"); }
    else if (p == A_NULL) { ASSERT(num == mem && verif_alloc_failed, "exit: refuses only when a full string cannot get room for its terminator"); UNCHANGED("failed exit"); }
    else
    {
        ASSERT(S.ptr_ == A_NULL && S.num_ == 0 && S.mem_ == 0, "exit: the object is reset");
        ASSERT(p[num] == 0, "exit: the handed-over block is NUL terminated after the content");
        { WITNESS(w, MAXM); if (w < num) { ASSERT((unsigned char)p[w] == old_[w], "exit: the handed-over block holds the content"); } }
        ASSERT(verif_live == 1, "exit: ownership of the one live block passes to the caller");
        free(p);
    }
    VERIF_CANARY();
}
void h_swap(void)
{
    mk();
    a_str O;
    ND(a_size, on, size); ND(a_size, om, size);
    O.ptr_ = (char *)&O; O.num_ = on; O.mem_ = om;
    a_str_swap(&S, &O);
    ASSERT(S.ptr_ == (char *)&O && S.num_ == on && S.mem_ == om && O.ptr_ == blk0 && O.num_ == num && O.mem_ == mem, "swap: the two views are exchanged");
    VERIF_CANARY();
}
void h_new_die(void)
{
    a_alloc = verif_alloc;
    verif_live = 0; verif_alloc_failed = 0; verif_requests = 0;
    { ND(unsigned, fail_mask, u32); verif_fail_mask = fail_mask; }
    a_str *p = a_str_new();
    if (p == A_NULL) { ASSERT(verif_alloc_failed && verif_live == 0, "new: fails only when the allocation failed, nothing leaked"); }
    else
    {
        ASSERT(verif_live == 1 && p->ptr_ == A_NULL && p->num_ == 0 && p->mem_ == 0, "new: one block, empty string");
        ND(int, c, int);
        (void)a_str_catc(p, c);
        (void)a_str_catc_(p, c);
        a_str_die(p);
        ASSERT(verif_live == 0, "die: every block released exactly once, whatever failed in between");
    }
    mk();
    a_str_dtor(&S);
    ASSERT(verif_live == 0 && S.ptr_ == A_NULL && S.num_ == 0 && S.mem_ == 0, "dtor: block released, object reset");
    VERIF_CANARY();
}

/* ---- trim: explicit set of 1..2 bytes (memchr from libc; the isspace form is not covered) ---- */
static int in_set(unsigned char b, unsigned char const *set, a_size n)
{
    a_size k; int r = 0;
    for (k = 0; k < 2; ++k) { if (k < n && set[k] == b) { r = 1; } }
    return r;
}
void h_trim(void)
{
    mk();
#ifdef TRIM_WHICH
    unsigned which = TRIM_WHICH;
#else
    ND(unsigned, which, u32);
#endif
    ND(_Bool, t, bool); ND(a_size, n, size);
    ND(unsigned char, s0, u8); ND(unsigned char, s1, u8);
    ASSUME(which < 3 && n >= 1 && n <= 2 && mem > 0);
    unsigned char set[2];
    set[0] = s0; set[1] = s1;
    a_size lead = 0, trail = 0, i; int stop = 0;
    for (i = 0; i < MAXM; ++i) { if (i < num && !stop) { if (in_set(old_[i], set, n)) { ++lead; } else { stop = 1; } } }
    stop = 0;
    for (i = 0; i < MAXM; ++i) { if (i < num && !stop) { if (in_set(old_[num - 1 - i], set, n)) { ++trail; } else { stop = 1; } } }
    a_size from, to; /* surviving range [from, to) of the old content */
    if (which == 0) { from = 0; to = num - trail; if (t) { a_str_rtrim(&S, (char const *)set, n); } else { a_str_rtrim_(&S, (char const *)set, n); } }
    else if (which == 1) { from = lead; to = num; if (t) { a_str_ltrim(&S, (char const *)set, n); } else { a_str_ltrim_(&S, (char const *)set, n); } }
    else { from = lead < num ? lead : num; to = lead < num ? num - trail : num; if (lead >= num) { from = to = 0; } if (t) { a_str_trim(&S, (char const *)set, n); } else { a_str_trim_(&S, (char const *)set, n); } }
    ASSERT(S.num_ == to - from && S.mem_ == mem && S.ptr_ == blk0, "trim: exactly the maximal prefix/suffix of set bytes is removed");
    { WITNESS(w, MAXM); if (w < to - from) { ASSERT((unsigned char)S.ptr_[w] == old_[from + w], "trim: the remaining content is the old content between the trimmed ends"); } }
    if (t && S.num_ < num) { TERMINATED(); }
    VERIF_CANARY();
}

/* ---- comparison: bytewise lexicographic, length as tie-break ---- */
void h_cmp(void)
{
    mk();
    ND(a_size, n, size);
    ASSUME(n <= MAXN);
    unsigned char *p = mk_src(n, 0);
    int r = a_str_cmpn(&S, p, n);
    int want = 0; a_size i; a_size m = num < n ? num : n;
    if (S.ptr_ != A_NULL && n > 0) { for (i = 0; i < MAXN; ++i) { if (i < m && want == 0 && old_[i] != src0[i]) { want = old_[i] < src0[i] ? -1 : 1; } } }
    if (want == 0) { want = (num > n) - (num < n); }
    ASSERT((r > 0) == (want > 0) && (r < 0) == (want < 0), "cmp: orders like bytewise lexicographic comparison with length as tie-break");
    a_str O;
    O.ptr_ = (char *)p; O.num_ = n; O.mem_ = n;
    int r2 = a_str_cmp(&S, &O);
    ASSERT((r2 > 0) == (r > 0) && (r2 < 0) == (r < 0), "cmp: string/string form agrees with string/block form");
    VERIF_CANARY();
}

/* ---- formatted append ---- */
#ifndef VERIF_NATIVE
static int call_catf(a_str *s, char const *fmt, ...)
{
    int r;
    va_list va;
    va_start(va, fmt);
    r = a_str_catv(s, fmt, va);
    va_end(va);
    return r;
}
void h_catf(void)
{
    mk();
    unsigned k;
    ND(int, L, int);
    ASSUME(L >= 0 && L <= 9);
    verif_L = L; verif_fmt_calls = 0;
    for (k = 0; k < 12; ++k) { unsigned char b = nondet_u8(); __CPROVER_assume(b != 0); verif_F[k] = b; }
    int r = call_catf(&S, "%s", "x");
    if (r == 0 && L > 0) { ASSERT(verif_alloc_failed, "catf: returns 0 for a non-empty output only when growing failed"); UNCHANGED("failed catf"); }
    else
    {
        ASSERT(r == L, "catf: returns the length the formatter produced");
        ASSERT(S.num_ == num + (a_size)L, "catf: length grows by exactly that length (also when it exactly fills the spare room)");
        VALID();
        if (L > 0 || S.mem_ > num) { ASSERT(S.num_ < S.mem_ && S.ptr_[S.num_] == 0, "catf: NUL directly after the content, inside the capacity"); }
        PREFIX_KEPT(num);
        { WITNESS(v, 9); if (v < (a_size)L) { ASSERT((unsigned char)S.ptr_[num + v] == verif_F[v], "catf: appends exactly what the formatter produces"); } }
        ASSERT(verif_fmt_calls <= 2, "catf: measure, grow, format again - at most two formatter passes");
    }
    LEDGER();
    VERIF_CANARY();
}
#endif

/* ---- code point append ---- */
void h_utf_catc(void)
{
    mk();
    ND(a_u32, c, u32);
    unsigned char enc[8];
    unsigned n = a_utf_encode(c, enc);
    { a_u32 x = c & 0x7FFFFFFFu; /* the UTF-8 table, independent of the library's encoder */
      unsigned want = x == 0 ? 0 : x < 0x80 ? 1 : x < 0x800 ? 2 : x < 0x10000 ? 3 : x < 0x200000 ? 4 : x < 0x4000000 ? 5 : 6;
      ASSERT(n == want, "utf_catc: the appended length is the UTF-8 table's length for the code point"); }
    int rc = a_utf_catc(&S, c);
    if (rc != A_SUCCESS) { ASSERT(rc == A_OMEMORY && verif_alloc_failed, "utf_catc: fails only when the allocation failed"); UNCHANGED("failed utf_catc"); }
    else
    {
        ASSERT(S.num_ == num + n, "utf_catc: length grows by the encoded length");
        VALID();
        TERMINATED();
        PREFIX_KEPT(num);
        { WITNESS(v, 6); if (v < n) { ASSERT((unsigned char)S.ptr_[num + v] == enc[v], "utf_catc: the appended bytes are the UTF-8 encoding"); } }
    }
    LEDGER();
    VERIF_CANARY();
}
