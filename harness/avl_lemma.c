/* C01, unbounded part: window lemmas for the AVL retrace steps a_avl_handle_growth / a_avl_handle_shrink
   (and through them a_avl_rotate / a_avl_rotate2) of /repo/src/avl.c, default (packed) node layout.

   Window: P? - A - {B on side s, C? on the other side}; B - {D? on side s, E? on side -s}; E - {F? on side s,
   G? on side -s}.  A, B, E are window nodes; C, D, F, G are BOUNDARY subtrees: real node objects (only their
   parent word may be written) whose unbounded subtree is summarised by a ghost height in [0, 2^20] (0 = absent).
   All heights are symbolic, so one run covers trees of every size.  After the call the window is judged by a
   fixed number of passes over the concrete window objects (heights, key ranges, sizes recomputed through the
   ACTUAL links) - never by a recursive walk. */
#include "contracts/verif.h"
#include "src/avl.c"

typedef struct { a_avl_node n; int key; } wn;
static wn nP, nA, nB, nE, nC, nD, nF, nG;
static a_avl root;
static int hC, hD, hF, hG;     /* ghost heights of the boundary subtrees */
static int s;                  /* side of B below A: -1 left, +1 right */
static _Bool hasP, eE;         /* A has a parent / the inner grandchild E is a window node */
static int sideP;              /* A hangs on this side of P */
static int fC, fD, fF, fG, fP; /* balance factors of the boundary roots and of P (must be preserved) */

#define HMAX 0x100000
static int maxi(int a, int b) { return a > b ? a : b; }
static a_avl_node *opt(wn *x, int h) { return h > 0 ? &x->n : (a_avl_node *)A_NULL; }
static int hE_(void) { return eE ? 1 + maxi(hF, hG) : 0; }
static int hB_(void) { return 1 + maxi(hD, hE_()); }
/* balance factor = height(right) - height(left) for a node whose s-side child has height hs and other child ho */
static int fac(int hs, int ho) { return s < 0 ? ho - hs : hs - ho; }

static void build(void)
{
    ND(int, hC_, int); ND(int, hD_, int); ND(int, hF_, int); ND(int, hG_, int); ND(int, s_, int);
    ND(_Bool, hasP_, bool); ND(_Bool, eE_, bool); ND(int, sideP_, int);
    ND(int, fC_, int); ND(int, fD_, int); ND(int, fF_, int); ND(int, fG_, int); ND(int, fP_, int);
    ASSUME(0 <= hC_ && hC_ <= HMAX && 0 <= hD_ && hD_ <= HMAX && 0 <= hF_ && hF_ <= HMAX && 0 <= hG_ && hG_ <= HMAX);
    ASSUME((s_ == -1 || s_ == 1) && (sideP_ == -1 || sideP_ == 1));
    ASSUME(-1 <= fC_ && fC_ <= 1 && -1 <= fD_ && fD_ <= 1 && -1 <= fF_ && fF_ <= 1 && -1 <= fG_ && fG_ <= 1 && -1 <= fP_ && fP_ <= 1);
    hC = hC_; hD = hD_; hF = hF_; hG = hG_; s = s_; hasP = hasP_; eE = eE_; sideP = sideP_;
    fC = fC_; fD = fD_; fF = fF_; fG = fG_; fP = fP_;
    if (!eE) { hF = 0; hG = 0; }
    /* in-order keys: D B F E G A C for s < 0, mirrored for s > 0 */
    nD.key = s < 0 ? 1 : 7; nB.key = s < 0 ? 2 : 6; nF.key = s < 0 ? 3 : 5; nE.key = 4;
    nG.key = s < 0 ? 5 : 3; nA.key = s < 0 ? 6 : 2; nC.key = s < 0 ? 7 : 1; nP.key = 100;
    /* links */
    nA.n.left = nA.n.right = nB.n.left = nB.n.right = nE.n.left = nE.n.right = A_NULL;
    nC.n.left = nC.n.right = nD.n.left = nD.n.right = nF.n.left = nF.n.right = nG.n.left = nG.n.right = A_NULL;
    a_avl_set_child(&nA.n, &nB.n, s);
    a_avl_set_child(&nA.n, opt(&nC, hC), -s);
    a_avl_set_child(&nB.n, opt(&nD, hD), s);
    a_avl_set_child(&nB.n, eE ? &nE.n : (a_avl_node *)A_NULL, -s);
    a_avl_set_child(&nE.n, opt(&nF, hF), s);
    a_avl_set_child(&nE.n, opt(&nG, hG), -s);
    /* parent words; the factor of A is set by each lemma (it is the stale one) */
    a_avl_set_parent_factor(&nB.n, &nA.n, fac(hD, hE_()));
    a_avl_set_parent_factor(&nE.n, &nB.n, fac(hF, hG));
    a_avl_set_parent_factor(&nC.n, &nA.n, fC);
    a_avl_set_parent_factor(&nD.n, &nB.n, fD);
    a_avl_set_parent_factor(&nF.n, &nE.n, fF);
    a_avl_set_parent_factor(&nG.n, &nE.n, fG);
    nP.n.left = nP.n.right = A_NULL;
    a_avl_set_parent_factor(&nP.n, A_NULL, fP);
    if (hasP) { a_avl_set_child(&nP.n, &nA.n, sideP); root.node = &nP.n; }
    else { root.node = &nA.n; }
    /* B and E are valid AVL nodes */
    ASSUME(hD - hE_() <= 1 && hE_() - hD <= 1);
    ASSUME(!eE || (hF - hG <= 1 && hG - hF <= 1));
}

/* ---- judging the window after the call: passes over the concrete objects ---- */
static int ch[3], cmn[3], cmx[3], csz[3]; /* computed height, min key, max key, size of window nodes A, B, E */
static wn *const W[3] = {&nA, &nB, &nE};
static int widx(a_avl_node const *x) { return x == &nA.n ? 0 : x == &nB.n ? 1 : x == &nE.n ? 2 : -1; }
static int known(a_avl_node const *x) { return x == A_NULL || widx(x) >= 0 || x == &nC.n || x == &nD.n || x == &nF.n || x == &nG.n; }
static int hgt(a_avl_node const *x) { int i = widx(x); return x == A_NULL ? 0 : i >= 0 ? ch[i] : x == &nC.n ? hC : x == &nD.n ? hD : x == &nF.n ? hF : x == &nG.n ? hG : -1000; }
static int mnk(a_avl_node const *x) { int i = widx(x); return i >= 0 ? cmn[i] : ((wn const *)x)->key; }
static int mxk(a_avl_node const *x) { int i = widx(x); return i >= 0 ? cmx[i] : ((wn const *)x)->key; }
static int szk(a_avl_node const *x) { int i = widx(x); return x == A_NULL ? 0 : i >= 0 ? csz[i] : 1; }
static void passes(void)
{
    int p, i;
    for (i = 0; i < 3; ++i) { ch[i] = 0; cmn[i] = cmx[i] = W[i]->key; csz[i] = 1; }
    for (p = 0; p < 3; ++p)
    {
        for (i = 2; i >= 0; --i)
        {
            a_avl_node *l = W[i]->n.left, *r = W[i]->n.right;
            ch[i] = 1 + maxi(hgt(l), hgt(r));
            cmn[i] = l ? mnk(l) : W[i]->key;
            cmx[i] = r ? mxk(r) : W[i]->key;
            csz[i] = 1 + szk(l) + szk(r);
        }
    }
}
/* local AVL + search-tree + parent-link invariant of window node i, judged with the computed summaries */
static int node_ok(int i)
{
    a_avl_node *x = &W[i]->n, *l = x->left, *r = x->right;
    int hl = hgt(l), hr = hgt(r);
    if (!known(l) || !known(r) || (l && l == r)) { return 0; }
    if (hr - hl > 1 || hl - hr > 1) { return 0; }
    if (a_avl_factor(x) != hr - hl) { return 0; }
    if (l && !(mxk(l) < W[i]->key)) { return 0; }
    if (r && !(W[i]->key < mnk(r))) { return 0; }
    if (l && a_avl_parent(l) != x) { return 0; }
    if (r && a_avl_parent(r) != x) { return 0; }
    return 1;
}
static int nodes0(void) { return 2 + (eE ? 1 : 0) + (hC > 0) + (hD > 0) + (hF > 0) + (hG > 0); }
static a_avl_node *top(void) { return hasP ? a_avl_child(&nP.n, sideP) : root.node; }
/* boundaries keep children and balance factor; P keeps factor, its other child and its own parent */
static int frame_ok(void)
{
    return nC.n.left == A_NULL && nC.n.right == A_NULL && nD.n.left == A_NULL && nD.n.right == A_NULL && nF.n.left == A_NULL &&
           nF.n.right == A_NULL && nG.n.left == A_NULL && nG.n.right == A_NULL &&
           (hC == 0 || a_avl_factor(&nC.n) == fC) && (hD == 0 || a_avl_factor(&nD.n) == fD) &&
           (hF == 0 || a_avl_factor(&nF.n) == fF) && (hG == 0 || a_avl_factor(&nG.n) == fG) &&
           a_avl_factor(&nP.n) == fP && a_avl_parent(&nP.n) == A_NULL && (!hasP || a_avl_child(&nP.n, -sideP) == A_NULL) &&
           (hasP ? root.node == &nP.n : 1);
}
static int window_valid2(int expect_height, int or_height)
{
    a_avl_node *t = top();
    int i = widx(t);
    passes();
    if (i < 0) { return 0; }                                         /* the subtree root is a window node */
    if (a_avl_parent(t) != (hasP ? &nP.n : (a_avl_node *)A_NULL)) { return 0; }
    if (csz[i] != nodes0()) { return 0; }                            /* nothing lost, nothing duplicated */
    if (!node_ok(0) || !node_ok(1) || (eE && !node_ok(2))) { return 0; }
    if (ch[i] != expect_height && ch[i] != or_height) { return 0; }
    return frame_ok();
}
static int window_valid(int expect_height) { return window_valid2(expect_height, expect_height); }

/* ---- lemma: a_avl_handle_growth ----
   pre  J_grow(A, B, s): B (valid, factor != 0) is the s-child of A and has just grown by one; A still carries the
        factor of the old heights (|old difference| <= 1).
   post returns 1: the subtree hanging where A hung is a valid AVL window of the OLD height (the insertion is absorbed);
        returns 0: no link changed, A is valid with the new heights, non-zero factor, and one higher: J_grow one level up. */
void h_growth(void)
{
    build();
    int hb = hB_(), hold = 1 + maxi(hb - 1, hC);
    ASSUME(hb >= 1 && fac(hD, hE_()) != 0);                /* B grew: it is not perfectly balanced */
    ASSUME(hb - 1 - hC <= 1 && hC - (hb - 1) <= 1);         /* A was valid before the insertion */
    a_avl_set_parent_factor(&nA.n, hasP ? &nP.n : (a_avl_node *)A_NULL, fac(hb - 1, hC)); /* stale factor */
    a_avl_node *l0 = nA.n.left, *r0 = nA.n.right, *bl0 = nB.n.left, *br0 = nB.n.right, *el0 = nE.n.left, *er0 = nE.n.right;
    int ok = a_avl_handle_growth(&root, &nA.n, &nB.n, s);
    if (ok)
    {
        ASSERT(window_valid(hold), "handle_growth (done): the rebalanced window is a valid AVL search tree of the height before the insertion, parent links and frame intact");
    }
    else
    {
        ASSERT(nA.n.left == l0 && nA.n.right == r0 && nB.n.left == bl0 && nB.n.right == br0 && nE.n.left == el0 && nE.n.right == er0 && top() == &nA.n,
               "handle_growth (continue): no rotation was done");
        ASSERT(window_valid(hold + 1), "handle_growth (continue): A is valid with the new heights and one higher");
        ASSERT(a_avl_factor(&nA.n) != 0, "handle_growth (continue): A is now unbalanced by one, so the step invariant holds one level up");
    }
    VERIF_CANARY();
}

/* ---- lemma: a_avl_handle_shrink ----
   pre  J_shrink(A, sign): the subtree of A on side -sign... (the library's sign: +1 = LEFT subtree shrank) has just
        lost one level; everything else is valid; A carries the factor of the old heights.
        Here the heavy side (the one that did NOT shrink) holds B with its children D (outer) / E (inner).
   post returns NULL: valid window; height unchanged if the balanced-child single rotation / was-balanced case applies;
        returns non-NULL: it is the parent of the (possibly new) subtree root, *left tells the side, and the subtree
        is valid and one lower than before: J_shrink one level up. */
void h_shrink(void)
{
    build();
    /* the side that shrank is C's side (-s); its OLD height was hC + 1 */
    int hb = hB_(), hold = 1 + maxi(hb, hC + 1);
    ASSUME(hb - (hC + 1) <= 1 && (hC + 1) - hb <= 1);       /* A was valid before the deletion */
    a_avl_set_parent_factor(&nA.n, hasP ? &nP.n : (a_avl_node *)A_NULL, fac(hb, hC + 1)); /* stale factor */
    int left = 7;
    /* library convention: sign = +1 if the LEFT subtree shrank, i.e. the shrunken side is -sign... the shrunken side is -s here, so sign = s */
    a_avl_node *up = a_avl_handle_shrink(&root, &nA.n, s, &left);
    int hnew = 1 + maxi(hb, hC);                            /* height of A's subtree with the new heights, before any rotation */
    if (up == A_NULL)
    {
        if (hasP)
        {
            ASSERT(window_valid(hold), "handle_shrink (done): valid AVL window whose height did not change");
        }
        else
        {
            /* without a parent NULL is returned in every case; the window must be valid with the old or the reduced height */
            ASSERT(window_valid2(hold, hold - 1), "handle_shrink (root): valid AVL window (height unchanged or one lower)");
        }
    }
    else
    {
        ASSERT(hasP && up == &nP.n, "handle_shrink (continue): returns the parent of the subtree root");
        ASSERT(left == (sideP < 0), "handle_shrink (continue): *left tells on which side of that parent the subtree hangs");
        ASSERT(window_valid(hold - 1), "handle_shrink (continue): the subtree is a valid AVL window and one lower than before the deletion");
    }
    (void)hnew;
    VERIF_CANARY();
}

/* ---- lemma: a_avl_handle_remove (successor splice of a two-child node) and the simple unlink of a_avl_remove's
        glue are followed by the retrace loop; here: G? - X { L (left subtree, boundary, present), spine s0 = X->right,
        s1 = s0->left, ... down to the successor Y = s_depth (depth 0..MAXDEPTH materialised; Y->left absent,
        Y->right = boundary; every spine node's right subtree a boundary) }, all subtree heights symbolic.
   post: Y stands where X stood (same parent, same balance factor word), X is unlinked, nothing is lost, order and
        parent links are intact, and the tree is valid for the heights BEFORE the removal if the subtree the function
        reports as shrunk (returned node, *left) is counted one level higher: exactly the precondition J_shrink of
        a_avl_handle_shrink, which the caller's loop applies next. ---- */
#ifndef MAXDEPTH
#define MAXDEPTH 2
#endif
#define SW 5
#define SB 5
static wn sG, sX, sS0, sS1, sS2;
static wn sL, sR0, sR1, sR2;
static wn *SWn[SW]; static int snw;
static wn *SBn[SB]; static int snb; static int SBh[SB];
static int Sh[SW], Sok[SW], Smn[SW], Smx[SW], Ssz[SW];
static a_avl_node *phantom_parent; static int phantom_side;
static int swidx(a_avl_node const *x) { int i, r = -1; for (i = 0; i < SW; ++i) { if (i < snw && x == &SWn[i]->n) { r = i; } } return r; }
static int sbidx(a_avl_node const *x) { int i, r = -1; for (i = 0; i < SB; ++i) { if (i < snb && x == &SBn[i]->n) { r = i; } } return r; }
static int sknown(a_avl_node const *x) { return x == A_NULL || swidx(x) >= 0 || sbidx(x) >= 0; }
static int sh_of(a_avl_node const *x) { int w = swidx(x), b = sbidx(x); return x == A_NULL ? 0 : w >= 0 ? Sh[w] : b >= 0 ? SBh[b] : -1000; }
static int sok_of(a_avl_node const *x) { int w = swidx(x); return x == A_NULL ? 1 : w >= 0 ? Sok[w] : sbidx(x) >= 0; }
static int smn_of(a_avl_node const *x) { int w = swidx(x); return w >= 0 ? Smn[w] : ((wn const *)x)->key; }
static int smx_of(a_avl_node const *x) { int w = swidx(x); return w >= 0 ? Smx[w] : ((wn const *)x)->key; }
static int ssz_of(a_avl_node const *x) { int w = swidx(x); return x == A_NULL ? 0 : w >= 0 ? Ssz[w] : 1; }
static int sh_child(a_avl_node *x, int side) { a_avl_node *c = a_avl_child(x, side); return sh_of(c) + ((x == phantom_parent && side == phantom_side) ? 1 : 0); }
static void spasses(void)
{
    int p, i;
    for (i = 0; i < SW; ++i) { Sh[i] = 0; Sok[i] = 0; Ssz[i] = 1; if (i < snw) { Smn[i] = Smx[i] = SWn[i]->key; } }
    for (p = 0; p < SW; ++p)
    {
        for (i = SW - 1; i >= 0; --i)
        {
            if (i < snw)
            {
                a_avl_node *x = &SWn[i]->n, *l = x->left, *r = x->right;
                int ok = sknown(l) && sknown(r) && !(l && l == r);
                if (ok)
                {
                    int hl = sh_child(x, -1), hr = sh_child(x, 1);
                    ok = sok_of(l) && sok_of(r) && hr - hl <= 1 && hl - hr <= 1 && a_avl_factor(x) == hr - hl;
                    if (l && !(smx_of(l) < SWn[i]->key)) { ok = 0; }
                    if (r && !(SWn[i]->key < smn_of(r))) { ok = 0; }
                    if (l && a_avl_parent(l) != x) { ok = 0; }
                    if (r && a_avl_parent(r) != x) { ok = 0; }
                    Sh[i] = 1 + maxi(hl, hr);
                    Smn[i] = l ? smn_of(l) : SWn[i]->key;
                    Smx[i] = r ? smx_of(r) : SWn[i]->key;
                    Ssz[i] = 1 + ssz_of(l) + ssz_of(r);
                }
                Sok[i] = ok;
            }
        }
    }
}
static void slink(wn *parent, wn *child, int side, _Bool exists, int factor)
{
    a_avl_set_child(&parent->n, exists ? &child->n : (a_avl_node *)A_NULL, side);
    child->n.left = child->n.right = A_NULL;
    a_avl_set_parent_factor(&child->n, &parent->n, factor);
}
void h_splice(void)
{
    ND(int, depth, int); ND(_Bool, hasG_, bool); ND(int, sideG_, int);
    ND(int, hL, int); ND(int, h0, int); ND(int, h1, int); ND(int, h2, int);
    ND(int, fL, int); ND(int, f0, int); ND(int, f1, int); ND(int, f2, int); ND(int, fG, int);
    ASSUME(depth >= 0 && depth <= MAXDEPTH && (sideG_ == -1 || sideG_ == 1));
    ASSUME(1 <= hL && hL <= HMAX && 0 <= h0 && h0 <= HMAX && 0 <= h1 && h1 <= HMAX && 0 <= h2 && h2 <= HMAX);
    ASSUME(-1 <= fL && fL <= 1 && -1 <= f0 && f0 <= 1 && -1 <= f1 && f1 <= 1 && -1 <= f2 && f2 <= 1 && -1 <= fG && fG <= 1);
    wn *sp[3]; sp[0] = &sS0; sp[1] = &sS1; sp[2] = &sS2;
    wn *rb[3]; rb[0] = &sR0; rb[1] = &sR1; rb[2] = &sR2;
    int hs[3]; hs[0] = h0; hs[1] = h1; hs[2] = h2;
    int fs[3]; fs[0] = f0; fs[1] = f1; fs[2] = f2;
    int i;
    snw = 0; SWn[snw++] = &sX;
    for (i = 0; i < 3; ++i) { if (i <= depth) { SWn[snw++] = sp[i]; } }
    SBn[0] = &sL; SBn[1] = &sR0; SBn[2] = &sR1; SBn[3] = &sR2; snb = 4;
    SBh[0] = hL; SBh[1] = h0; SBh[2] = h1; SBh[3] = h2;
    sG.key = 1000; sL.key = 10; sX.key = 20;
    for (i = 0; i < 3; ++i) { sp[i]->key = 100 - 20 * i; rb[i]->key = 100 - 20 * i + 5; }
    /* heights of the spine nodes bottom-up: the successor Y = sp[depth] has no left child */
    int hh[4]; hh[depth + 1 <= 3 ? depth + 1 : 3] = 0;
    int hsp[3];
    for (i = 2; i >= 0; --i) { if (i <= depth) { int hl = (i == depth) ? 0 : hsp[i + 1]; hsp[i] = 1 + maxi(hl, hs[i]); ASSUME(hs[i] - hl <= 1 && hl - hs[i] <= 1); } }
    int hX = 1 + maxi(hL, hsp[0]);
    ASSUME(hsp[0] - hL <= 1 && hL - hsp[0] <= 1);
    /* links and factors */
    sG.n.left = sG.n.right = A_NULL; a_avl_set_parent_factor(&sG.n, A_NULL, fG);
    sX.n.left = sX.n.right = A_NULL; a_avl_set_parent_factor(&sX.n, hasG_ ? &sG.n : (a_avl_node *)A_NULL, hsp[0] - hL);
    if (hasG_) { a_avl_set_child(&sG.n, &sX.n, sideG_); root.node = &sG.n; } else { root.node = &sX.n; }
    slink(&sX, &sL, -1, 1, fL);
    for (i = 0; i < 3; ++i)
    {
        if (i <= depth)
        {
            int hl = (i == depth) ? 0 : hsp[i + 1];
            slink(i == 0 ? &sX : sp[i - 1], sp[i], i == 0 ? 1 : -1, 1, hs[i] - hl);
        }
    }
    for (i = 0; i < 3; ++i) { if (i <= depth) { slink(sp[i], rb[i], 1, hs[i] > 0, fs[i]); if (i == depth) { sp[i]->n.left = A_NULL; } } }
    a_uptr Gword0 = sG.n.parent_; a_avl_node *Gother0 = a_avl_child(&sG.n, -sideG_);
    a_uptr Xword0 = sX.n.parent_;
    phantom_parent = A_NULL;
    spasses();
    ASSUME(sok_of(&sX.n) && sh_of(&sX.n) == hX);
    int size0 = ssz_of(&sX.n), left = 7;
    a_avl_node *ret = a_avl_handle_remove(&root, &sX.n, &left);
    {
        wn *Y = sp[depth];
        a_avl_node *t = hasG_ ? a_avl_child(&sG.n, sideG_) : root.node;
        /* X is unlinked: judge the remaining window nodes */
        int j = 0; wn *keep[SW];
        for (i = 0; i < SW; ++i) { if (i < snw && SWn[i] != &sX) { keep[j++] = SWn[i]; } }
        for (i = 0; i < SW; ++i) { if (i < j) { SWn[i] = keep[i]; } }
        snw = j;
        ASSERT(t == &Y->n && Y->n.parent_ == Xword0, "handle_remove: the in-order successor stands where the node stood, with its parent and balance factor");
        ASSERT(!hasG_ || (sG.n.parent_ == Gword0 && a_avl_child(&sG.n, -sideG_) == Gother0 && root.node == &sG.n), "handle_remove: nothing above the node changed");
        ASSERT(ret == (depth == 0 ? &Y->n : &sp[depth - 1]->n) && left == (depth == 0 ? 0 : 1), "handle_remove: returns the parent of the successor's old position and the side that shrank");
        phantom_parent = ret; phantom_side = left ? -1 : 1;
        spasses();
        ASSERT(sok_of(t), "handle_remove: counted with the old height of the reported subtree, every node is a valid AVL node with correct order and parent links (the retrace precondition)");
        ASSERT(sh_of(t) == hX, "handle_remove: ... and the heights are those before the removal");
        ASSERT(ssz_of(t) == size0 - 1, "handle_remove: exactly the removed element is gone");
    }
    VERIF_CANARY();
}
