/* C01, unbounded part: window lemmas for the AVL retrace steps a_avl_handle_growth / a_avl_handle_shrink
   (and through them a_avl_rotate / a_avl_rotate2) of /repo/src/avl.c, default (packed) node layout.

   Window: P? - A - {B on side s, C? on the other side}; B - {D? on side s, E? on side -s}; E - {F? on side s,
   G? on side -s}.  A, B, E are window nodes; C, D, F, G are BOUNDARY subtrees: real node objects (only their
   parent word may be written) whose unbounded subtree is summarised by a ghost height in [0, 2^20] (0 = absent).
   All heights are symbolic, so one run covers trees of every size.  After the call the window is judged by a
   fixed number of passes over the concrete window objects (heights, key ranges, sizes recomputed through the
   ACTUAL links) - never by a recursive walk. */
#include "contracts/verif.h"
#include "a/avl.h"
/* stand-ins for the retrace steps inside the glue lemmas (h_insert_first / h_unlink_simple): the call is recorded and the
   retrace "finishes" at once without touching anything, so that the state the caller handed over can be inspected after
   the caller returns.  What the real steps do from that state is the subject of h_growth / h_shrink. */
unsigned verif_step_calls;
a_avl *verif_step_root;
a_avl_node *verif_step_parent, *verif_step_node;
int verif_step_sign;
#ifndef VERIF_NATIVE
int contract_a_avl_handle_growth(a_avl *root, a_avl_node *parent, a_avl_node *node, int sign)
    __CPROVER_assigns(verif_step_calls, verif_step_root, verif_step_parent, verif_step_node, verif_step_sign)
    __CPROVER_ensures(verif_step_calls == __CPROVER_old(verif_step_calls) + 1 && verif_step_root == root && verif_step_parent == parent && verif_step_node == node && verif_step_sign == sign)
    __CPROVER_ensures(__CPROVER_return_value == 1);
a_avl_node *contract_a_avl_handle_shrink(a_avl *root, a_avl_node *parent, int sign, int *left)
    __CPROVER_assigns(verif_step_calls, verif_step_root, verif_step_parent, verif_step_sign)
    __CPROVER_ensures(verif_step_calls == __CPROVER_old(verif_step_calls) + 1 && verif_step_root == root && verif_step_parent == parent && verif_step_sign == sign)
    __CPROVER_ensures(__CPROVER_return_value == (a_avl_node *)0);
#endif
#include "src/avl.c"

typedef struct { a_avl_node n; int key; } wn;
static wn nP, nA, nB, nE, nC, nD, nF, nG;
static a_avl root;
static int hC, hD, hF, hG;     /* ghost heights of the boundary subtrees */
static int s;                  /* side of B below A: -1 left, +1 right */
static _Bool hasP, eE;         /* A has a parent / the inner grandchild E is a window node */
static int sideP;              /* A hangs on this side of P */
static int fC, fD, fF, fG, fP; /* balance factors of the boundary roots and of P (must be preserved) */

#define HMAX 0x100000
static int maxi(int a, int b) { return a > b ? a : b; }
static a_avl_node *opt(wn *x, int h) { return h > 0 ? &x->n : (a_avl_node *)A_NULL; }
static int hE_(void) { return eE ? 1 + maxi(hF, hG) : 0; }
static int hB_(void) { return 1 + maxi(hD, hE_()); }
/* balance factor = height(right) - height(left) for a node whose s-side child has height hs and other child ho */
static int fac(int hs, int ho) { return s < 0 ? ho - hs : hs - ho; }

static void build(void)
{
    ND(int, hC_, int); ND(int, hD_, int); ND(int, hF_, int); ND(int, hG_, int); ND(int, s_, int);
    ND(_Bool, hasP_, bool); ND(_Bool, eE_, bool); ND(int, sideP_, int);
    ND(int, fC_, int); ND(int, fD_, int); ND(int, fF_, int); ND(int, fG_, int); ND(int, fP_, int);
    ASSUME(0 <= hC_ && hC_ <= HMAX && 0 <= hD_ && hD_ <= HMAX && 0 <= hF_ && hF_ <= HMAX && 0 <= hG_ && hG_ <= HMAX);
    ASSUME((s_ == -1 || s_ == 1) && (sideP_ == -1 || sideP_ == 1));
    ASSUME(-1 <= fC_ && fC_ <= 1 && -1 <= fD_ && fD_ <= 1 && -1 <= fF_ && fF_ <= 1 && -1 <= fG_ && fG_ <= 1 && -1 <= fP_ && fP_ <= 1);
    hC = hC_; hD = hD_; hF = hF_; hG = hG_; s = s_; hasP = hasP_; eE = eE_; sideP = sideP_;
    fC = fC_; fD = fD_; fF = fF_; fG = fG_; fP = fP_;
    if (!eE) { hF = 0; hG = 0; }
    /* in-order keys: D B F E G A C for s < 0, mirrored for s > 0 */
    nD.key = s < 0 ? 1 : 7; nB.key = s < 0 ? 2 : 6; nF.key = s < 0 ? 3 : 5; nE.key = 4;
    nG.key = s < 0 ? 5 : 3; nA.key = s < 0 ? 6 : 2; nC.key = s < 0 ? 7 : 1; nP.key = 100;
    /* links */
    nA.n.left = nA.n.right = nB.n.left = nB.n.right = nE.n.left = nE.n.right = A_NULL;
    nC.n.left = nC.n.right = nD.n.left = nD.n.right = nF.n.left = nF.n.right = nG.n.left = nG.n.right = A_NULL;
    a_avl_set_child(&nA.n, &nB.n, s);
    a_avl_set_child(&nA.n, opt(&nC, hC), -s);
    a_avl_set_child(&nB.n, opt(&nD, hD), s);
    a_avl_set_child(&nB.n, eE ? &nE.n : (a_avl_node *)A_NULL, -s);
    a_avl_set_child(&nE.n, opt(&nF, hF), s);
    a_avl_set_child(&nE.n, opt(&nG, hG), -s);
    /* parent words; the factor of A is set by each lemma (it is the stale one) */
    a_avl_set_parent_factor(&nB.n, &nA.n, fac(hD, hE_()));
    a_avl_set_parent_factor(&nE.n, &nB.n, fac(hF, hG));
    a_avl_set_parent_factor(&nC.n, &nA.n, fC);
    a_avl_set_parent_factor(&nD.n, &nB.n, fD);
    a_avl_set_parent_factor(&nF.n, &nE.n, fF);
    a_avl_set_parent_factor(&nG.n, &nE.n, fG);
    nP.n.left = nP.n.right = A_NULL;
    a_avl_set_parent_factor(&nP.n, A_NULL, fP);
    if (hasP) { a_avl_set_child(&nP.n, &nA.n, sideP); root.node = &nP.n; }
    else { root.node = &nA.n; }
    /* B and E are valid AVL nodes */
    ASSUME(hD - hE_() <= 1 && hE_() - hD <= 1);
    ASSUME(!eE || (hF - hG <= 1 && hG - hF <= 1));
}

/* ---- judging the window after the call: passes over the concrete objects ---- */
static int ch[3], cmn[3], cmx[3], csz[3]; /* computed height, min key, max key, size of window nodes A, B, E */
static wn *const W[3] = {&nA, &nB, &nE};
static int widx(a_avl_node const *x) { return x == &nA.n ? 0 : x == &nB.n ? 1 : x == &nE.n ? 2 : -1; }
static int known(a_avl_node const *x) { return x == A_NULL || widx(x) >= 0 || x == &nC.n || x == &nD.n || x == &nF.n || x == &nG.n; }
static int hgt(a_avl_node const *x) { int i = widx(x); return x == A_NULL ? 0 : i >= 0 ? ch[i] : x == &nC.n ? hC : x == &nD.n ? hD : x == &nF.n ? hF : x == &nG.n ? hG : -1000; }
static int mnk(a_avl_node const *x) { int i = widx(x); return i >= 0 ? cmn[i] : ((wn const *)x)->key; }
static int mxk(a_avl_node const *x) { int i = widx(x); return i >= 0 ? cmx[i] : ((wn const *)x)->key; }
static int szk(a_avl_node const *x) { int i = widx(x); return x == A_NULL ? 0 : i >= 0 ? csz[i] : 1; }
static void passes(void)
{
    int p, i;
    for (i = 0; i < 3; ++i) { ch[i] = 0; cmn[i] = cmx[i] = W[i]->key; csz[i] = 1; }
    for (p = 0; p < 3; ++p)
    {
        for (i = 2; i >= 0; --i)
        {
            a_avl_node *l = W[i]->n.left, *r = W[i]->n.right;
            ch[i] = 1 + maxi(hgt(l), hgt(r));
            cmn[i] = l ? mnk(l) : W[i]->key;
            cmx[i] = r ? mxk(r) : W[i]->key;
            csz[i] = 1 + szk(l) + szk(r);
        }
    }
}
/* local AVL + search-tree + parent-link invariant of window node i, judged with the computed summaries */
static int node_ok(int i)
{
    a_avl_node *x = &W[i]->n, *l = x->left, *r = x->right;
    int hl = hgt(l), hr = hgt(r);
    if (!known(l) || !known(r) || (l && l == r)) { return 0; }
    if (hr - hl > 1 || hl - hr > 1) { return 0; }
    if (a_avl_factor(x) != hr - hl) { return 0; }
    if (l && !(mxk(l) < W[i]->key)) { return 0; }
    if (r && !(W[i]->key < mnk(r))) { return 0; }
    if (l && a_avl_parent(l) != x) { return 0; }
    if (r && a_avl_parent(r) != x) { return 0; }
    return 1;
}
static int nodes0(void) { return 2 + (eE ? 1 : 0) + (hC > 0) + (hD > 0) + (hF > 0) + (hG > 0); }
static a_avl_node *top(void) { return hasP ? a_avl_child(&nP.n, sideP) : root.node; }
/* boundaries keep children and balance factor; P keeps factor, its other child and its own parent */
static int frame_ok(void)
{
    return nC.n.left == A_NULL && nC.n.right == A_NULL && nD.n.left == A_NULL && nD.n.right == A_NULL && nF.n.left == A_NULL &&
           nF.n.right == A_NULL && nG.n.left == A_NULL && nG.n.right == A_NULL &&
           (hC == 0 || a_avl_factor(&nC.n) == fC) && (hD == 0 || a_avl_factor(&nD.n) == fD) &&
           (hF == 0 || a_avl_factor(&nF.n) == fF) && (hG == 0 || a_avl_factor(&nG.n) == fG) &&
           a_avl_factor(&nP.n) == fP && a_avl_parent(&nP.n) == A_NULL && (!hasP || a_avl_child(&nP.n, -sideP) == A_NULL) &&
           (hasP ? root.node == &nP.n : 1);
}
static int window_valid2(int expect_height, int or_height)
{
    a_avl_node *t = top();
    int i = widx(t);
    passes();
    if (i < 0) { return 0; }                                         /* the subtree root is a window node */
    if (a_avl_parent(t) != (hasP ? &nP.n : (a_avl_node *)A_NULL)) { return 0; }
    if (csz[i] != nodes0()) { return 0; }                            /* nothing lost, nothing duplicated */
    if (!node_ok(0) || !node_ok(1) || (eE && !node_ok(2))) { return 0; }
    if (ch[i] != expect_height && ch[i] != or_height) { return 0; }
    return frame_ok();
}
static int window_valid(int expect_height) { return window_valid2(expect_height, expect_height); }

/* ---- lemma: a_avl_handle_growth ----
   pre  J_grow(A, B, s): B (valid, factor != 0) is the s-child of A and has just grown by one; A still carries the
        factor of the old heights (|old difference| <= 1).
   post returns 1: the subtree hanging where A hung is a valid AVL window of the OLD height (the insertion is absorbed);
        returns 0: no link changed, A is valid with the new heights, non-zero factor, and one higher: J_grow one level up. */
void h_growth(void)
{
    build();
    int hb = hB_(), hold = 1 + maxi(hb - 1, hC);
    ASSUME(hb >= 1 && fac(hD, hE_()) != 0);                /* B grew: it is not perfectly balanced */
    ASSUME(hb - 1 - hC <= 1 && hC - (hb - 1) <= 1);         /* A was valid before the insertion */
    a_avl_set_parent_factor(&nA.n, hasP ? &nP.n : (a_avl_node *)A_NULL, fac(hb - 1, hC)); /* stale factor */
    a_avl_node *l0 = nA.n.left, *r0 = nA.n.right, *bl0 = nB.n.left, *br0 = nB.n.right, *el0 = nE.n.left, *er0 = nE.n.right;
    int ok = a_avl_handle_growth(&root, &nA.n, &nB.n, s);
    if (ok)
    {
        ASSERT(window_valid(hold), "handle_growth (done): the rebalanced window is a valid AVL search tree of the height before the insertion, parent links and frame intact");
    }
    else
    {
        ASSERT(nA.n.left == l0 && nA.n.right == r0 && nB.n.left == bl0 && nB.n.right == br0 && nE.n.left == el0 && nE.n.right == er0 && top() == &nA.n,
               "handle_growth (continue): no rotation was done");
        ASSERT(window_valid(hold + 1), "handle_growth (continue): A is valid with the new heights and one higher");
        ASSERT(a_avl_factor(&nA.n) != 0, "handle_growth (continue): A is now unbalanced by one, so the step invariant holds one level up");
    }
    VERIF_CANARY();
}

/* ---- lemma: a_avl_handle_shrink ----
   pre  J_shrink(A, sign): the subtree of A on side -sign... (the library's sign: +1 = LEFT subtree shrank) has just
        lost one level; everything else is valid; A carries the factor of the old heights.
        Here the heavy side (the one that did NOT shrink) holds B with its children D (outer) / E (inner).
   post returns NULL: valid window; height unchanged if the balanced-child single rotation / was-balanced case applies;
        returns non-NULL: it is the parent of the (possibly new) subtree root, *left tells the side, and the subtree
        is valid and one lower than before: J_shrink one level up. */
void h_shrink(void)
{
    build();
    /* the side that shrank is C's side (-s); its OLD height was hC + 1 */
    int hb = hB_(), hold = 1 + maxi(hb, hC + 1);
    ASSUME(hb - (hC + 1) <= 1 && (hC + 1) - hb <= 1);       /* A was valid before the deletion */
    a_avl_set_parent_factor(&nA.n, hasP ? &nP.n : (a_avl_node *)A_NULL, fac(hb, hC + 1)); /* stale factor */
    int left = 7;
    /* library convention: sign = +1 if the LEFT subtree shrank, i.e. the shrunken side is -sign... the shrunken side is -s here, so sign = s */
    a_avl_node *up = a_avl_handle_shrink(&root, &nA.n, s, &left);
    int hnew = 1 + maxi(hb, hC);                            /* height of A's subtree with the new heights, before any rotation */
    if (up == A_NULL)
    {
        if (hasP)
        {
            ASSERT(window_valid(hold), "handle_shrink (done): valid AVL window whose height did not change");
        }
        else
        {
            /* without a parent NULL is returned in every case; the window must be valid with the old or the reduced height */
            ASSERT(window_valid2(hold, hold - 1), "handle_shrink (root): valid AVL window (height unchanged or one lower)");
        }
    }
    else
    {
        ASSERT(hasP && up == &nP.n, "handle_shrink (continue): returns the parent of the subtree root");
        ASSERT(left == (sideP < 0), "handle_shrink (continue): *left tells on which side of that parent the subtree hangs");
        ASSERT(window_valid(hold - 1), "handle_shrink (continue): the subtree is a valid AVL window and one lower than before the deletion");
    }
    (void)hnew;
    VERIF_CANARY();
}

/* ---- glue lemma: a_avl_insert_adjust up to its first retrace step (a_avl_handle_growth replaced by the recording stand-in) ----
   The new leaf N has just been linked below B (as a_avl_insert does: N->parent = B, factor 0, no children) into a slot that was
   empty; B's other child is a boundary subtree of height 0 or 1 (B was valid), A is B's parent, valid before the insertion.
   post: either no retrace step is started and the window is a valid AVL tree of the old height (B absorbed the leaf), or exactly
   one step is started, for (A, B, side of B), and the heap at that moment is EXACTLY the pre-state J_grow of h_growth for these
   heights (every parent word, child link and the root compared with that state). */
static unsigned long snapw[8]; static a_avl_node *snapl[8], *snapr[8]; static a_avl_node *snaproot;
static wn *const ALLN[8] = {&nP, &nA, &nB, &nE, &nC, &nD, &nF, &nG};
static void snapshot(void) { int i; for (i = 0; i < 8; ++i) { snapw[i] = (unsigned long)ALLN[i]->n.parent_; snapl[i] = ALLN[i]->n.left; snapr[i] = ALLN[i]->n.right; } snaproot = root.node; }
static int same_as_snapshot(void) { int i, ok = 1; for (i = 0; i < 8; ++i) { if (snapw[i] != (unsigned long)ALLN[i]->n.parent_ || snapl[i] != ALLN[i]->n.left || snapr[i] != ALLN[i]->n.right) { ok = 0; } } return ok && snaproot == root.node; }
void h_insert_first(void)
{
    build();
    ND(_Bool, outer, bool);
    wn *N = outer ? &nD : &nE;
    /* the new leaf: D (outer side) or E (inner side); its sibling below B has height <= 1 */
    if (outer) { ASSUME(hD == 1 && fD == 0 && hE_() <= 1); } else { ASSUME(eE && hF == 0 && hG == 0 && hD <= 1); }
    int hsib = outer ? hE_() : hD, hb_old = 1 + hsib, hb_new = hB_();
    ASSUME(hb_old - hC <= 1 && hC - hb_old <= 1);                       /* A was valid before the insertion */
    a_avl_set_parent_factor(&nA.n, hasP ? &nP.n : (a_avl_node *)A_NULL, fac(hb_old, hC));
    snapshot();                                                          /* = J_grow(A, B, s) when B grew (B carries the factor of the new heights) */
    a_avl_set_parent_factor(&nB.n, &nA.n, outer ? fac(0, hsib) : fac(hsib, 0)); /* state on entry: B's factor is still the one without the leaf */
    a_avl_set_parent_factor(&N->n, &nB.n, 0);
    verif_step_calls = 0;
    a_avl_insert_adjust(&root, &N->n);
    if (hb_new == hb_old)
    {
        ASSERT(verif_step_calls == 0, "insert_adjust: a leaf that fills the shorter side of its parent starts no retrace");
        ASSERT(window_valid(1 + maxi(hb_old, hC)), "insert_adjust (absorbed): valid AVL window of the old height, parent links and frame intact");
    }
    else
    {
        ASSERT(verif_step_calls == 1 && verif_step_root == &root && verif_step_parent == &nA.n && verif_step_node == &nB.n && verif_step_sign == s,
               "insert_adjust: exactly one retrace step is started, at the grandparent, for the parent's side");
        ASSERT(same_as_snapshot(), "insert_adjust: the state handed to the first retrace step is the step invariant J_grow (parent valid with the new heights and unbalanced by one, grandparent with the factor of the old heights, no other word touched)");
    }
    VERIF_CANARY();
}
/* the parent of the new leaf is the root: nothing above it to retrace */
void h_insert_first_root(void)
{
    static wn r, n, sib; static a_avl t;
    ND(int, side, int); ND(_Bool, has_sib, bool); ND(int, fs, int);
    ASSUME((side == -1 || side == 1) && -1 <= fs && fs <= 1);
    r.n.left = r.n.right = n.n.left = n.n.right = sib.n.left = sib.n.right = A_NULL;
    a_avl_set_child(&r.n, &n.n, side);
    a_avl_set_child(&r.n, has_sib ? &sib.n : (a_avl_node *)A_NULL, -side);
    a_avl_set_parent_factor(&r.n, A_NULL, has_sib ? -side : 0);         /* factor without the leaf */
    a_avl_set_parent_factor(&n.n, &r.n, 0);
    a_avl_set_parent_factor(&sib.n, &r.n, fs);
    t.node = &r.n;
    verif_step_calls = 0;
    a_avl_insert_adjust(&t, &n.n);
    ASSERT(verif_step_calls == 0 && t.node == &r.n && a_avl_parent(&r.n) == A_NULL, "insert_adjust (parent is the root): no retrace, root unchanged");
    ASSERT(a_avl_factor(&r.n) == (has_sib ? 0 : side), "insert_adjust (parent is the root): the root's factor is the height difference with the new leaf");
    ASSERT(a_avl_child(&r.n, side) == &n.n && a_avl_child(&r.n, -side) == (has_sib ? &sib.n : (a_avl_node *)A_NULL) && a_avl_parent(&n.n) == &r.n && a_avl_factor(&n.n) == 0 && a_avl_factor(&sib.n) == fs, "insert_adjust (parent is the root): links intact");
    VERIF_CANARY();
}

/* ---- glue lemma: the simple unlink of a_avl_remove (node with at most one child) up to its first retrace step
        (a_avl_handle_shrink replaced by the recording stand-in) ----
   X hangs below A on side -s and has at most one child c (boundary C, height hC <= 1, on either side of X); A's other child is B.
   post: X is unlinked, c hangs where X hung, exactly one retrace step is started for (A, sign = s: the -s side shrank), and the
   heap at that moment is EXACTLY the pre-state J_shrink of h_shrink for these heights. */
void h_unlink_simple(void)
{
    static wn nX;
    build();
    ND(int, cside, int);
    ASSUME((cside == -1 || cside == 1) && hC <= 1);
    int hb = hB_();
    ASSUME(hb - (hC + 1) <= 1 && (hC + 1) - hb <= 1);                    /* A was valid before the deletion */
    a_avl_set_parent_factor(&nA.n, hasP ? &nP.n : (a_avl_node *)A_NULL, fac(hb, hC + 1));
    snapshot();                                                           /* = J_shrink(A, s): side -s (holding c) is one lower than A's factor says */
    /* state on entry: X sits between A and c */
    nX.key = nC.key; nX.n.left = nX.n.right = A_NULL;
    a_avl_set_child(&nA.n, &nX.n, -s);
    a_avl_set_child(&nX.n, opt(&nC, hC), cside);
    a_avl_set_parent_factor(&nX.n, &nA.n, hC ? cside : 0);
    if (hC) { a_avl_set_parent_factor(&nC.n, &nX.n, fC); }
    verif_step_calls = 0;
    a_avl_remove(&root, &nX.n);
    ASSERT(verif_step_calls == 1 && verif_step_root == &root && verif_step_parent == &nA.n && verif_step_sign == s,
           "remove (simple unlink): exactly one retrace step is started, at the parent, for the side that lost the node");
    ASSERT(same_as_snapshot(), "remove (simple unlink): the child replaces the node and the state handed to the first retrace step is the step invariant J_shrink (no other word touched)");
    VERIF_CANARY();
}
/* the unlinked node is the root */
void h_unlink_simple_root(void)
{
    static wn x, c; static a_avl t;
    ND(int, cside, int); ND(_Bool, has_c, bool); ND(int, fc, int);
    ASSUME((cside == -1 || cside == 1) && -1 <= fc && fc <= 1);
    x.n.left = x.n.right = c.n.left = c.n.right = A_NULL;
    a_avl_set_child(&x.n, has_c ? &c.n : (a_avl_node *)A_NULL, cside);
    a_avl_set_parent_factor(&x.n, A_NULL, has_c ? cside : 0);
    a_avl_set_parent_factor(&c.n, &x.n, fc);
    t.node = &x.n;
    verif_step_calls = 0;
    a_avl_remove(&t, &x.n);
    ASSERT(verif_step_calls == 0, "remove (root with at most one child): no retrace");
    ASSERT(t.node == (has_c ? &c.n : (a_avl_node *)A_NULL), "remove (root with at most one child): the child becomes the root");
    if (has_c) { ASSERT(a_avl_parent(&c.n) == A_NULL && a_avl_factor(&c.n) == fc && c.n.left == A_NULL && c.n.right == A_NULL, "remove (root with at most one child): the new root has no parent and keeps its factor and children"); }
    VERIF_CANARY();
}

/* ---- lemma: a_avl_handle_remove (successor splice of a two-child node) and the simple unlink of a_avl_remove's
        glue are followed by the retrace loop; here: G? - X { L (left subtree, boundary, present), spine s0 = X->right,
        s1 = s0->left, ... down to the successor Y = s_depth (depth 0..MAXDEPTH materialised; Y->left absent,
        Y->right = boundary; every spine node's right subtree a boundary) }, all subtree heights symbolic.
   post: Y stands where X stood (same parent, same balance factor word), X is unlinked, nothing is lost, order and
        parent links are intact, and the tree is valid for the heights BEFORE the removal if the subtree the function
        reports as shrunk (returned node, *left) is counted one level higher: exactly the precondition J_shrink of
        a_avl_handle_shrink, which the caller's loop applies next. ---- */
#ifndef MAXDEPTH
#define MAXDEPTH 2
#endif
#define SW 5
#define SB 5
static wn sG, sX, sS0, sS1, sS2;
static wn sL, sR0, sR1, sR2;
static wn *SWn[SW]; static int snw;
static wn *SBn[SB]; static int snb; static int SBh[SB];
static int Sh[SW], Sok[SW], Smn[SW], Smx[SW], Ssz[SW];
static a_avl_node *phantom_parent; static int phantom_side;
static int swidx(a_avl_node const *x) { int i, r = -1; for (i = 0; i < SW; ++i) { if (i < snw && x == &SWn[i]->n) { r = i; } } return r; }
static int sbidx(a_avl_node const *x) { int i, r = -1; for (i = 0; i < SB; ++i) { if (i < snb && x == &SBn[i]->n) { r = i; } } return r; }
static int sknown(a_avl_node const *x) { return x == A_NULL || swidx(x) >= 0 || sbidx(x) >= 0; }
static int sh_of(a_avl_node const *x) { int w = swidx(x), b = sbidx(x); return x == A_NULL ? 0 : w >= 0 ? Sh[w] : b >= 0 ? SBh[b] : -1000; }
static int sok_of(a_avl_node const *x) { int w = swidx(x); return x == A_NULL ? 1 : w >= 0 ? Sok[w] : sbidx(x) >= 0; }
static int smn_of(a_avl_node const *x) { int w = swidx(x); return w >= 0 ? Smn[w] : ((wn const *)x)->key; }
static int smx_of(a_avl_node const *x) { int w = swidx(x); return w >= 0 ? Smx[w] : ((wn const *)x)->key; }
static int ssz_of(a_avl_node const *x) { int w = swidx(x); return x == A_NULL ? 0 : w >= 0 ? Ssz[w] : 1; }
static int sh_child(a_avl_node *x, int side) { a_avl_node *c = a_avl_child(x, side); return sh_of(c) + ((x == phantom_parent && side == phantom_side) ? 1 : 0); }
static void spasses(void)
{
    int p, i;
    for (i = 0; i < SW; ++i) { Sh[i] = 0; Sok[i] = 0; Ssz[i] = 1; if (i < snw) { Smn[i] = Smx[i] = SWn[i]->key; } }
    for (p = 0; p < SW; ++p)
    {
        for (i = SW - 1; i >= 0; --i)
        {
            if (i < snw)
            {
                a_avl_node *x = &SWn[i]->n, *l = x->left, *r = x->right;
                int ok = sknown(l) && sknown(r) && !(l && l == r);
                if (ok)
                {
                    int hl = sh_child(x, -1), hr = sh_child(x, 1);
                    ok = sok_of(l) && sok_of(r) && hr - hl <= 1 && hl - hr <= 1 && a_avl_factor(x) == hr - hl;
                    if (l && !(smx_of(l) < SWn[i]->key)) { ok = 0; }
                    if (r && !(SWn[i]->key < smn_of(r))) { ok = 0; }
                    if (l && a_avl_parent(l) != x) { ok = 0; }
                    if (r && a_avl_parent(r) != x) { ok = 0; }
                    Sh[i] = 1 + maxi(hl, hr);
                    Smn[i] = l ? smn_of(l) : SWn[i]->key;
                    Smx[i] = r ? smx_of(r) : SWn[i]->key;
                    Ssz[i] = 1 + ssz_of(l) + ssz_of(r);
                }
                Sok[i] = ok;
            }
        }
    }
}
static void slink(wn *parent, wn *child, int side, _Bool exists, int factor)
{
    a_avl_set_child(&parent->n, exists ? &child->n : (a_avl_node *)A_NULL, side);
    child->n.left = child->n.right = A_NULL;
    a_avl_set_parent_factor(&child->n, &parent->n, factor);
}
void h_splice(void)
{
    ND(int, depth, int); ND(_Bool, hasG_, bool); ND(int, sideG_, int);
    ND(int, hL, int); ND(int, h0, int); ND(int, h1, int); ND(int, h2, int);
    ND(int, fL, int); ND(int, f0, int); ND(int, f1, int); ND(int, f2, int); ND(int, fG, int);
    ASSUME(depth >= 0 && depth <= MAXDEPTH && (sideG_ == -1 || sideG_ == 1));
    ASSUME(1 <= hL && hL <= HMAX && 0 <= h0 && h0 <= HMAX && 0 <= h1 && h1 <= HMAX && 0 <= h2 && h2 <= HMAX);
    ASSUME(-1 <= fL && fL <= 1 && -1 <= f0 && f0 <= 1 && -1 <= f1 && f1 <= 1 && -1 <= f2 && f2 <= 1 && -1 <= fG && fG <= 1);
    wn *sp[3]; sp[0] = &sS0; sp[1] = &sS1; sp[2] = &sS2;
    wn *rb[3]; rb[0] = &sR0; rb[1] = &sR1; rb[2] = &sR2;
    int hs[3]; hs[0] = h0; hs[1] = h1; hs[2] = h2;
    int fs[3]; fs[0] = f0; fs[1] = f1; fs[2] = f2;
    int i;
    snw = 0; SWn[snw++] = &sX;
    for (i = 0; i < 3; ++i) { if (i <= depth) { SWn[snw++] = sp[i]; } }
    SBn[0] = &sL; SBn[1] = &sR0; SBn[2] = &sR1; SBn[3] = &sR2; snb = 4;
    SBh[0] = hL; SBh[1] = h0; SBh[2] = h1; SBh[3] = h2;
    sG.key = 1000; sL.key = 10; sX.key = 20;
    for (i = 0; i < 3; ++i) { sp[i]->key = 100 - 20 * i; rb[i]->key = 100 - 20 * i + 5; }
    /* heights of the spine nodes bottom-up: the successor Y = sp[depth] has no left child */
    int hh[4]; hh[depth + 1 <= 3 ? depth + 1 : 3] = 0;
    int hsp[3];
    for (i = 2; i >= 0; --i) { if (i <= depth) { int hl = (i == depth) ? 0 : hsp[i + 1]; hsp[i] = 1 + maxi(hl, hs[i]); ASSUME(hs[i] - hl <= 1 && hl - hs[i] <= 1); } }
    int hX = 1 + maxi(hL, hsp[0]);
    ASSUME(hsp[0] - hL <= 1 && hL - hsp[0] <= 1);
    /* links and factors */
    sG.n.left = sG.n.right = A_NULL; a_avl_set_parent_factor(&sG.n, A_NULL, fG);
    sX.n.left = sX.n.right = A_NULL; a_avl_set_parent_factor(&sX.n, hasG_ ? &sG.n : (a_avl_node *)A_NULL, hsp[0] - hL);
    if (hasG_) { a_avl_set_child(&sG.n, &sX.n, sideG_); root.node = &sG.n; } else { root.node = &sX.n; }
    slink(&sX, &sL, -1, 1, fL);
    for (i = 0; i < 3; ++i)
    {
        if (i <= depth)
        {
            int hl = (i == depth) ? 0 : hsp[i + 1];
            slink(i == 0 ? &sX : sp[i - 1], sp[i], i == 0 ? 1 : -1, 1, hs[i] - hl);
        }
    }
    for (i = 0; i < 3; ++i) { if (i <= depth) { slink(sp[i], rb[i], 1, hs[i] > 0, fs[i]); if (i == depth) { sp[i]->n.left = A_NULL; } } }
    a_uptr Gword0 = sG.n.parent_; a_avl_node *Gother0 = a_avl_child(&sG.n, -sideG_);
    a_uptr Xword0 = sX.n.parent_;
    phantom_parent = A_NULL;
    spasses();
    ASSUME(sok_of(&sX.n) && sh_of(&sX.n) == hX);
    int size0 = ssz_of(&sX.n), left = 7;
#ifdef VIA_REMOVE /* the same lemma through a_avl_remove (two-child path), its retrace loop cut at the first step by the recording stand-in:
                     the glue must start that step at the node, and for the side, that a_avl_handle_remove reported */
    verif_step_calls = 0;
    a_avl_remove(&root, &sX.n);
    ASSERT(verif_step_calls == 1 && verif_step_root == &root && (verif_step_sign == 1 || verif_step_sign == -1), "remove (two children): exactly one retrace step is started after the splice");
    a_avl_node *ret = verif_step_parent;
    left = verif_step_sign > 0; /* library convention: sign +1 = the LEFT subtree shrank */
#else
    a_avl_node *ret = a_avl_handle_remove(&root, &sX.n, &left);
#endif
    {
        wn *Y = sp[depth];
        a_avl_node *t = hasG_ ? a_avl_child(&sG.n, sideG_) : root.node;
        /* X is unlinked: judge the remaining window nodes */
        int j = 0; wn *keep[SW];
        for (i = 0; i < SW; ++i) { if (i < snw && SWn[i] != &sX) { keep[j++] = SWn[i]; } }
        for (i = 0; i < SW; ++i) { if (i < j) { SWn[i] = keep[i]; } }
        snw = j;
        ASSERT(t == &Y->n && Y->n.parent_ == Xword0, "handle_remove: the in-order successor stands where the node stood, with its parent and balance factor");
        ASSERT(!hasG_ || (sG.n.parent_ == Gword0 && a_avl_child(&sG.n, -sideG_) == Gother0 && root.node == &sG.n), "handle_remove: nothing above the node changed");
        ASSERT(ret == (depth == 0 ? &Y->n : &sp[depth - 1]->n) && left == (depth == 0 ? 0 : 1), "handle_remove: returns the parent of the successor's old position and the side that shrank");
        phantom_parent = ret; phantom_side = left ? -1 : 1;
        spasses();
        ASSERT(sok_of(t), "handle_remove: counted with the old height of the reported subtree, every node is a valid AVL node with correct order and parent links (the retrace precondition)");
        ASSERT(sh_of(t) == hX, "handle_remove: ... and the heights are those before the removal");
        ASSERT(ssz_of(t) == size0 - 1, "handle_remove: exactly the removed element is gone");
    }
    VERIF_CANARY();
}
