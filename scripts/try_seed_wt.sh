#!/bin/bash
# scripts/try_seed_wt.sh <seed dir name> [property id] [extra check args]: apply a seeded change in the private worktree /tmp/wt/me and run the check against it
S=$1; ID=${2:-${S%%-*}}; shift; shift
W=${WT:-/tmp/wt/me}
[ -d $W ] || git -C /repo worktree add --detach $W HEAD >/dev/null 2>&1
git -C $W checkout -q -- . ; git -C $W checkout -q --detach $(git -C /repo rev-parse HEAD)
git -C $W apply /verif/seeded/$S/patch.diff || { echo "patch does not apply"; exit 2; }
cd /verif; VERIF_DEV_TIMEOUTS=1 VERIF_REPO=$W ./check $ID --no-evidence "$@" 2>&1 | grep -E "violated|failed obl|undecided|UNDECIDED|VIOLATION|tier=" | head -12
git -C $W checkout -q -- .
