#!/bin/sh
# validate MANIFEST.json and all evidence files against the given schemas (tooling venv has jsonschema)
python3-vt - <<'PY'
import json,glob,jsonschema
jsonschema.validate(json.load(open('/verif/MANIFEST.json')),json.load(open('/root/.vp/MANIFEST.schema.json'))); print('manifest valid')
s=json.load(open('/root/.vp/EVIDENCE.schema.json'))
for f in sorted(glob.glob('/verif/evidence/*.json')):
    jsonschema.validate(json.load(open(f)),s); print(f,'valid')
PY
