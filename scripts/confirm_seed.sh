#!/bin/bash
# scripts/confirm_seed.sh <ID> <k>: confirm a sub-agent's seeded change in its scratch worktree /tmp/seed/<ID>:
#   demo passes without the patch, fails with it; the 41 tests still pass with it. Copies to /verif/seeded/<ID>-<k>/ on success.
ID=$1; K=$2; B=${SEEDBASE:-/tmp/seed}; KO=${KOFF:-0}; KK=$((K+KO)); W=$B/$ID; O=$B/out/$ID
cd $W || exit 2
git checkout -q -- . ; 
cmd=$(grep -m1 -E "^\s*(\*|//)?\s*(gcc|cc|clang) " $O/demo$K.c | sed -E 's/^\s*(\*|\/\/)?\s*//; s/\*\/\s*$//')
[ -z "$cmd" ] && { echo "no compile command found"; exit 2; }
rm -f $O/demo$K.bin
cmd=$(echo "$cmd" | sed -E 's/ *&& .*$//' | sed -E "s#-o +[^ ]*demo$K[^ ]*#-o $O/demo$K.bin#")
echo "CMD: $cmd"
( cd $O && eval "$cmd" ) >/dev/null 2>&1 || { echo "demo build failed (clean)"; ( cd $O && eval "$cmd" ) 2>&1 | tail -5; exit 2; }
$O/demo$K.bin >/dev/null 2>&1; r0=$?
git apply $O/patch$K.diff || { echo "patch does not apply"; exit 2; }
( cd $O && eval "$cmd" ) >/dev/null 2>&1 || { echo "demo build failed (patched)"; git checkout -q -- .; exit 2; }
$O/demo$K.bin > $O/demo$K.out 2>&1; r1=$?
cmake -G Ninja -B _build -DCMAKE_BUILD_TYPE=RelWithDebInfo >/dev/null 2>&1 && cmake --build _build >/dev/null 2>&1
t=$(ctest --test-dir _build -j8 2>&1 | grep -E "tests passed|tests failed")
git checkout -q -- . ; rm -rf _build $O/demo$K.bin
echo "clean-exit=$r0 patched-exit=$r1 tests: $t"
if [ $r0 -eq 0 ] && [ $r1 -ne 0 ] && echo "$t" | grep -q "100% tests passed, 0 tests failed out of 41"; then
  D=/verif/seeded/$ID-$KK; mkdir -p $D; cp $O/patch$K.diff $D/patch.diff; cp $O/demo$K.c $D/demo.c; cp $O/notes$K.md $D/notes.md; tail -5 $O/demo$K.out > $D/demo.patched.out
  python3 - "$ID" "$KK" "$cmd" "$r0" "$r1" "$t" "$W" <<'PY'
import json,sys
ID,K,cmd,r0,r1,t,W=sys.argv[1:8]
D='/verif/seeded/%s-%s'%(ID,K)
notes=open(D+'/notes.md').read()
json.dump({"property":ID,"seed":"%s-%s"%(ID,K),"origin":"fresh sub-agent given only the property text and a scratch worktree",
 "needs_to_manifest":notes.strip(),
 "ran":["git apply patch.diff in scratch worktree %s (HEAD of /repo)"%W, cmd+"  -> exit %s without the patch, exit %s with it"%(r0,r1),
        "cmake -G Ninja -B _build && cmake --build _build && ctest --test-dir _build -j8 with the patch: "+t.strip()],
 "detected_by":None},open(D+'/meta.json','w'),indent=1)
PY
  echo "CONFIRMED -> $D"
else echo "NOT CONFIRMED"; fi
