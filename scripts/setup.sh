#!/bin/sh
# offline setup: nothing is fetched or compiled ahead of time (every check rebuilds from /repo's working tree);
# verify the tools are present and create the output directories.
set -e
cd "$(dirname "$0")/.."
for t in cbmc goto-cc goto-instrument gcc python3 git; do command -v $t >/dev/null || { echo "missing tool: $t"; exit 1; }; done
cbmc --version
mkdir -p evidence replays .work
python3 -c "import json;json.load(open('MANIFEST.json'))"
echo setup ok
