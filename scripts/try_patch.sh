#!/bin/sh
# scripts/try_patch.sh <patch.diff> <PROPERTY> [check args...]: apply a seeded change to /repo, run the check, undo it
p=$(realpath "$1"); shift
git -C /repo apply "$p" || { echo "patch does not apply"; exit 3; }
"$(dirname "$0")/../check" "$@"; rc=$?
git -C /repo checkout -- .
echo "exit=$rc"
exit $rc
