#!/usr/bin/env python3
"""Regenerates /verif/MANIFEST.json from the table below (run after adding/removing a check)."""
import json, os, subprocess, sys
ROOT = os.path.dirname(os.path.dirname(os.path.abspath(__file__)))

# property -> (category, level text, level note, technique, design ref)
CLAIMED = {
 "C19": ("proof",
         "CBMC proofs over all 2^8..2^64 words for bit reversal and the byte-order accessors (loop-free harness triples), for the square-root fast path and its Newton start value (obligation at the iteration-head hook: x < (x1+1)^2 for every x), termination of Euclid's loop (loop contract with decreases clause), and the call protocol of lcm (a_uNN_gcd replaced by its contract: lcm consults the full-width gcd of exactly its arguments, for all pairs). The Newton step/exit lemma is assumed (solver limit), so sqrt end-to-end and the gcd/lcm divisibility clauses are bounded stand-ins (x < 2^16; a,b < 64 and A*2^40,B*2^40) that are labelled bounded and not counted as discharged.",
         "trusted: cbmc 6.11.0 front end + SAT back end, LP64 little-endian machine model, cbmc's model of __builtin_clz; assumed: integer Newton step lemma; ghost witness index stands for a universal quantifier",
         "contract-based deductive verification with CBMC (harness Hoare triples + goto-instrument loop contracts), bounded unwinding stand-ins where stated", "5/C19"),
 "C17": ("proof",
         "For every polynomial: each table entry equals the bitwise remainder of its byte (outer generator loop under a loop contract with a ghost witness index, entry compared with the definition at write time by the A_VERIF_HOOK site, inner 8-step loop unwound completely); for all (poly, value, byte) the table byte step equals 8 bit-by-bit division steps, and the MSB-/LSB-first bit steps are mirror images; for every buffer length <= 2^32 each a_crcNN / a_hash_* result equals the ghost left fold of the reference step over exactly the bytes of the buffer (DFCC function contract + loop contract), the string forms folding up to the first NUL. Whole-message equality with bitwise division, chunking and string/length agreement follow by two-line paper lemmas (fold congruence / concatenation).",
         "trusted: cbmc 6.11.0, LP64; assumed: paper lemmas composing table+step+fold, ghost witness = universal quantifier, buffers <= 2^32 bytes",
         "contract-based deductive verification with CBMC: DFCC function contracts, loop contracts, ghost-fold hooks", "5/C17"),
 "C18": ("proof",
         "Encoder: for all 2^32 arguments the length is the UTF-8 table's, exactly that many bytes are written (exact-size block + ghost witness byte), byte shapes and payload are right. Decoder: DFCC contract on an arbitrary fresh block of exactly min(num,6) bytes with arbitrary num - no read outside it, result <= num, <= 6, trailing byte is a continuation byte, 0xFE/0xFF refused; both output modes agree. Round trip for every code point 1..2^31-1 and refusal of every proper prefix (loop-free after unwinding the <=7-step loops completely). a_utf_length under a loop contract with the decoder replaced by its contract and ghost call bookkeeping: one increment per accepted sequence, stop offset = sum of reported lengths <= num, stops when the decoder refuses.",
         "trusted: cbmc 6.11.0, LP64; a_utf_length_: read bound not decided (see evidence assumptions); buffers <= 2^32 bytes",
         "contract-based deductive verification with CBMC: DFCC function contracts (enforce + replace), loop contracts, complete unwinding of width-bounded loops", "5/C18"),
 "C12": ("proof",
         "Loop-free Hoare triples over IEEE doubles, decided by cbmc with the cvc5 back end: after one step of the plain, single-neuron and fuzzy-tuned controllers from an ARBITRARY prior state (all fields any double incl. NaN/inf; finite ordered output limits) the output lies in [outmin,outmax] and is what is returned - so it holds after every history; the positional integrator never moves further beyond its clamp and is frozen when outside and pushed outward (ki >= 0, summin <= 0 <= summax); bookkeeping of feedback/error/var; zero == init. Positional and incremental difference equations are equalities with the documented formula on the exact integer domain (bounded-domain units).",
         "trusted: cbmc 6.11.0 float encoding + cvc5; assumed: induction over histories, a_pid_fuzzy_out_ by its frame contract, pos/inc coincidence by exact algebra from the two equations; 'state stays finite' not applicable",
         "contract-based deductive verification with CBMC: Hoare triples from arbitrary state (inductive invariant = true), contract replacement of the gain scheduler", "5/C12"),
 "C13": ("proof",
         "Hoare triples over IEEE doubles (cvc5 back end, one query per obligation): tri/trap/lins/linz for all finite inputs up to 2^500 and every ordered tuple incl. degenerate shoulders - exact 0 outside the support, exact 1 on the core/peak, the flank formula, never NaN, never negative; gauss/gauss2/sig/gbell within [0,1] from the sign structure given assumed libm contracts; min/max/bounded/algebraic operators: commutativity, range, exact boundary cases; the dispatcher a_mf evaluates exactly the specific function with a[0..arity) (specific functions replaced by recording contracts). Bounded units: s/z/pi structure on the exact integer domain, class bounds of the operators on k/1024, the parameter-table walk for tables of <= 2 (quick) / 3 entries, the gain scheduler's scratch buffer for 1-2 (quick) / 3 active sets and rule bases of order <= 7 (exact-size heap blocks).",
         "trusted: cbmc 6.11.0 float encoding, cvc5; libm exp/pow/sqrt by assumed contracts; flank range/continuity/monotonicity and 'gains between smallest and largest consequent' not applicable (IEEE division/weighted mean)",
         "contract-based deductive verification with CBMC: Hoare triples, recording contracts (replace-call-with-contract), bounded stand-ins for table walk and scratch buffer", "5/C13"),
 "C04": ("proof",
         "UNBOUNDED: a_vec_setm growth policy for every capacity up to 2^40 (loop contract with termination: request covered, rounded to the pointer size, within 1.5x+1, one allocation, failure keeps the old block) and the vector accessors for every count/capacity/index (element size concretised). BOUNDED: symbolic check of the real vector and fixed-buffer code against an abstract sequence: one harness per public operation starts from an ARBITRARY valid container (capacity <= 3 quick / <= 4 thorough, count <= capacity, contents symbolic, element size concrete) and applies the real operation with indices and counts over the FULL 64-bit range of the index type; ghost witness elements compare the result with the abstract sequence (insert/remove/push/pull/store/erase/setn/setz/accessors/sort_fore/sort_back/push_sort/swap/ctor/dtor/new/die), exactly sized heap blocks turn every out-of-storage access into a failed obligation, the allocator model may fail at every request. The per-operation units are labelled bounded (capacity) and are not counted as discharged; composition over histories is by induction on paper.",
         "trusted: cbmc 6.11.0, byte-loop models of memcpy/memmove, allocator model; qsort/bsearch wrappers not checked; capacity bound 3/4, element sizes {2} quick / {1,2,3,8} thorough",
         "contract-style Hoare triples per operation checked by CBMC on bounded containers (bounded stand-in, indices unbounded)", "5/C04"),
 "C09": ("other",
         "Bounded symbolic check (all shapes with every dimension <= 3 quick / <= 5 thorough, contents symbolic, exactly sized blocks): transposes exact and mutually inverse, identity/triangle/diagonal construction and extraction patterns bit for bit for m<n, m=n, m>n, the four product kernels equal the definition (sum in increasing k, integer entries on the exact domain), frame: inputs unchanged and nothing written outside the result.",
         "trusted: cbmc 6.11.0 (+cvc5 for the product value clauses); dims bounded; a_real_mulTT forms a pointer beyond one-past-the-end of Y (no access) - Y gets slack cells in that unit",
         "bounded symbolic execution of the real kernels with CBMC against definitional postconditions", "5/C09"),
 "C06": ("other",
         "Bounded symbolic check of the real string code against an abstract byte string: one harness per public operation from an ARBITRARY valid string object (capacity 0/8/16, any length <= capacity, contents symbolic incl. NUL and bytes >= 0x80, terminated or not): setm/setm_, catc, catn, cats, cat, getc, getn, setn, exit, swap, new/die/ctor/dtor, rtrim/ltrim/trim with explicit sets, cmp/cmpn, catv (formatter replaced by its ISO C contract over a ghost output, incl. the output that exactly fills the spare room and growth failure), a_utf_catc; ghost witness bytes for content, exactly sized blocks for memory safety, allocator model may fail at every request. The loop-free operations are checked a second time with capacity, length and block length symbolic up to 1024 bytes (4096 thorough) on one large array (in-place allocator stub, memcpy abstracted to a ghost witness byte): every distance from the reallocation boundary. Bounded (capacity/appended length), hence level 'other'.",
         "trusted: cbmc 6.11.0 (MiniSat/CaDiCaL), byte-loop memcpy/memmove/memchr models, cbmc's memcmp/strlen models, vsnprintf contract, allocator model",
         "contract-style Hoare triples per operation checked by CBMC on bounded strings", "5/C06"),
 "C05": ("proof",
         "UNBOUNDED: every intrusive-list primitive on an arbitrary heap (pool of 10 nodes with arbitrary links standing for a heap of any size): a_list_add_ and a_list_del_ proved against function contracts incl. frame (assigns clause), the add/del/set/mov/rot families proved with those two REPLACED by their contracts, the swap family over the bodies: from the consistent edges the documentation requires around the operands each primitive creates exactly the edges of the result and leaves every other link field of every node alone; likewise every singly-linked-list primitive with the local form of the tail invariant (a chain node has a null link exactly when it is the tail). BOUNDED: symbolic check of the intrusive list, singly linked list and queue code against abstract sequences: every list primitive (add/del/set/mov/rot/swap families) on rings of <= 3 nodes per list with all positions and aliasing patterns, every slist operation with the tail invariant, every queue operation (push/pull/insert/remove at all indices, indexed access from both ends, element swap incl. adjacent elements, whole-queue swap, sort_fore/back, push_sort, drop, setz, new/die/dtor) on queues of <= 3 elements with a symbolic recycle pool; after each operation the ring is walked and compared with the abstract sequence incl. node addresses (elements stay where they are), back links are checked, a recycled node is shown not to be enqueued; allocator may fail at every request.",
         "trusted: cbmc 6.11.0, allocator model; queue and singly linked list units are bounded stand-ins (not counted as discharged); glue from edges to abstract ring sequences on paper, cross-checked by the bounded ring units; known finding a_que_setz (listed)",
         "function contracts (DFCC enforce/replace) for the list primitives on an arbitrary heap + contract-style Hoare triples per operation on bounded linked structures", "5/C05"),
 "C07": ("other",
         "Fault enumeration inside the bounded per-operation checks of vector, buffer, queue and string: the allocator hook is a model that may fail at every request (symbolic fault schedule covers single faults at every position and failure from a position onward); on every failing path the operation must report failure and leave the container exactly as it was (retry = success case of the same triple); a ghost ledger proves that exactly the owned blocks are live after each operation and none after dtor/die.",
         "trusted: cbmc 6.11.0, allocator model; bounded container sizes; composition over histories on paper; known finding a_que_setz (listed)",
         "contract-style Hoare triples with a failing-allocator model and a ghost block ledger, checked by CBMC (bounded)", "5/C07"),
 "C08": ("other",
         "Bounded symbolic check (orders 1..3 quick, up to 4-5 thorough; matrices symbolic, exactly sized blocks): structural clauses only - permutation validity and parity vs. sign, failure on vanishing / non-positive / NaN pivots, strictly positive Cholesky diagonal on success, plu_P/P_ exact, solve/inverse with identity factors return exactly P b / P, memory safety and frame of every routine incl. the strided in-place variants, sgndet sign logic. Residual/accuracy clauses are not applicable (IEEE product/quotient chains).",
         "trusted: cbmc 6.11.0 (+cvc5), sqrt by assumed contract; orders bounded; numeric clauses not applicable",
         "bounded symbolic execution of the real factorization code with CBMC against structural postconditions", "5/C08"),
 "C01": ("proof",
         "UNBOUNDED: window lemmas for the retrace steps a_avl_handle_growth / a_avl_handle_shrink (incl. both rotations) for the successor splice a_avl_handle_remove (spine depth <= 2; also through a_avl_remove with the retrace step replaced by a recording contract), and glue lemmas showing that a_avl_insert_adjust and the simple unlink of a_avl_remove hand exactly the step invariant to the first retrace step (or finish with a valid tree), and the descent loops of a_avl_search / a_avl_insert under loop contracts with ghost key intervals (a wrong turn leaves the interval; resident key: returned, nothing written; new key: linked into an empty slot on the right side, rebalancing started once), packed parent word: for boundary subtrees of every height the rebalanced window is a valid AVL search tree of the expected height with intact parent links, or the step invariant holds one level up (induction over the climb loop on paper); packed-word accessors for all pointers/factors. BOUNDED: the real a_avl_insert / a_avl_remove / a_avl_search run by CBMC on EVERY valid AVL tree of depth <= 3 (<= 7 nodes, one unit per tree shape; keys, inserted key position and removed node symbolic; a sample (every 16th) of the depth-4 shapes = up to 15 nodes in the thorough tier): afterwards a recursive checker over the actual links shows search order, parent links pointing back, |height difference| <= 1 and stored balance factor == difference; node count and lookups give the element set; duplicate insertion returns the resident node and changes no link; lookup finds exactly the present keys. The bounded units are labelled bounded and not counted as discharged.",
         "trusted: cbmc 6.11.0 + CaDiCaL; whole-tree units use the unpacked node layout (A_SIZE_POINTER=1), packed layout: accessor proofs + all lemma units; histories by induction over operations on paper; trees deeper than the bound not covered",
         "bounded exhaustive symbolic execution with CBMC of the real tree code against the full representation invariant", "5/C01"),
 "C02": ("proof",
         "UNBOUNDED: inductive-step lemmas for both fix-up loops (a_rbt_insert_adjust cases 1-3 and mirrors; a_rbt_remove_adjust cases 1-4 and mirrors; packed parent/colour word) on windows whose boundary subtrees carry ghost black heights of every size, entered at the loop head through the A_VERIF_HOOK sites: terminating paths give a valid red-black window with the old black height, the continuing path re-establishes the loop invariant one level up; the library's A_ASSUME statements are proved, not assumed; a further lemma shows that a_rbt_remove (all unlink cases, successor up to two levels down the spine) either ends with a valid tree or reaches the fix-up loop head in a state satisfying that loop's invariant; the descent loops of a_rbt_search / a_rbt_insert under loop contracts with ghost key intervals (as for the AVL tree); accessors for all pointers/colours. BOUNDED: the real a_rbt_insert / a_rbt_remove / a_rbt_search run by CBMC on EVERY valid red-black tree of depth <= 3 (one unit per shape; colours, keys, inserted key position and removed node symbolic; a sample (every 16th) of the depth-4 shapes in the thorough tier): afterwards a recursive checker shows search order, parent links, black root, no red node with a red child, equal black heights; node count and lookups give the element set; duplicates and lookup as for C01. The bounded units are labelled bounded and not counted as discharged.",
         "trusted: cbmc 6.11.0 + CaDiCaL; unpacked node layout in the whole-tree units; fix-up cases that need more than 7 nodes before the operation (e.g. sibling case 3 on the second loop iteration) are only reached by the thorough tier (depth 4)",
         "bounded exhaustive symbolic execution with CBMC of the real tree code against the full representation invariant", "5/C02"),
 "C03": ("other",
         "All six iteration protocols through the real foreach macros and tear-down on every tree shape of depth <= 3 (symbolic shape, both tree types; depth 4 thorough), compared with recursive reference traversals; next/prev inverse at every node; tear-down from the root and from every start node: every element exactly once, children before parents, tree empty; interrupted after any number of steps the rest is still linked and reachable.",
         "trusted: cbmc 6.11.0 + CaDiCaL; bounded depth; unpacked node layout",
         "bounded symbolic execution with CBMC of the real iterator code against reference traversals", "5/C03"),
 "C10": ("proof",
         "Loop-free Hoare triples over IEEE doubles on the library's own fallback bodies (all A_HAVE_C* switches off; cvc5 / SAT per unit): field arithmetic equal to the textbook formulas (same-expression congruence, exact-domain and power-of-two magnitude units for inv/div), sqrt/atan/asin/acos branch, sign and range clauses off the cuts, real-argument variants' branch constants, composition skeletons (asinh/acosh/atanh/sec/csc/cot/log2/log10/logb/pow) as call protocols with the inner function replaced by a contract, constants bit-exact (pi, 1/ln2, 1/ln10). Accuracy against a high-precision oracle is not applicable.",
         "trusted: cbmc 6.11.0, cvc5; libm real functions and a_real_hypot/atan2/log1p/acosh/atanh as assumed contracts (uninterpreted functions with ISO C sign/range facts); accuracy clauses not applicable; real parts of asin/acos off the axis only as range/quadrant",
         "contract-based deductive verification with CBMC: Hoare triples, assumed libm contracts, contract replacement for compositions", "5/C10"),
 "C11": ("proof",
         "Fallback bodies (A_HAVE_* off): a_real_atan2 axis/quadrant logic for all inputs (exactly +-pi/2 on the y axis), asinh/acosh/atanh branch structure, special values and odd symmetry, expm1/log1p structure, norm2/norm3 sign/NaN/zero facts, coordinate conversion call protocols (P, cvc5); bounded units: norm/norm_ memory safety and value facts, sum/mean/dot equal the left fold on an exact domain, copy/swap/fill/zero/push/roll helpers exact permutation semantics with ghost witness and guard cells for lengths incl. 0 and 1 and strides 1..3. Accuracy/overflow-freedom clauses are not applicable.",
         "trusted: cbmc 6.11.0, cvc5; libm by assumed contracts; lengths bounded in the B units; accuracy not applicable",
         "contract-based deductive verification with CBMC: Hoare triples with assumed libm contracts; bounded stand-ins for the array helpers", "5/C11"),
 "C16": ("proof",
         "a_tf_set_num/set_den/init/zero for every order; a_lpf_iter/a_hpf_iter equal the documented update for all doubles (same-expression congruence), pass-through/hold cases, zero/init (P). Bounded units (orders <= 4): a_tf_iter delay lines are the new sample followed by the old entries (ghost witness, exactly sized blocks), returned y is what is pushed and equals sum num*input - sum den*output on the exact domain in the code's accumulation order, two/three steps from zero state and a_tf_zero replay; a_real_push_fore/back incl. n = 0, 1. LTI, range for general alpha, settling and the gen() range are not applicable.",
         "trusted: cbmc 6.11.0, cvc5; element-wise memmove stub in the equation units (shift itself proved against cbmc's model); orders bounded; rounding-dependent clauses not applicable",
         "contract-based deductive verification with CBMC: Hoare triples; bounded stand-ins for the order-dependent loops", "5/C16"),
 "C14": ("proof",
         "Comparison-level clauses of the trapezoidal and bell generators/evaluators as Hoare triples over IEEE doubles (cvc5, one query per obligation; pointer checks in SAT companion units): degenerate request plans nothing; p0/p1 stored and v0/v1 stored clamped; plan shapes; for any context with ordered phase boundaries queries before the start / after the end hold the boundary state and pos/vel/acc(/jer) select the same phase (seven bell segments, mirrored by direction); jerk is +-jm or 0; t = ta + tv + td, tv >= 0, ta >= 2 taj and td >= 2 tdj in no-cruise plans; the bisection loop of a_trajbell_gen closed by a loop contract incl. termination. Bounded companions on small integer requests catch formula slips the nonlinear units cannot refute. Kinematic limits, continuity and end state are not applicable.",
         "trusted: cbmc 6.11.0, cvc5; sqrt by assumed contract; requests <= 2^200; kinematic/continuity/end-state clauses not applicable (nonlinear real arithmetic with sqrt)",
         "contract-based deductive verification with CBMC: Hoare triples, loop contract on the bisection loop, bounded companions", "5/C14"),
 "C15": ("proof",
         "For all doubles: a_trajpolyN_gen stores c[0]=p0, c[1]=v0, c[2]=a0/2; pos/vel/acc/jer at time zero return c[0], c[1], 2c[2], 6c[3]; pos/vel/acc/jer(x) are a_poly_eval_ of exactly the accessor coefficient vectors (call protocol). Bounded/exact-domain units: accessor vectors are the derivative coefficient vectors; final-time boundary identities for ts in {1,2,4} with small integer data (guards the closed-form constants); a_poly_eval_/evar_ equal the Horner value and eval(a) == evar(reverse a) for up to 9 coefficients; a_poly_swap_ reverses and is an involution for n <= 16. End-time accuracy 'within rounding' for general data is not applicable.",
         "trusted: cbmc 6.11.0, cvc5; |c| <= 2^1000 at time zero (inf*0); jerk c[3] = j0*(1/6) is exact only for j0 = 3*dyadic (recorded, not asserted); swap loop contract could not be closed for unbounded n",
         "contract-based deductive verification with CBMC: Hoare triples over doubles, exact-domain and bounded-length stand-ins", "5/C15"),
}

PENDING_REASON = "check not built yet in this session (work in progress; see DESIGN.md section 5 for the planned contracts)"
NOT_APPLICABLE = {
 "C20": "cross-language layout/ABI agreement between src/lib.rs and the C headers is not a pre/postcondition, invariant or lemma of any C function; CBMC cannot read Rust, so no contract within reach can express or decide it (DESIGN.md section 5, C20)",
}
ALL = ["C%02d" % i for i in range(1, 21)]


def main():
    head = subprocess.run(["git", "-C", "/repo", "log", "--format=%h %s"], capture_output=True, text=True).stdout.splitlines()
    hooks = [l.split()[0] for l in head if l.split(" ", 1)[1].startswith("verif hook")]
    checks = []
    for pid in ALL:
        if pid not in CLAIMED:
            continue
        cat, text, note, tech, ref = CLAIMED[pid]
        checks.append({
            "property_id": pid,
            "quick_cmd": "./check %s --tier quick" % pid,
            "thorough_cmd": "./check %s --tier thorough" % pid,
            "evidence_file": "/verif/evidence/%s.json" % pid,
            "replay_cmd_template": "./check %s --replay {path}" % pid,
            "engine": "cbmc-contracts",
            "level_claimed": {"category": cat, "text": text, "design_ref": "DESIGN.md section " + ref},
            "level_note": note,
            "technique": tech,
        })
    na = []
    for pid in ALL:
        if pid in CLAIMED:
            continue
        na.append({"property_id": pid, "reason": NOT_APPLICABLE.get(pid, PENDING_REASON)})
    man = {
        "version": 1,
        "setup_cmd": "sh scripts/setup.sh",
        "hooks": {
            "guard": "LIBA_VERIF",
            "enable": "checks compile the /repo translation units with goto-cc -DLIBA_VERIF -include /verif/contracts/hooks.h; A_VERIF_HOOK(name) then expands to VERIF_HOOK_<name> (ghost code supplied by /verif); with the guard off the macro is empty",
            "baseline_off_cmd": "sh scripts/baseline_off.sh",
            "source_commits": hooks,
            "add_only": True,
        },
        "engines": [{"name": "cbmc-contracts", "path": "/verif/lib/vdriver.py", "serves_properties": sorted(CLAIMED),
                     "kind_free_text": "goto-cc on the real /repo translation units (harness TU includes src/<file>.c), goto-instrument --dfcc function/loop contracts kept in /verif, cbmc 6.11.0 SAT back end; counterexamples replayed natively (gcc + ASan/UBSan) against the real code"}],
        "checks": checks,
        "not_applicable": na,
        "notes": "exit 0 = held, 1 = VIOLATION line printed, 2 = undecided (timeout / tool failure / loop shape changed) - never reported as a violation. Known findings: /verif/known_findings.json. Seeded changes used to test the checks: /verif/seeded/.",
    }
    with open(os.path.join(ROOT, "MANIFEST.json"), "w") as f:
        json.dump(man, f, indent=1)
    print("MANIFEST.json: %d checks, %d not_applicable" % (len(checks), len(na)))


if __name__ == "__main__":
    main()
