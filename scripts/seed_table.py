#!/usr/bin/env python3
"""scripts/seed_table.py [regex]: markdown table of the seeded-change detection results recorded in seeded/*/meta.json"""
import json, glob, re, sys
pat = re.compile(sys.argv[1] if len(sys.argv) > 1 else '.')
NEW = {  # seeds that the first run of the quick check missed -> what was added
 'C02-4': 'new lemma `rbt_lemma_unlink`', 'C03-3': 'reported by `./check C01` (new lemma `avl_lemma_splice`); C03 itself stays silent',
 'C06-4': 'UTF-8 length table clause in `str_utf_catc`', 'C07-3': 'recycle-pool capacity 2 variant of the queue units',
 'C08-4': 'new unit `lndet_protocol`', 'C13-3': 'new unit `fuzzy_out_gain`', 'C16-4': 'new unit `gen_nan`',
 'C17-3': 'was UNDECIDED (loop fingerprint): fingerprints relaxed to the loop head', 'C17-4': 'was UNDECIDED (loop fingerprint): fingerprints relaxed to the loop head',
 'C12-4': 'new units `fuzzy_out_none0/1` (C13 units run under C12 too)', 'C14-4': 'cruise-plan clauses in `bell_gen_small`',
 'C15-4': 'new units `tp*_final_ts2e-60/+60`', 'C19-3': 'new units `lcm64_protocol`, `lcm64_wide`', 'C19-4': 'new units `sqrt64_squares_*`',
 'C07-5': 'queue ledger: every pooled slot holds a distinct node',
}
print('| seed | change | detected | reporting units (first 3) | first failed obligation | replay confirmed | added after a miss |')
print('|---|---|---|---|---|---|---|')
for f in sorted(glob.glob('/verif/seeded/*/meta.json')):
    m = json.load(open(f)); s = m['seed']
    if not pat.search(s): continue
    d = m.get('detected_by') or {}
    title = open(f.replace('meta.json', 'notes.md')).readline().strip().lstrip('# ').strip()
    title = re.sub(r'^(C\d+\s*)?(seeded\s*)?(seed|defect|change|patch)\s*\d*\s*[:\-—–]*\s*', '', title, flags=re.I)[:90]
    ob = (d.get('first_obligations') or [''])[0]
    ob = re.sub(r'^failed obligation \S+ \[[^\]]*\]\s*', '', ob)[:90].replace('|', '\\|')
    det = 'yes' if d.get('detected') else ('under C01' if s == 'C03-3' else 'NO (exit %s)' % d.get('quick_exit'))
    print('| %s | %s | %s | %s | %s | %s | %s |' % (s, title.replace('|', '\\|'), det, ', '.join((d.get('units') or [])[:3]), ob, 'yes' if d.get('native_replay_confirmed') else 'no', NEW.get(s, '')))
