#!/bin/bash
# scripts/seed_matrix.sh [ID ...]: run every seeded change of /verif/seeded against its property's quick check,
# in a private worktree copy of /repo (VERIF_REPO), and record which units/obligations report it in meta.json.
cd "$(dirname "$0")/.."
W=/tmp/wt/matrix
git -C /repo worktree remove --force $W 2>/dev/null; rm -rf $W
git -C /repo worktree add --detach $W HEAD -q || exit 2
for d in seeded/*/; do
  s=$(basename $d); id=${s%-*}
  if [ $# -gt 0 ] && ! echo " $* " | grep -q " $id "; then continue; fi
  if [ -n "$SEEDS" ] && ! echo "$s" | grep -Eq -- "$SEEDS"; then continue; fi
  git -C $W checkout -q -- . ; git -C $W apply $PWD/$d/patch.diff || { echo "$s: patch does not apply"; continue; }
  out=$(VERIF_REPO=$W ./check $id --no-evidence 2>&1); rc=$?
  git -C $W checkout -q -- .
  echo "$out" > $d/check.quick.out.txt
  python3 - "$d" "$rc" <<'PY'
import json,sys,re
d,rc=sys.argv[1],int(sys.argv[2])
out=open(d+'/check.quick.out.txt').read()
units=sorted(set(re.findall(r'^\[C\d+\] (\S+)\s+violated',out,re.M)))
obl=[l.strip() for l in out.splitlines() if l.strip().startswith('failed obligation')][:8]
m=json.load(open(d+'/meta.json'))
m['detected_by']={'quick_exit':rc,'detected':rc==1,'units':units,'first_obligations':obl,
  'native_replay_confirmed':bool(re.search(r'^VIOLATION .*json$',out,re.M))}
json.dump(m,open(d+'/meta.json','w'),indent=1)
print(d, 'exit',rc, units[:4])
PY
done
git -C /repo worktree remove --force $W
