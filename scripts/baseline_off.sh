#!/bin/sh
# the repository's own test suite with the verification guard (LIBA_VERIF) OFF
set -e
cmake -G Ninja -S /repo -B /repo/_build -DCMAKE_BUILD_TYPE=RelWithDebInfo >/dev/null
cmake --build /repo/_build
ctest --test-dir /repo/_build -j8 --timeout 900
