"""Enumerates the heap-indexed shapes (bit i-1 set = heap position i exists) of all valid AVL / red-black trees of depth <= D."""
def _shapes(D):
    NN = (1 << D) - 1
    for m in range(1 << NN):
        ex = [False] * (2 * NN + 2)
        for i in range(1, NN + 1):
            ex[i] = bool((m >> (i - 1)) & 1)
        if all((i == 1 or not ex[i] or ex[i // 2]) for i in range(1, NN + 1)):
            yield m, ex, NN

def avl_shapes(D):
    out = []
    for m, ex, NN in _shapes(D):
        h = [0] * (2 * NN + 2)
        ok = True
        for i in range(NN, 0, -1):
            if ex[i]:
                if abs(h[2 * i] - h[2 * i + 1]) > 1:
                    ok = False
                    break
                h[i] = 1 + max(h[2 * i], h[2 * i + 1])
        if ok:
            out.append(m)
    return out

def rbt_shapes(D):
    out = []
    for m, ex, NN in _shapes(D):
        def rec(i):
            if i > NN or not ex[i]:
                return {(0, 1)}
            res = set()
            for (bl, cl) in rec(2 * i):
                for (br, cr) in rec(2 * i + 1):
                    if bl == br:
                        res.add((bl + 1, 1))
                        if cl == 1 and cr == 1:
                            res.add((bl, 0))
            return res
        if not ex[1] or any(c == 1 for (_, c) in rec(1)):
            out.append(m)
    return out
