"""descent-loop lemma units shared by C01 (AVL) and C02 (red-black): harness/search_lemma.c"""
from vdriver import U

# descent loops under loop contracts on an arbitrary heap (harness/search_lemma.c); shared with C02 (TREE_RBT)
NPOOL = 6  # pool size of harness/search_lemma.c (-DNP): the step concerns one node and its two child links; 6 nodes with arbitrary links


def descent_units(prefix, fn_search, fn_insert, fn_adjust, defines):
    defines = list(defines) + ["NP=%d" % NPOOL, "A_SIZE_POINTER=1"]  # separate parent field: the post-state reads the new node's parent, and cbmc is slow on pointers recovered from the packed word
    # the contract-file parser knows no struct tags behind casts, and byte-offset reads of the ghost fields made the queries slow and
    # erratic (280-600 s): the ghost fields are named through the pool objects themselves, one disjunct per pool node
    R = range(NPOOL)
    OR = lambda parts: "(" + " || ".join(parts) + ")"
    IN = lambda x: OR("(%s == &q%d.n && q%d.lo < verif_K && verif_K < q%d.hi)" % (x, i, i, i) for i in R)
    def MEAS(x):
        e = "0"
        for i in reversed(R):
            e = "(%s == &q%d.n ? 1000001 - q%d.dep : %s)" % (x, i, i, e)
        return e
    inv_s = "cur == 0 || " + IN("cur")
    inv_i = "(link == &root->node && parent == root->node) || " + OR(
        "(parent == &q%d.n && q%d.lo < verif_K && verif_K < q%d.hi && ((link == &q%d.n.left && verif_K < q%d.key) || (link == &q%d.n.right && verif_K > q%d.key)))" % ((i,) * 7) for i in R)
    # all obligations in one query take 25-600 s (erratic); each semantic obligation alone takes 5-35 s, all pointer checks together ~10 s
    common = dict(level="L", min_obl=5, unwind=12, timeout=600, defines=defines, replay=None, cbmc=["--object-bits", "10"],
                  split=8, groups=[r"loop_invariant|loop_decreases|loop_assigns|\.assigns\.|postcondition|precondition", r"\.assertion\."])
    return [
        U(prefix + "_lemma_search", "search_lemma.c", "h_search", functions=[fn_search],
          loops={fn_search: [{"loop_id": 0, "expect": "while (cur)", "invariants": inv_s, "assigns": "cur", "decreases": MEAS("cur")}]},
          restrict_fp=[(fn_search + ".function_pointer_call.1", "cmpk")],  # DFCC loop instrumentation crashes on an unresolved function pointer call inside the loop
          key=["invariant after step", "search: a result is an element"], **common),
        U(prefix + "_lemma_descent", "search_lemma.c", "h_insert", functions=[fn_insert], replace=[fn_adjust + "/contract_adjust"],
          loops={fn_insert: [{"loop_id": 0, "expect": "while (*link)", "invariants": inv_i, "assigns": "link, parent", "decreases": MEAS("*link")}]},
          restrict_fp=[(fn_insert + ".function_pointer_call.1", "cmpk")],
          key=["invariant after step", "insert: the new node hangs on the side"], **common),
    ]
