#!/usr/bin/env python3
"""Driver for the contract-based checks of /verif (see DESIGN.md section 3).

usage: check <PROPERTY-ID> [--tier quick|thorough] [--unit NAME[,NAME]] [--jobs N] [--keep] [--list]

Per unit:  goto-cc (compiles the /repo translation unit itself, included by the harness TU)
           -> goto-instrument --dfcc (function + loop contracts from /verif) -> cbmc --json-ui
Verdicts:  every obligation SUCCESS                 -> discharged
           an obligation FAILURE (counter-model)     -> VIOLATION (replay file written)
           timeout / OOM / front-end error / vacuity -> UNDECIDED (exit 2, never a violation)
"""
import argparse, hashlib, importlib.util, json, os, re, resource, shutil, subprocess, sys, time
from concurrent.futures import ThreadPoolExecutor
from pathlib import Path

ROOT = Path(__file__).resolve().parent.parent
REPO = Path(os.environ.get("VERIF_REPO", "/repo"))
CANARY = "VERIF_CANARY"
COMMON_CHECKS = ["--drop-unused-functions", "--bounds-check", "--pointer-check", "--div-by-zero-check",
                 "--pointer-primitive-check", "--no-malloc-may-fail",
                 "--no-standard-checks"]


def log(*a):
    print(*a, flush=True)


class Unit(dict):
    """A proof unit. Keys (all optional except name, harness, entry):
    name, harness (file under harness/), entry (harness function), level 'P'|'L'|'B',
    enforce [..], replace [..], loops {fn: [loop specs]}, defines [..], unwind int,
    cbmc [..extra flags], timeout s, mem_gb, bound (text, for B), tiers (..),
    functions [.. under contract], key [regex the obligation list must contain],
    min_obl int, replay {prog:.., args:..}, restrict_fp [(callsite, target)],
    solver, config (alternative config header), no_dfcc bool, no_canary bool, mem_est (expected peak GB, for admission), groups [regex over obligation names] (with split: one query per matching obligation + one for all others)
    """
    def __getattr__(self, k):
        return self.get(k)


def U(name, harness, entry, **kw):
    u = Unit(name=name, harness=harness, entry=entry)
    u.update(kw)
    u.setdefault("level", "P")
    u.setdefault("tiers", ("quick", "thorough"))
    u.setdefault("timeout", 600)
    u.setdefault("mem_gb", 12)
    u.setdefault("functions", [])
    return u


TMPDIR_FOR_TOOLS = None


def run(cmd, timeout, mem_gb, cwd=None, stdout=None):
    def lim():
        if mem_gb:
            b = int(mem_gb * (1 << 30))
            resource.setrlimit(resource.RLIMIT_AS, (b, b))
        os.setsid()
    t0 = time.time()
    env = dict(os.environ)
    if TMPDIR_FOR_TOOLS:
        env["TMPDIR"] = TMPDIR_FOR_TOOLS  # cbmc's SMT problem files land in the run's work directory and are removed with it
    p = subprocess.Popen(cmd, cwd=cwd, stdout=subprocess.PIPE if stdout is None else stdout, stderr=subprocess.PIPE, preexec_fn=lim, env=env)
    try:
        out, err = p.communicate(timeout=timeout)
        return p.returncode, (out or b"").decode("utf-8", "replace"), (err or b"").decode("utf-8", "replace"), time.time() - t0
    except subprocess.TimeoutExpired:
        # kill the whole process group: cbmc's external solver (cvc5/z3) must not survive as an orphan
        try:
            os.killpg(p.pid, 9)
        except Exception:
            p.kill()
        try:
            p.communicate(timeout=10)
        except Exception:
            pass
        return -999, "", "TIMEOUT", time.time() - t0
    finally:
        if p.poll() is None:
            try:
                os.killpg(p.pid, 9)
            except Exception:
                pass


def symbol_table(gb):
    rc, out, err, _ = run(["goto-instrument", "--show-symbol-table", str(gb)], 120, 4)
    return re.findall(r"^Symbol\.*: (\S+)$", out, re.M)


def loops_file(u, wd, gb):
    """Write the goto-instrument loop-contract file from the unit's loop specs.
    The symbol_map (short name -> scoped symbol of the repository function) is derived from
    the compiled binary, so a renamed local makes the unit undecided, not wrong."""
    syms = symbol_table(gb)
    fns = {}
    for fn, specs in u.loops.items():
        local = {}
        for sy in syms:
            if sy.startswith(fn + "::"):
                base = sy.split("::")[-1]
                local.setdefault(base, []).append(sy)
        lst = []
        for s in specs:
            e = {"loop_id": str(s.get("contract_loop_id", s["loop_id"]))}  # id after pre-unwinding, if different
            for k in ("assigns", "invariants", "decreases", "symbol_map"):
                if k in s:
                    e[k] = s[k]
            if "symbol_map" not in e:
                text = " ".join(str(s.get(k, "")) for k in ("assigns", "invariants", "decreases"))
                ids = set(re.findall(r"[A-Za-z_][A-Za-z_0-9]*", text))
                pairs = []
                for i in sorted(ids):
                    if i in local:
                        # innermost declaration wins (longest scope path)
                        full = sorted(local[i], key=lambda z: -z.count("::"))[0] if s.get("inner") else sorted(local[i], key=lambda z: z.count("::"))[0]
                        pairs.append("%s,%s" % (i, full))
                if pairs:
                    e["symbol_map"] = ";".join(pairs)
            lst.append(e)
        fns[fn] = lst
    srcs = sorted({s.get("source", u.get("loop_source", "")) for sp in u.loops.values() for s in sp})
    doc = {"sources": [str(x) for x in srcs if x], "functions": [{k: v} for k, v in fns.items()]}
    f = wd / (u.name + ".loops.json")
    f.write_text(json.dumps(doc, indent=1))
    return f


def check_loop_shape(u, gb, wd):
    """The loop contract must only be applied to the loop it was written for."""
    rc, out, err, _ = run(["goto-instrument", "--show-loops", str(gb)], 120, 4)
    if rc != 0:
        return "show-loops failed"
    found = {}
    cur = None
    for line in out.splitlines():
        m = re.match(r"Loop (\S+)\.(\d+):", line)
        if m:
            cur = (m.group(1), int(m.group(2)))
            continue
        m = re.match(r"\s+file (\S+) line (\d+) function (\S+)", line)
        if m and cur:
            found[cur] = (m.group(1), int(m.group(2)))
            cur = None
    for fn, specs in u.loops.items():
        n_found = len([k for k in found if k[0] == fn])
        want = u.get("loop_count", {}).get(fn, len(specs))
        if n_found != want:
            return "loop-shape-changed: %s has %d loops, contract written for %d" % (fn, n_found, want)
        for s in specs:
            key = (fn, int(s["loop_id"]))
            if key not in found:
                return "loop-shape-changed: %s.%s missing" % key
            exp = s.get("expect")
            if exp:
                f, ln = found[key]
                p = Path(f)
                if not p.is_absolute():
                    for base in (REPO, REPO / "src", ROOT / "harness", ROOT):
                        if (base / f).exists():
                            p = base / f
                            break
                try:
                    text = p.read_text().splitlines()
                    # loop head may be reported on the line of the condition or the body end
                    window = " ".join(text[max(0, ln - 3):ln + 1])
                except Exception:
                    return "loop-shape-changed: cannot read %s" % f
                if exp not in window:
                    return "loop-shape-changed: %s.%s head is not '%s' (line %d)" % (fn, s["loop_id"], exp, ln)
    return None


def parse_cbmc_json(text):
    try:
        data = json.loads(text)
    except Exception:
        # truncated output: try to recover the list prefix
        return None
    res = {"results": [], "messages": [], "status": None}
    for item in data:
        if not isinstance(item, dict):
            continue
        if "result" in item:
            res["results"] = item["result"]
        if "cProverStatus" in item:
            res["status"] = item["cProverStatus"]
        if "messageText" in item:
            res["messages"].append((item.get("messageType", ""), item["messageText"]))
    return res


def build_unit(u, wd):
    """goto-cc + goto-instrument. Returns (binary path | None, reason)."""
    cfg = ROOT / "config" / (u.config or "a.verif.h")
    gb = wd / (u.name + ".gb")
    cmd = ["goto-cc", "-o", str(gb), "--function", u.entry,
           "-I", str(REPO / "include"), "-I", str(REPO), "-I", str(ROOT),
           "-DLIBA_VERIF", "-DA_EXPORTS", '-DA_HAVE_H="%s"' % cfg,
           "-include", str(ROOT / "contracts" / "hooks.h")]
    for d in (u.defines or []):
        cmd.append("-D" + d)
    cmd.append(str(ROOT / "harness" / u.harness))
    rc, out, err, t = run(cmd, 300, 8)
    if rc != 0:
        return None, "goto-cc failed: " + (err.strip().splitlines() or [""])[-1][:300] + " | " + " ".join(err.strip().splitlines()[:6])[:600]
    cur = gb
    if u.restrict_fp:
        nxt = wd / (u.name + ".fp.gb")
        cmd = ["goto-instrument"]
        for site, tgt in u.restrict_fp:
            cmd += ["--restrict-function-pointer", "%s/%s" % (site, tgt)]
        cmd += [str(cur), str(nxt)]
        rc, out, err, t = run(cmd, 300, 8)
        if rc != 0:
            return None, "restrict-function-pointer failed: " + (out + err)[-400:]
        cur = nxt
    if u.loops and not u.no_dfcc:
        why = check_loop_shape(u, cur, wd)
        if why:
            return None, why
    if u.pre_unwind:
        # constant-bound inner loops nested in a loop under contract must be unwound first (complete: unwinding assertions on)
        nxt = wd / (u.name + ".uw.gb")
        cmd = ["goto-instrument", "--unwindset", ",".join("%s:%d" % (l, n) for l, n in u.pre_unwind), "--unwinding-assertions", str(cur), str(nxt)]
        rc, out, err, t = run(cmd, 300, 8)
        if rc != 0:
            return None, "pre-unwind failed: " + (out + err)[-400:].replace("\n", " | ")
        cur = nxt
    if not u.no_dfcc and (u.enforce or u.replace or u.loops):
        nxt = wd / (u.name + ".dfcc.gb")
        cmd = ["goto-instrument", "--dfcc", u.entry]
        for e in (u.enforce or []):
            cmd += ["--enforce-contract", e]
        for r in (u.replace or []):
            cmd += ["--replace-call-with-contract", r]
        if u.loops:
            cmd += ["--apply-loop-contracts", "--loop-contracts-file", str(loops_file(u, wd, cur))]
        cmd += (u.instrument or [])
        cmd += [str(cur), str(nxt)]
        rc, out, err, t = run(cmd, 600, 12)
        if rc != 0:
            return None, "goto-instrument failed: " + (out + err)[-600:].replace("\n", " | ")
        cur = nxt
    return cur, None


def cbmc_cmd(u, gb, extra=()):
    cmd = ["cbmc", str(gb), "--json-ui"] + [c for c in COMMON_CHECKS if c not in (u.drop_checks or [])]
    if u.unwind:
        cmd += ["--unwind", str(u.unwind), "--unwinding-assertions"]
    for fn, n in (u.unwindset or []):
        cmd += ["--unwindset", "%s:%d" % (fn, n)]
    if u.solver == "cvc5":
        cmd += ["--cvc5"]
    elif u.solver == "z3":
        cmd += ["--z3"]
    elif u.solver in ("cadical", "kissat"):
        cmd += ["--sat-solver", u.solver] if u.solver == "cadical" else ["--external-sat-solver", "kissat"]
    cmd += list(u.cbmc or [])
    cmd += list(extra)
    return cmd


def run_unit(u, wd, tier):
    r = {"unit": u.name, "level": u.level, "entry": u.entry, "harness": u.harness,
         "functions": list(u.functions), "status": None, "obligations": 0, "discharged": 0,
         "failed": [], "reason": None, "wall_s": 0.0, "solver_s": 0.0, "backend": None,
         "bound": u.bound, "samples": [], "canary": None}
    t0 = time.time()
    gb, why = build_unit(u, wd)
    if gb is None:
        r["status"] = "undecided"
        r["reason"] = why
        r["wall_s"] = round(time.time() - t0, 2)
        return r
    extra = []
    if u.only:
        # restrict to the named obligations (everything else of this unit is NOT claimed)
        rc, out, err, t = run(cbmc_cmd(u, gb, ["--show-properties"]), 300, u.mem_gb)
        names = []
        try:
            for item in json.loads(out):
                if isinstance(item, dict) and "properties" in item:
                    for pr in item["properties"]:
                        nm = pr.get("name", "")
                        txt = nm + " " + pr.get("description", "")
                        if any(re.search(k, txt) for k in u.only):
                            names.append(nm)
        except Exception:
            pass
        if not names:
            r["status"] = "undecided"
            r["reason"] = "none of the selected obligations %s was generated" % (u.only,)
            r["wall_s"] = round(time.time() - t0, 2)
            return r
        for nm in names:
            extra += ["--property", nm]
    cmd = cbmc_cmd(u, gb, extra)
    r["cmd"] = " ".join(cmd[:1] + ["<unit>.gb"] + cmd[2:])
    split_timeouts = []
    if u.split and not u.only:
        # one solver query per obligation, run concurrently (float-heavy units: a hard obligation no longer starves the others)
        rc, out, err, t = run(cbmc_cmd(u, gb, ["--show-properties"]), 300, u.mem_gb)
        names = []
        try:
            for item in json.loads(out):
                if isinstance(item, dict) and "properties" in item:
                    names = [pr.get("name") for pr in item["properties"]]
        except Exception:
            names = []
        if not names:
            r["status"] = "undecided"
            r["reason"] = "could not list the obligations for a split run"
            return r
        # batches: one obligation each, or (u.groups = [regex, ...]) one query for each obligation whose name matches a regex and ONE
        # query for all the others - each semantic obligation and the few hundred pointer checks take seconds, all at once minutes
        if u.groups:
            single, rest = [], []
            for nm in names:
                (single if any(re.search(g, nm or "") for g in u.groups) else rest).append(nm)
            batches = [[nm] for nm in single] + ([rest] if rest else [])
        else:
            batches = [[nm] for nm in names]

        def one(batch):
            flags = []
            for nm in batch:
                flags += ["--property", nm]
            return batch, run(cbmc_cmd(u, gb, flags), u.timeout, u.mem_gb)
        merged = {"results": [], "messages": [], "status": None}
        with ThreadPoolExecutor(max_workers=int(u.split) if int(u.split) > 1 else 4) as ex2:
            for batch, (rc2, out2, err2, t2) in ex2.map(one, batches):
                if rc2 == -999:
                    split_timeouts += batch[:3]
                    continue
                p2 = parse_cbmc_json(out2)
                if p2 is None:
                    split_timeouts += batch[:3]
                    continue
                merged["results"] += [x for x in p2["results"] if x.get("property") in batch]
                merged["messages"] += p2["messages"]
        parsed = merged
        rc, out, err = 0, "", ""
        r["wall_s"] = round(time.time() - t0, 2)
    else:
        rc, out, err, t = run(cmd, u.timeout, u.mem_gb)
        r["wall_s"] = round(time.time() - t0, 2)
        if rc == -999:
            r["status"] = "undecided"
            r["reason"] = "timeout after %ds" % u.timeout
            return r
        parsed = parse_cbmc_json(out)
    if parsed is None or (not parsed["results"] and parsed["status"] is None):
        r["status"] = "undecided"
        msg = ""
        if parsed:
            msg = " ".join(m for t_, m in parsed["messages"] if t_ in ("ERROR", "WARNING"))[-400:]
        r["reason"] = "cbmc gave no verdict (rc=%s) %s %s" % (rc, msg, err[-300:].replace("\n", " "))
        return r
    for t_, m in parsed["messages"]:
        mm = re.search(r"Runtime decision procedure: ([\d.]+)s", m)
        if mm:
            r["solver_s"] += float(mm.group(1))
        mm = re.search(r"Solving with (.*)|Running (SMT2? .*)", m)
        if mm and not r["backend"]:
            r["backend"] = (mm.group(1) or mm.group(2) or "").strip()
        if "ignoring" in m and "forall" in m:
            r["status"] = "undecided"
            r["reason"] = "back end ignored a quantifier"
    obligations = []
    canary_hit = False
    canary_seen = False
    unknown = []
    for res in parsed["results"]:
        desc = res.get("description", "")
        st = res.get("status")
        if CANARY in desc:
            canary_seen = True
            if st == "FAILURE":
                canary_hit = True
            continue
        if u.ignore and any(re.search(k, desc) for k in u.ignore):
            r.setdefault("ignored", []).append(res.get("property"))   # check class outside the property (documented per unit)
            continue
        obligations.append(res)
        if st == "SUCCESS":
            r["discharged"] += 1
        elif st == "FAILURE" and ("unwinding assertion" in desc or "recursion unwinding assertion" in desc):
            unknown.append((res.get("property") or "") + " (unwinding bound of the unit too small: undecided, not a violation)")
        elif st == "FAILURE":
            loc = res.get("sourceLocation", {})
            r["failed"].append({"obligation": res.get("property"), "description": desc,
                                "file": loc.get("file"), "line": loc.get("line"),
                                "function": loc.get("function")})
        else:
            unknown.append(res.get("property"))
    r["obligations"] = len(obligations)
    r["canary"] = canary_hit if canary_seen else None
    if not r["backend"]:
        r["backend"] = {"cvc5": "cvc5 (SMT2 back end, bit-blasted floats)", "z3": "z3 (SMT2 back end)", "cadical": "CaDiCaL (SAT)", "kissat": "kissat (external SAT)"}.get(u.solver or "", "MiniSat 2.2.1 (cbmc built-in SAT)")
    if not r["solver_s"]:
        r["solver_s"] = round(t, 2)   # cbmc does not report solver time at this verbosity: wall time of the whole cbmc call (symex + solver), an upper bound
    names = [o.get("property", "") + " " + o.get("description", "") for o in obligations]
    user = [o for o in obligations if ".assertion." in (o.get("property") or "") or "postcondition" in (o.get("property") or "") or "loop_invariant" in (o.get("property") or "")]
    for o in (user[:3] + obligations[:: max(1, len(obligations) // 4)][:2]):
        loc = o.get("sourceLocation", {})
        r["samples"].append({"obligation": o.get("property"), "description": o.get("description"),
                             "at": "%s:%s" % (loc.get("file"), loc.get("line")), "status": o.get("status")})
    if r["status"] == "undecided":
        return r
    if r["failed"]:
        r["status"] = "violated"
        r["_gb"] = str(gb)
        return r
    if unknown or split_timeouts:
        r["status"] = "undecided"
        r["reason"] = "obligations without verdict: %s" % ((unknown + ["%s (timeout %ds)" % (x, u.timeout) for x in split_timeouts])[:4],)
        return r
    # vacuity guards
    if not u.no_canary:
        if not canary_seen:
            r["status"] = "undecided"
            r["reason"] = "vacuity guard: canary obligation missing from the harness"
            return r
        if not canary_hit:
            r["status"] = "undecided"
            r["reason"] = "vacuity guard: canary not reachable (preconditions contradictory or function never returns)"
            return r
    if u.min_obl and r["obligations"] < u.min_obl:
        r["status"] = "undecided"
        r["reason"] = "vacuity guard: %d obligations < recorded minimum %d" % (r["obligations"], u.min_obl)
        return r
    for k in (u.key or []):
        if not any(re.search(k, n) for n in names):
            r["status"] = "undecided"
            r["reason"] = "vacuity guard: key obligation /%s/ not generated (contract silently dropped?)" % k
            return r
    r["status"] = "discharged"
    return r


def fetch_trace(u, gb, obligation, wd):
    """Re-run cbmc for one failed obligation with a trace; return (inputs, excerpt, raw text)."""
    cmd = cbmc_cmd(u, gb, ["--trace", "--property", obligation])
    rc, out, err, t = run(cmd, min(u.timeout, 900), u.mem_gb)
    inputs, excerpt = {}, []
    try:
        data = json.loads(out)
    except Exception:
        return inputs, excerpt
    for item in data:
        if not isinstance(item, dict) or "result" not in item:
            continue
        for res in item["result"]:
            if res.get("property") != obligation or "trace" not in res:
                continue
            for st in res["trace"]:
                if st.get("hidden"):
                    continue
                ty = st.get("stepType")
                loc = st.get("sourceLocation", {})
                if ty == "assignment":
                    lhs = st.get("lhs", "")
                    val = st.get("value", {})
                    data_ = val.get("data", val.get("name"))
                    if val.get("name") == "float" and val.get("binary") and val.get("width") in (32, 64):
                        data_ = "f%d:%x" % (val["width"], int(val["binary"], 2))   # exact bits for the native replay
                    if data_ is None and "elements" in val:
                        data_ = [e.get("value", {}).get("data") for e in val["elements"]]
                    if data_ is None and "members" in val:
                        data_ = {m.get("name"): m.get("value", {}).get("data") for m in val["members"]}
                    fn = loc.get("function", "")
                    if fn == u.entry or (loc.get("file") or "").endswith("harness/" + u.harness) or st.get("assignmentType") == "actual-parameter" or lhs.startswith("verif_"):
                        if not lhs.startswith("return_value") and "$" not in lhs and "__CPROVER" not in lhs:
                            inputs[lhs] = data_
                    excerpt.append("%s:%s %s = %s" % (loc.get("function"), loc.get("line"), lhs, data_))
                elif ty == "function-call":
                    excerpt.append("call %s" % st.get("function", {}).get("displayName"))
                elif ty == "failure":
                    excerpt.append("FAILURE %s: %s" % (st.get("property"), st.get("reason")))
    arrays = {}
    for k in list(inputs):
        m = re.match(r"^([A-Za-z_]\w*)\[(\d+)l*u*\]$", k)
        if m:
            arrays.setdefault(m.group(1), {})[int(m.group(2))] = inputs.pop(k)
    for name, d in arrays.items():
        inputs[name] = [d.get(i, 0) for i in range(max(d) + 1)]
    return inputs, excerpt[-120:]


def native_replay(u, inputs, wd):
    """Run the unit's native replay (real library, gcc + sanitizers). -> (confirmed?, output)"""
    rp = u.replay
    if not rp:
        return None, "no native replay registered for this unit"
    exe = wd / (u.name + ".replay")
    cfg = ROOT / "config" / (rp.get("config") or u.config or "a.native.h")
    if rp.get("native"):
        # the harness itself, compiled natively: same real code, same pre/postconditions, inputs by variable name
        cmd = ["gcc", "-g", "-O0", "-fsanitize=address,undefined", "-fno-sanitize-recover=undefined", "-ffp-contract=off",
               "-I", str(REPO / "include"), "-I", str(REPO), "-I", str(ROOT), "-DA_EXPORTS", '-DA_HAVE_H="%s"' % cfg,
               "-DVERIF_NATIVE", "-DVERIF_ENTRY=" + u.entry, "-w", "-o", str(exe), str(ROOT / "harness" / u.harness)] + [str(REPO / "src" / x) for x in rp.get("sources", [])] + ["-lm"]
        for d in (u.defines or []):
            cmd.insert(1, "-D" + d)
    else:
        srcs = [str(REPO / "src" / s) for s in rp.get("sources", [])]
        cmd = ["gcc", "-g", "-O0", "-fsanitize=address,undefined", "-fno-sanitize-recover=undefined",
               "-I", str(REPO / "include"), "-I", str(ROOT), "-DA_EXPORTS", '-DA_HAVE_H="%s"' % cfg,
               "-w", "-o", str(exe), str(ROOT / "replay" / rp["prog"])] + srcs + ["-lm"]
    for d in rp.get("defines", []):
        cmd.insert(1, "-D" + d)
    rc, out, err, t = run(cmd, 300, 16)
    if rc != 0:
        return None, "replay build failed: " + err[-400:]
    args = [rp.get("mode", u.name)]
    for k, v in sorted(inputs.items()):
        if isinstance(v, (list, dict)):
            v = json.dumps(v)
        args.append("%s=%s" % (k, v))
    env_rc, out, err, t = run([str(exe)] + args, rp.get("timeout", 300), None)  # ASan needs its shadow map: no RLIMIT_AS
    full = out + err
    confirmed = ("REPLAY CONFIRMED" in full) or bool(re.search(r"ERROR: AddressSanitizer: (?!failed to allocate)|runtime error:", full))
    text = full if len(full) <= 2400 else full[:1800] + "\n[...]\n" + full[-500:]
    return confirmed, text


def load_known():
    f = ROOT / "known_findings.json"
    if not f.exists():
        return []
    try:
        return json.loads(f.read_text()).get("findings", [])
    except Exception:
        return []


def match_known(known, pid, unit, fail):
    for k in known:
        if k.get("kind") != "known":
            continue            # 'fixed' entries suppress nothing
        if k.get("property") != pid:
            continue
        if k.get("unit") and k["unit"] != unit:
            continue
        pat = k.get("obligation")
        if pat and not re.search(pat, (fail.get("obligation") or "") + " " + (fail.get("description") or "")):
            continue
        return k
    return None


def scan_assumes():
    hits = []
    for d in ("harness", "contracts"):
        for p in sorted((ROOT / d).glob("*")):
            if p.is_file():
                n = len(re.findall(r"__CPROVER_assume\s*\(", p.read_text(errors="replace")))
                if n:
                    hits.append("%s/%s: %d __CPROVER_assume (harness preconditions of Hoare triples)" % (d, p.name, n))
    return hits


def main():
    ap = argparse.ArgumentParser()
    ap.add_argument("prop")
    ap.add_argument("--tier", default=os.environ.get("VERIF_TIER", "quick"))
    ap.add_argument("--unit", default=None)
    ap.add_argument("--jobs", type=int, default=int(os.environ.get("VERIF_JOBS", "0")) or (os.cpu_count() or 4))
    ap.add_argument("--keep", action="store_true")
    ap.add_argument("--list", action="store_true")
    ap.add_argument("--no-evidence", action="store_true")
    ap.add_argument("--replay", default=None, help="replay file written by an earlier violation")
    a = ap.parse_args()
    pid = a.prop
    tier = a.tier if a.tier in ("quick", "thorough") else "quick"
    seed = int(os.environ.get("VERIF_SEED", "0") or 0)

    spec = importlib.util.spec_from_file_location("prop_" + pid, ROOT / "props" / (pid + ".py"))
    mod = importlib.util.module_from_spec(spec)
    sys.path.insert(0, str(ROOT / "lib"))
    spec.loader.exec_module(mod)
    P = mod.PROPERTY
    units = [u for u in mod.UNITS if tier in u.tiers]
    # the per-unit timeouts in props/ are development values (a few times the quiet-machine run time); a registered run may share
    # the machine with other checks, and a timeout means "undecided" (exit 2), so registered runs get a generous margin
    if not os.environ.get("VERIF_DEV_TIMEOUTS"):
        for u in units:
            u["timeout"] = max(900, 3 * u["timeout"])
    if a.unit:
        want = set(a.unit.split(","))
        units = [u for u in mod.UNITS if u.name in want]
    if a.replay:
        d = json.loads(Path(a.replay).read_text())
        u = [x for x in mod.UNITS if x.name == d["unit"]][0]
        wd = ROOT / ".work" / ("%s.replay.%d" % (pid, os.getpid()))
        wd.mkdir(parents=True, exist_ok=True)
        try:
            log("replaying %s unit=%s failed obligations: %s" % (a.replay, u.name, [f["obligation"] for f in d["failed_obligations"]]))
            ok, text = native_replay(u, d.get("counterexample_inputs", {}), wd)
            log("native replay on /repo (gcc + ASan/UBSan): confirmed=%s\n%s" % (ok, text))
            r = run_unit(u, wd, tier)
            log("verifier re-run: unit %s %s failed=%s" % (u.name, r["status"], [f["obligation"] for f in r["failed"]]))
            return 1 if (ok or r["status"] == "violated") else 0
        finally:
            shutil.rmtree(wd, ignore_errors=True)
    if a.list:
        for u in units:
            print(u.name, u.level, u.harness, u.entry)
        return 0

    t0 = time.time()
    wd = ROOT / ".work" / ("%s.%d" % (pid, os.getpid()))
    wd.mkdir(parents=True, exist_ok=True)
    global TMPDIR_FOR_TOOLS
    (wd / "tmp").mkdir(exist_ok=True)
    TMPDIR_FOR_TOOLS = str(wd / "tmp")
    known = load_known()
    results = []
    try:
        # longest first
        order = sorted(units, key=lambda u: -(u.get("cost", 10)))
        # memory-aware admission: a unit declares its expected peak (mem_est, GB; default 2); units are started only while the
        # sum of the declared peaks stays within 70 % of the machine's memory (16 depth-4 tree units at once were OOM-killed)
        import threading
        try:
            total_gb = int(open("/proc/meminfo").read().split("MemTotal:")[1].split()[0]) >> 20
        except Exception:
            total_gb = 16
        budget = max(8, int(total_gb * 0.7))
        cond, used = threading.Condition(), [0]

        def admitted(u):
            need = min(budget, int(u.get("mem_est", 2)))
            with cond:
                while used[0] + need > budget:
                    cond.wait()
                used[0] += need
            try:
                return run_unit(u, wd, tier)
            finally:
                with cond:
                    used[0] -= need
                    cond.notify_all()
        with ThreadPoolExecutor(max_workers=max(1, a.jobs)) as ex:
            futs = {ex.submit(admitted, u): u for u in order}
            for f, u in futs.items():
                pass
            for f in futs:
                u = futs[f]
                try:
                    r = f.result()
                except Exception as e:  # driver bug: undecided, never a violation
                    r = {"unit": u.name, "level": u.level, "status": "undecided", "reason": "driver error: %r" % e,
                         "obligations": 0, "discharged": 0, "failed": [], "functions": list(u.functions),
                         "wall_s": 0, "solver_s": 0, "samples": [], "bound": u.bound}
                results.append((u, r))
                log("[%s] %-34s %-10s %s obl=%d ok=%d %.1fs %s" % (pid, r["unit"], r["status"], r["level"], r["obligations"],
                                                                  r["discharged"], r["wall_s"], (r.get("reason") or "")[:300]))
        # ---- violations ----
        violations, known_lines, undecided = [], [], []
        for u, r in results:
            if r["status"] == "undecided":
                undecided.append(r)
                continue
            if r["status"] != "violated":
                continue
            fresh = []
            for fl in r["failed"]:
                k = match_known(known, pid, u.name, fl)
                if k:
                    known_lines.append("KNOWN-FINDING: property=%s %s" % (pid, k.get("text", "")))
                    fl["known"] = True
                else:
                    fresh.append(fl)
            if not fresh:
                r["status"] = "known-finding"
                continue
            first = fresh[0]
            inputs, excerpt = fetch_trace(u, r["_gb"], first["obligation"], wd)
            confirmed, rtext = native_replay(u, inputs, wd) if inputs or u.replay else (None, "no inputs extracted")
            h = hashlib.sha1((u.name + json.dumps(first, sort_keys=True)).encode()).hexdigest()[:10]
            rdir = ROOT / "replays" / pid
            rdir.mkdir(parents=True, exist_ok=True)
            rf = rdir / ("%s-%s.json" % (u.name, h))
            rf.write_text(json.dumps({
                "property": pid, "unit": u.name, "level": u.level, "harness": "harness/" + u.harness, "entry": u.entry,
                "failed_obligations": fresh, "verifier": "cbmc 6.11.0", "cbmc_cmd": r.get("cmd"),
                "counterexample_inputs": inputs, "trace_excerpt": excerpt,
                "native_replay": {"program": (u.replay or {}).get("prog"), "confirmed": confirmed, "output": rtext},
                "how_to_replay": "./check %s --unit %s   (re-derives the counterexample); native: see native_replay.program under /verif/replay" % (pid, u.name),
            }, indent=1))
            r["replay"] = str(rf)
            r["confirmed"] = confirmed
            violations.append((u, r, rf, confirmed))
        for l in sorted(set(known_lines)):
            log(l)
        for u, r, rf, confirmed in violations:
            for fl in [x for x in r["failed"] if not x.get("known")][:5]:
                log("  failed obligation %s [%s:%s] %s" % (fl["obligation"], fl["file"], fl["line"], fl["description"]))
            log("VIOLATION property=%s replay=%s%s" % (pid, rf, "" if confirmed else " no-failing-input-found"))
        for r in undecided:
            log("UNDECIDED unit=%s reason=%s" % (r["unit"], r["reason"]))

        # ---- evidence ----
        if not a.no_evidence and not a.unit:
            pl = [(u, r) for u, r in results if r["level"] in ("P", "L")]
            bd = [(u, r) for u, r in results if r["level"] == "B"]
            obl = sum(r["obligations"] for u, r in pl)
            dis = sum(r["discharged"] for u, r in pl)
            level = P.get("level", "proof")
            fns = sorted({f for u, r in pl for f in r["functions"]})
            samples = []
            for u, r in sorted(results, key=lambda ur: 0 if ur[0].level in ("P", "L") else 1):  # unbounded units first
                for s in r["samples"][:2]:
                    samples.append(dict(s, unit=u.name, unit_level=u.level))
            cov = {
                "obligations": obl, "discharged": dis,
                "checker_cmd": "goto-cc --function <harness> ; goto-instrument --dfcc <harness> --enforce-contract f/contract_f [--replace-call-with-contract g/contract_g] [--apply-loop-contracts --loop-contracts-file ..] ; cbmc --json-ui " + " ".join(COMMON_CHECKS),
                "trusted_base": P.get("trusted_base", []),
                "functions_under_contract": fns,
                "units": [{k: r.get(k) for k in ("unit", "level", "status", "obligations", "discharged", "wall_s", "solver_s", "backend", "bound", "functions", "reason", "canary")} for u, r in results],
                "bounded_units": [{"unit": r["unit"], "bound": r["bound"], "obligations": r["obligations"], "discharged": r["discharged"], "status": r["status"]} for u, r in bd],
                "parameters_concretised": P.get("parameters_concretised", []),
                "not_applicable_clauses": P.get("not_applicable_clauses", []),
                "samples": samples[:24],
                "explanation": P.get("explanation", ""),
                "back_end": "cbmc 6.11.0 bit-precise SAT (MiniSat 2.2.1 unless a unit names another solver)",
                "solver_s_total": round(sum(r["solver_s"] for u, r in results), 2),
                "solver_s_note": "per unit: cbmc's reported decision-procedure time where available, otherwise the wall time of the cbmc call (upper bound)",
                "evaluations": sum(r["obligations"] for u, r in results),
                "distinct_nontrivial": sum(r["obligations"] for u, r in results),
                "rule": "one evaluation = one proof obligation generated by cbmc/goto-instrument from /repo's current source and decided by the back end; canary obligations excluded",
            }
            ev = {
                "property_id": pid, "tier": tier, "seed": seed, "level": level, "coverage": cov,
                "assumptions": P.get("assumptions", []) + scan_assumes(),
                "wall_s": round(time.time() - t0, 2),
                "violations": len(violations),
                "undecided_units": [r["unit"] for r in undecided],
                "known_findings_reported": sorted(set(known_lines)),
            }
            (ROOT / "evidence").mkdir(exist_ok=True)
            (ROOT / "evidence" / (pid + ".json")).write_text(json.dumps(ev, indent=1))
        n_ok = len([1 for u, r in results if r["status"] == "discharged"])
        log("[%s] tier=%s units=%d discharged=%d violated=%d undecided=%d wall=%.0fs" % (pid, tier, len(results), n_ok, len(violations), len(undecided), time.time() - t0))
        if violations:
            return 1
        if undecided:
            return 2
        return 0
    finally:
        if not a.keep:
            shutil.rmtree(wd, ignore_errors=True)


if __name__ == "__main__":
    sys.exit(main())
