/* native replay / counterexample search for C17 units: real library (gcc + ASan/UBSan) against the
   bit-by-bit definition.  Seeds the search with the polynomial / value of cbmc's counterexample when present. */
#include "rp.h"
#include "a/crc.h"
#include "a/hash.h"

static uint64_t rng = 0x9E3779B97F4A7C15ull;
static uint64_t rnd(void) { rng ^= rng << 13; rng ^= rng >> 7; rng ^= rng << 17; return rng; }
static uint64_t mask(unsigned w) { return w == 64 ? ~0ull : ((1ull << w) - 1); }
static uint64_t rev(uint64_t x, unsigned w) { uint64_t r = 0; unsigned i; for (i = 0; i < w; ++i) r |= ((x >> i) & 1) << (w - 1 - i); return r; }
static uint64_t bit_m(uint64_t v, unsigned bit, uint64_t poly, unsigned w) { uint64_t top = ((v >> (w - 1)) & 1) ^ bit; v = (v << 1) & mask(w); if (top) v ^= poly; return v & mask(w); }
static uint64_t bit_l(uint64_t v, unsigned bit, uint64_t polyr, unsigned w) { uint64_t low = (v & 1) ^ bit; v = (v & mask(w)) >> 1; if (low) v ^= polyr; return v & mask(w); }
static uint64_t ref_m(const unsigned char *p, size_t n, uint64_t v, uint64_t poly, unsigned w) { size_t i; int b; for (i = 0; i < n; ++i) for (b = 7; b >= 0; --b) v = bit_m(v, (p[i] >> b) & 1, poly, w); return v; }
static uint64_t ref_l(const unsigned char *p, size_t n, uint64_t v, uint64_t poly, unsigned w) { size_t i; int b; uint64_t pr = rev(poly, w); for (i = 0; i < n; ++i) for (b = 0; b < 8; ++b) v = bit_l(v, (p[i] >> b) & 1, pr, w); return v; }

static a_u8 t8[256]; static a_u16 t16[256]; static a_u32 t32[256]; static a_u64 t64[256];
static uint64_t run(unsigned w, int lsb, uint64_t poly, const unsigned char *p, size_t n, uint64_t v)
{
    switch (w) {
    case 8: if (lsb) a_crc8l_init(t8, (a_u8)poly); else a_crc8m_init(t8, (a_u8)poly); return a_crc8(t8, p, n, (a_u8)v);
    case 16: if (lsb) { a_crc16l_init(t16, (a_u16)poly); return a_crc16l(t16, p, n, (a_u16)v); } a_crc16m_init(t16, (a_u16)poly); return a_crc16m(t16, p, n, (a_u16)v);
    case 32: if (lsb) { a_crc32l_init(t32, (a_u32)poly); return a_crc32l(t32, p, n, (a_u32)v); } a_crc32m_init(t32, (a_u32)poly); return a_crc32m(t32, p, n, (a_u32)v);
    default: if (lsb) { a_crc64l_init(t64, poly); return a_crc64l(t64, p, n, v); } a_crc64m_init(t64, poly); return a_crc64m(t64, p, n, v);
    }
}
static int crc_search(unsigned w, int lsb, uint64_t poly0, uint64_t v0)
{
    unsigned char buf[96]; int it;
    for (it = 0; it < 4000; ++it) {
        uint64_t poly = (it == 0 ? poly0 : it < 64 ? (1ull << (it % w)) | (it & 1) : rnd()) & mask(w), v = (it == 0 ? v0 : rnd()) & mask(w);
        size_t n = it % 97 % 96, i, s; uint64_t got, want, part;
        for (i = 0; i < n; ++i) buf[i] = (unsigned char)rnd();
        got = run(w, lsb, poly, buf, n, v); want = lsb ? ref_l(buf, n, v, poly, w) : ref_m(buf, n, v, poly, w);
        if (got != want) { printf("crc%u%c poly=0x%llx init=0x%llx len=%zu: table-driven 0x%llx, bitwise division 0x%llx\n", w, lsb ? 'l' : 'm', (unsigned long long)poly, (unsigned long long)v, n, (unsigned long long)got, (unsigned long long)want); return rp_fail("CRC differs from bit-by-bit division"); }
        s = n ? rnd() % (n + 1) : 0; part = run(w, lsb, poly, buf, s, v);
        if (run(w, lsb, poly, buf + s, n - s, part) != got) { printf("crc%u%c poly=0x%llx len=%zu split=%zu\n", w, lsb ? 'l' : 'm', (unsigned long long)poly, n, s); return rp_fail("chunked CRC differs from one-shot"); }
    }
    return 0;
}
static int hash_search(int sdbm)
{
    unsigned char buf[80]; int it;
    for (it = 0; it < 4000; ++it) {
        size_t n = it % 64, i, s; a_u32 v = (a_u32)rnd(), want = v, g1, g2, part;
        for (i = 0; i < n; ++i) { buf[i] = (unsigned char)(rnd() | 1); if (it & 1) buf[i] |= 0x80; }
        buf[n] = 0;
        for (i = 0; i < n; ++i) want = want * (sdbm ? 65599u : 131u) + buf[i];
        g1 = sdbm ? a_hash_sdbm(buf, v) : a_hash_bkdr(buf, v); g2 = sdbm ? a_hash_sdbm_(buf, n, v) : a_hash_bkdr_(buf, n, v);
        if ((it & 3) == 2 && n > 2)
        {
            /* length-delimited form on data WITH zero bytes */
            unsigned char z[80]; a_u32 wz = v, gz; size_t j;
            memcpy(z, buf, n); z[n / 2] = 0; z[0] = 0;
            for (j = 0; j < n; ++j) wz = wz * (sdbm ? 65599u : 131u) + z[j];
            gz = sdbm ? a_hash_sdbm_(z, n, v) : a_hash_bkdr_(z, n, v);
            if (gz != wz) { printf("%s_ len=%zu with zero bytes at 0 and %zu: 0x%x, definition 0x%x\n", sdbm ? "sdbm" : "bkdr", n, n / 2, gz, wz); return rp_fail("length-delimited hash differs from its defining recurrence on data containing zero bytes"); }
        }
        if (g1 != want || g2 != want) { printf("%s len=%zu first byte 0x%02x: string form 0x%x, length form 0x%x, definition 0x%x\n", sdbm ? "sdbm" : "bkdr", n, n ? buf[0] : 0, g1, g2, want); return rp_fail("hash differs from its defining recurrence / forms disagree"); }
        s = n ? rnd() % (n + 1) : 0; part = sdbm ? a_hash_sdbm_(buf, s, v) : a_hash_bkdr_(buf, s, v);
        if ((sdbm ? a_hash_sdbm_(buf + s, n - s, part) : a_hash_bkdr_(buf + s, n - s, part)) != g2) return rp_fail("chunked hash differs from one-shot");
    }
    return 0;
}

int main(int argc, char **argv)
{
    rp_init(argc, argv);
    const char *m = rp_mode();
    unsigned w = strstr(m, "64") ? 64 : strstr(m, "32") ? 32 : strstr(m, "16") ? 16 : 8;
    uint64_t poly = rp_u64("poly", 0x1021), v = rp_u64("value", rp_u64("v", 0));
    if (strstr(m, "hash") || strstr(m, "bkdr") || strstr(m, "sdbm")) return hash_search(strstr(m, "sdbm") != 0) || hash_search(strstr(m, "sdbm") == 0);
    if (!strncmp(m, "rev_agrees", 10)) {
        uint64_t x = rp_u64("x", 0); int it;
        for (it = 0; it < 100000; ++it, x = rnd()) {
            if (a_u8_rev((a_u8)x) != rev(x & 0xFF, 8) || a_u16_rev((a_u16)x) != rev(x & 0xFFFF, 16) || a_u32_rev((a_u32)x) != rev(x & 0xFFFFFFFFu, 32) || a_u64_rev(x) != rev(x, 64)) { printf("x=0x%llx rev16=0x%x want 0x%llx\n", (unsigned long long)x, a_u16_rev((a_u16)x), (unsigned long long)rev(x & 0xFFFF, 16)); return rp_fail("a_uN_rev is not the bit reflection"); }
        }
        return 0;
    }
    if (strstr(m, "crc8") && !strstr(m, "crc8m") && !strstr(m, "crc8l")) return crc_search(8, 0, poly, v) || crc_search(8, 1, poly, v);
    {
        int lsb = (strstr(m, "8l") || strstr(m, "16l") || strstr(m, "32l") || strstr(m, "64l")) != 0;
        return crc_search(w, lsb, poly, v);
    }
}
