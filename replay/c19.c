/* native replay for C19 units: real library code (gcc + ASan/UBSan), postcondition re-evaluated */
#include "rp.h"
#include "a/a.h"
#include "a/math.h"

static uint64_t isqrt_ref(uint64_t x) { uint64_t r = 0, b = (uint64_t)1 << 62; while (b > x) b >>= 2; for (; b; b >>= 2) { if (x >= r + b) { x -= r + b; r = (r >> 1) + b; } else r >>= 1; } return r; }
static uint64_t gcd_ref(uint64_t a, uint64_t b) { uint64_t g = 0, d; if (!a) return b; if (!b) return a; for (d = 1; d <= a && d <= b; ++d) if (a % d == 0 && b % d == 0) g = d; return g; }

int main(int argc, char **argv)
{
    rp_init(argc, argv);
    const char *m = rp_mode();
    uint64_t x = rp_u64("x", 0);
    if (!strncmp(m, "rev", 3)) {
        int w = atoi(m + 3), i; uint64_t r = w == 8 ? a_u8_rev((a_u8)x) : w == 16 ? a_u16_rev((a_u16)x) : w == 32 ? a_u32_rev((a_u32)x) : a_u64_rev(x);
        uint64_t xm = w == 64 ? x : x & (((uint64_t)1 << w) - 1);
        for (i = 0; i < w; ++i) if (((r >> (w - 1 - i)) & 1) != ((xm >> i) & 1)) { printf("rev%d(0x%llx)=0x%llx bit %d\n", w, (unsigned long long)xm, (unsigned long long)r, i); return rp_fail("bit i not mapped to w-1-i"); }
        return 0;
    }
    if (!strncmp(m, "ord", 3)) {
        int w = atoi(m + 3), n = w / 8, i; unsigned char b[8]; uint64_t xm = w == 64 ? x : x & (((uint64_t)1 << w) - 1), g;
        if (w == 16) a_u16_setl(b, (a_u16)x); else if (w == 32) a_u32_setl(b, (a_u32)x); else a_u64_setl(b, x);
        for (i = 0; i < n; ++i) if (b[i] != (unsigned char)(xm >> (8 * i))) return rp_fail("setl layout");
        g = w == 16 ? a_u16_getl(b) : w == 32 ? a_u32_getl(b) : a_u64_getl(b);
        if (g != xm) { printf("getl(setl(0x%llx)) = 0x%llx\n", (unsigned long long)xm, (unsigned long long)g); return rp_fail("getl(setl(x)) != x"); }
        if (w == 16) a_u16_setb(b, (a_u16)x); else if (w == 32) a_u32_setb(b, (a_u32)x); else a_u64_setb(b, x);
        for (i = 0; i < n; ++i) if (b[i] != (unsigned char)(xm >> (8 * (n - 1 - i)))) return rp_fail("setb layout");
        g = w == 16 ? a_u16_getb(b) : w == 32 ? a_u32_getb(b) : a_u64_getb(b);
        if (g != xm) { printf("getb(setb(0x%llx)) = 0x%llx\n", (unsigned long long)xm, (unsigned long long)g); return rp_fail("getb(setb(x)) != x"); }
        /* load of the traced byte pattern m0[GUARD..] */
        if (rp_has("m0")) { uint64_t l = 0, bb = 0; for (i = 0; i < n; ++i) { b[i] = (unsigned char)rp_arr_u64("m0", 4 + i, 0); l |= (uint64_t)b[i] << (8 * i); bb |= (uint64_t)b[i] << (8 * (n - 1 - i)); }
            g = w == 16 ? a_u16_getl(b) : w == 32 ? a_u32_getl(b) : a_u64_getl(b); if (g != l) { printf("getl -> 0x%llx want 0x%llx\n", (unsigned long long)g, (unsigned long long)l); return rp_fail("getl layout"); }
            g = w == 16 ? a_u16_getb(b) : w == 32 ? a_u32_getb(b) : a_u64_getb(b); if (g != bb) { printf("getb -> 0x%llx want 0x%llx\n", (unsigned long long)g, (unsigned long long)bb); return rp_fail("getb layout"); } }
        return 0;
    }
    if (strstr(m, "squares")) {
        /* the unit's family: n = 2^k + j, 2^k - 1 - j; x in {n^2 - 1, n^2, n^2 + 2n} */
        int w64 = strstr(m, "64") != 0, k, j, s, d;
        for (k = 2; k <= (w64 ? 32 : 16); ++k) for (j = 0; j < 4; ++j) for (s = 0; s < 2; ++s) {
            uint64_t n = s ? ((uint64_t)1 << k) - 1 - j : ((uint64_t)1 << k) + j, xs[3];
            if (n >> (w64 ? 32 : 16) || n == 0) continue;
            xs[0] = n * n - 1; xs[1] = n * n; xs[2] = n * n + 2 * n;
            for (d = 0; d < 3; ++d) {
                uint64_t r = w64 ? a_u64_sqrt(xs[d]) : a_u32_sqrt((a_u32)xs[d]), e = isqrt_ref(xs[d]);
                if (r != e) { printf("a_u%d_sqrt(%llu) = %llu, floor sqrt = %llu (n = %llu)\n", w64 ? 64 : 32, (unsigned long long)xs[d], (unsigned long long)r, (unsigned long long)e, (unsigned long long)n); return rp_fail("wrong integer square root next to a perfect square"); }
            }
        }
        return 0;
    }
    if (!strncmp(m, "lcm", 3)) {
        /* lcm on wide arguments against an independent Euclid: a = A << s, b = B (and swapped), A, B < 64 */
        int w64 = strstr(m, "64") != 0, s; uint64_t A, B;
        if (rp_has("a") && rp_has("b")) { /* the traced argument pair first */
            uint64_t a = rp_u64("a", 0), b = rp_u64("b", 0), u = a, v = b, t, l;
            if (!w64) { a = (a_u32)a; b = (a_u32)b; u = a; v = b; }
            while (v) { t = u % v; u = v; v = t; }
            l = w64 ? a_u64_lcm(a, b) : a_u32_lcm((a_u32)a, (a_u32)b);
            if (u && (w64 || a / u * b <= 0xFFFFFFFFu) && l != a / u * b) { printf("a_u%d_lcm(%llu, %llu) = %llu, expected %llu (gcd %llu)\n", w64 ? 64 : 32, (unsigned long long)a, (unsigned long long)b, (unsigned long long)l, (unsigned long long)(a / u * b), (unsigned long long)u); return rp_fail("lcm != a / gcd * b for a representable lcm"); }
        }
        for (s = 0; s <= (w64 ? 40 : 20); s += (w64 ? 8 : 5)) for (A = 1; A < 64; ++A) for (B = 1; B < 64; ++B) {
            uint64_t a = A << s, b = B, u = a, v = b, t, g, l, l2;
            while (v) { t = u % v; u = v; v = t; }
            g = u;
            l = w64 ? a_u64_lcm(a, b) : a_u32_lcm((a_u32)a, (a_u32)b); l2 = w64 ? a_u64_lcm(b, a) : a_u32_lcm((a_u32)b, (a_u32)a);
            if (l != a / g * b || l2 != l) { printf("a_u%d_lcm(%llu, %llu) = %llu / %llu, expected %llu (gcd %llu)\n", w64 ? 64 : 32, (unsigned long long)a, (unsigned long long)b, (unsigned long long)l, (unsigned long long)l2, (unsigned long long)(a / g * b), (unsigned long long)g); return rp_fail("lcm * gcd != a * b for a representable product"); }
        }
        return 0;
    }
    if (!strncmp(m, "sqrt32", 6)) { uint64_t r = a_u32_sqrt((a_u32)x), e = isqrt_ref((a_u32)x); if (r != e) { printf("a_u32_sqrt(%llu) = %llu, floor sqrt = %llu\n", (unsigned long long)(a_u32)x, (unsigned long long)r, (unsigned long long)e); return rp_fail("wrong integer square root"); } return 0; }
    if (!strncmp(m, "sqrt64", 6)) { uint64_t r = a_u64_sqrt(x), e = isqrt_ref(x); if (r != e) { printf("a_u64_sqrt(%llu) = %llu, floor sqrt = %llu\n", (unsigned long long)x, (unsigned long long)r, (unsigned long long)e); return rp_fail("wrong integer square root"); } return 0; }
    if (!strncmp(m, "gcd", 3)) {
        uint64_t a = rp_u64("a", 0), b = rp_u64("b", 0); int w64 = strstr(m, "64") != 0;
        uint64_t g = w64 ? a_u64_gcd(a, b) : a_u32_gcd((a_u32)a, (a_u32)b), l = w64 ? a_u64_lcm(a, b) : a_u32_lcm((a_u32)a, (a_u32)b);
        if (!w64) { a = (a_u32)a; b = (a_u32)b; }
        if ((a < 100000 && b < 100000 && g != gcd_ref(a, b)) || (b == 0 && g != a)) { printf("gcd(%llu,%llu) = %llu\n", (unsigned long long)a, (unsigned long long)b, (unsigned long long)g); return rp_fail("wrong gcd"); }
        if (g && (a % g || b % g)) { printf("gcd(%llu,%llu) = %llu does not divide\n", (unsigned long long)a, (unsigned long long)b, (unsigned long long)g); return rp_fail("gcd does not divide an argument"); }
        if (a < 100000 && b < 100000 && l * g != a * b) { printf("lcm(%llu,%llu) = %llu gcd %llu\n", (unsigned long long)a, (unsigned long long)b, (unsigned long long)l, (unsigned long long)g); return rp_fail("lcm*gcd != a*b"); }
        return 0;
    }
    printf("unknown mode %s\n", m);
    return 0;
}
