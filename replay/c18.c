/* native replay / counterexample search for C18: real a_utf_* (gcc + ASan/UBSan), exact-size heap blocks */
#include "rp.h"
#include "a/utf.h"
static unsigned spec_len(a_u32 x) { return !x ? 0 : x < 0x80 ? 1 : x < 0x800 ? 2 : x < 0x10000 ? 3 : x < 0x200000 ? 4 : x < 0x4000000 ? 5 : 6; }
static int check_cp(a_u32 x)
{
    unsigned char buf[8]; unsigned n, m, k; a_u32 y = 0; unsigned char *e;
    memset(buf, 0xAA, 8);
    n = a_utf_encode(x, buf);
    if (n != spec_len(x & 0x7FFFFFFF)) { printf("encode(U+%X) length %u, table says %u\n", x, n, spec_len(x & 0x7FFFFFFF)); return rp_fail("encoded length differs from the UTF-8 table"); }
    if (a_utf_encode(x, 0) != n) return rp_fail("size-only encode differs");
    for (k = n; k < 8; ++k) if (buf[k] != 0xAA) return rp_fail("encode wrote beyond its length");
    if (!(x & 0x7FFFFFFF)) return 0;
    e = (unsigned char *)malloc(n); memcpy(e, buf, n);
    m = a_utf_decode(e, n, &y);
    if (m != n || y != (x & 0x7FFFFFFF)) { printf("U+%X -> %u bytes -> decode %u U+%X\n", x, n, m, y); free(e); return rp_fail("round trip fails"); }
    if (a_utf_decode(e, n, 0) != n) { free(e); return rp_fail("size-only decode differs"); }
    free(e);
    for (k = 1; k < n; ++k) { e = (unsigned char *)malloc(k); memcpy(e, buf, k); m = a_utf_decode(e, k, &y); if (m) { printf("U+%X prefix %u of %u accepted with %u\n", x, k, n, m); free(e); return rp_fail("proper prefix accepted"); }
        m = a_utf_decode(e, k, 0); if (m) { printf("U+%X prefix %u of %u accepted (size-only) with %u\n", x, k, n, m); free(e); return rp_fail("proper prefix accepted (size-only)"); } free(e); }
    return 0;
}
int main(int argc, char **argv)
{
    static const a_u32 edges[] = {0, 1, 0x7F, 0x80, 0x7FF, 0x800, 0xFFFF, 0x10000, 0x1FFFFF, 0x200000, 0x3FFFFFF, 0x4000000, 0x7FFFFFFF, 0x80000000u, 0xFFFFFFFFu};
    unsigned i; int d; a_u32 x; unsigned b0, b1, b2, len;
    rp_init(argc, argv);
    if (rp_has("val") && check_cp((a_u32)rp_u64("val", 0))) return 1;
    if (rp_has("x") && check_cp((a_u32)rp_u64("x", 0))) return 1;
    for (i = 0; i < sizeof(edges) / sizeof(*edges); ++i) for (d = -40; d <= 40; ++d) if (check_cp(edges[i] + (a_u32)d)) return 1;
    for (x = 1; x < 0x7FFFFFFF - 99991; x += 99991) if (check_cp(x)) return 1;
    /* arbitrary bytes in exact-size blocks: ASan reports any read beyond the stated length */
    for (len = 1; len <= 3; ++len) for (b0 = 0; b0 < 256; ++b0) for (b1 = 0; b1 < 256; b1 += (len > 1 ? 5 : 256)) for (b2 = 0; b2 < 256; b2 += (len > 2 ? 17 : 256)) {
        unsigned char *e = (unsigned char *)malloc(len); a_u32 y; unsigned m, m0; a_size st = 0, n;
        e[0] = (unsigned char)b0; if (len > 1) e[1] = (unsigned char)b1; if (len > 2) e[2] = (unsigned char)b2;
        m = a_utf_decode(e, len, &y); m0 = a_utf_decode(e, len, 0);
        if (m > len || m0 > len) { printf("bytes %02x %02x %02x len %u: decoder reports %u/%u\n", b0, b1, b2, len, m, m0); return rp_fail("decoder reports more bytes than available"); }
        if (m != m0) { printf("bytes %02x %02x %02x len %u: %u with output, %u without\n", b0, b1, b2, len, m, m0); return rp_fail("decode length depends on the output pointer"); }
        for (i = 1; i < m; ++i) if ((e[i] & 0xC0) != 0x80) return rp_fail("accepted a non-continuation trailing byte");
        n = a_utf_length(e, len, &st); if (st > len || n > len) return rp_fail("a_utf_length ran past the buffer");
        free(e);
    }
    return 0;
}
