/* tiny helper for native replays: inputs arrive as name=value arguments taken from cbmc's trace */
#ifndef RP_H
#define RP_H
#include <stdio.h>
#include <stdlib.h>
#include <string.h>
#include <stdint.h>
static int rp_argc; static char **rp_argv;
static void rp_init(int argc, char **argv) { rp_argc = argc; rp_argv = argv; }
static const char *rp_mode(void) { return rp_argc > 1 ? rp_argv[1] : ""; }
static const char *rp_str(const char *name)
{
    size_t n = strlen(name); int i;
    for (i = 2; i < rp_argc; ++i) { if (!strncmp(rp_argv[i], name, n) && rp_argv[i][n] == '=') return rp_argv[i] + n + 1; }
    return 0;
}
static int rp_has(const char *name) { return rp_str(name) != 0; }
static uint64_t rp_u64(const char *name, uint64_t dflt)
{
    const char *s = rp_str(name); if (!s) return dflt;
    if (!strncmp(s, "TRUE", 4) || !strncmp(s, "true", 4)) return 1;
    if (!strncmp(s, "FALSE", 5) || !strncmp(s, "false", 5)) return 0;
    if (s[0] == '-') return (uint64_t)strtoll(s, 0, 0);
    return strtoull(s, 0, 0);
}
static int64_t rp_i64(const char *name, int64_t dflt) { return (int64_t)rp_u64(name, (uint64_t)dflt); }
static double rp_f64(const char *name, double dflt)
{
    const char *s = rp_str(name); if (!s) return dflt;
    if (!strncmp(s, "f64:", 4)) { uint64_t b = strtoull(s + 4, 0, 16); double d; memcpy(&d, &b, 8); return d; }
    if (!strncmp(s, "f32:", 4)) { uint32_t b = (uint32_t)strtoul(s + 4, 0, 16); float f; memcpy(&f, &b, 4); return f; }
    if (!strncmp(s, "+INFINITY", 9) || !strncmp(s, "INFINITY", 8) || !strncmp(s, "+inf", 4)) return 1.0 / 0.0;
    if (!strncmp(s, "-INFINITY", 9) || !strncmp(s, "-inf", 4)) return -1.0 / 0.0;
    if (strstr(s, "NAN") || strstr(s, "nan")) return 0.0 / 0.0;
    return strtod(s, 0);
}
/* element k of a JSON-ish list value "[..., ...]" */
static uint64_t rp_arr_u64(const char *name, int k, uint64_t dflt)
{
    const char *s = rp_str(name); int i = 0; if (!s) return dflt;
    while (*s && *s != '[') ++s; if (!*s) return dflt; ++s;
    for (;;) { while (*s == ' ' || *s == '"') ++s; if (!*s || *s == ']') return dflt;
        if (i == k) { if (!strncmp(s, "TRUE", 4) || !strncmp(s, "true", 4)) return 1; return (*s == '-') ? (uint64_t)strtoll(s, 0, 0) : strtoull(s, 0, 0); }
        while (*s && *s != ',' && *s != ']') ++s; if (*s == ',') ++s; ++i; }
}
static int rp_fail(const char *what) { printf("REPLAY CONFIRMED: %s\n", what); return 1; }
#endif
