/* native counterexample search for the tree lemma units: real a_avl_* / a_rbt_* (gcc + ASan/UBSan) driven by
   pseudo-random insert/remove histories over small key sets; after every operation the full invariant of
   C01 / C02 is checked (order, parent links, balance factors / colours and black heights, element set). */
#include "rp.h"
#include "a/avl.h"
#include "a/rbt.h"
#define NK 24
typedef struct { a_avl_node n; int key; int in; } ai;
typedef struct { a_rbt_node n; int key; int in; } ri;
static uint64_t rng = 88172645463325252ull;
static uint64_t rnd(void) { rng ^= rng << 13; rng ^= rng >> 7; rng ^= rng << 17; return rng; }
static int acmp(void const *l, void const *r) { return ((ai const *)l)->key - ((ai const *)r)->key; }
static int rcmp(void const *l, void const *r) { return ((ri const *)l)->key - ((ri const *)r)->key; }
static int cnt;
static int achk(a_avl_node *x, a_avl_node *p, int lo, int hi)
{
    int hl, hr, k;
    if (!x) return 0;
    k = ((ai *)x)->key;
    if (!(lo < k && k < hi) || a_avl_parent(x) != p) return -100;
    hl = achk(x->left, x, lo, k); hr = achk(x->right, x, k, hi);
    if (hl < 0 || hr < 0 || hr - hl > 1 || hl - hr > 1) return -100;
#if defined(A_SIZE_POINTER) && (A_SIZE_POINTER + 0 > 3)
    if ((int)(x->parent_ & 3) - 1 != hr - hl) return -100;
#else
    if (x->factor != hr - hl) return -100;
#endif
    ++cnt;
    return 1 + (hl > hr ? hl : hr);
}
static int red(a_rbt_node *x)
{
#if defined(A_SIZE_POINTER) && (A_SIZE_POINTER + 0 > 1)
    return x && !(x->parent_ & 1);
#else
    return x && !x->color;
#endif
}
static int rchk(a_rbt_node *x, a_rbt_node *p, int lo, int hi)
{
    int hl, hr, k;
    if (!x) return 0;
    k = ((ri *)x)->key;
    if (!(lo < k && k < hi) || a_rbt_parent(x) != p) return -100;
    hl = rchk(x->left, x, lo, k); hr = rchk(x->right, x, k, hi);
    if (hl < 0 || hr < 0 || hl != hr) return -100;
    if (red(x) && (red(x->left) || red(x->right))) return -100;
    ++cnt;
    return hl + (red(x) ? 0 : 1);
}
int main(int argc, char **argv)
{
    static ai a[NK]; static ri r[NK];
    int avl, round, step, i, n;
    rp_init(argc, argv);
    avl = strstr(rp_mode(), "avl") != 0;
    for (round = 0; round < 3000; ++round)
    {
        a_avl ta = {0}; a_rbt tr = {0};
        int keys = 4 + (int)(rnd() % (NK - 3));
        n = 0;
        for (i = 0; i < NK; ++i) { a[i].key = r[i].key = 2 * i + 2; a[i].in = r[i].in = 0; }
        for (step = 0; step < 120; ++step)
        {
            i = (int)(rnd() % (unsigned)keys);
            int ins = (rnd() % 5) < (n < keys / 2 ? 4u : 2u);
            if (avl)
            {
                if (ins) { a_avl_node *e = a_avl_insert(&ta, &a[i].n, acmp); if (a[i].in ? e != &a[i].n : e != 0) { printf("round %d step %d: insert key %d returned the wrong element\n", round, step, a[i].key); return rp_fail("AVL duplicate/insert result"); } if (!a[i].in) { a[i].in = 1; ++n; } }
                else if (a[i].in) { a_avl_remove(&ta, &a[i].n); a[i].in = 0; --n; }
                cnt = 0;
                if (achk(ta.node, 0, 0, 1000) < 0 || cnt != n) { printf("round %d step %d (%s key %d, %d elements): AVL invariant broken\n", round, step, ins ? "insert" : "remove", a[i].key, n); return rp_fail("AVL tree is no longer a balanced, correctly linked search tree holding exactly its elements"); }
            }
            else
            {
                if (ins) { a_rbt_node *e = a_rbt_insert(&tr, &r[i].n, rcmp); if (r[i].in ? e != &r[i].n : e != 0) { printf("round %d step %d: insert key %d returned the wrong element\n", round, step, r[i].key); return rp_fail("RBT duplicate/insert result"); } if (!r[i].in) { r[i].in = 1; ++n; } }
                else if (r[i].in) { a_rbt_remove(&tr, &r[i].n); r[i].in = 0; --n; }
                cnt = 0;
                if (rchk(tr.node, 0, 0, 1000) < 0 || cnt != n || red(tr.node)) { printf("round %d step %d (%s key %d, %d elements): red-black invariant broken\n", round, step, ins ? "insert" : "remove", r[i].key, n); return rp_fail("red-black tree invariant (colour, black height, order, parent links, element set) broken"); }
            }
        }
    }
    return 0;
}
